#!/bin/bash
# usage: tools/sweep.sh <tier> <seed>...   -- runs every check at the given seeds, prints one line per run
cd "$(dirname "$0")/.." || exit 3
tier="$1"; shift
for seed in "$@"; do
  for id in $(python3 -c "import json;print(' '.join(c['property_id'] for c in json.load(open('MANIFEST.json'))['checks']))"); do
    t0=$(date +%s)
    out=$(VERIF_SEED=$seed timeout 7200 ./check $id $tier 2>&1); rc=$?
    t1=$(date +%s)
    echo "seed=$seed $id rc=$rc $((t1-t0))s $(echo "$out" | grep -E '^RESULT' | tail -1 | cut -c1-160)"
    if [ $rc -ne 0 ]; then echo "$out" | grep -E '^(VIOLATION|INCONCLUSIVE|violation)' | head -5; fi
  done
done
