#!/usr/bin/env python3
"""Regenerates /verif/MANIFEST.json from the table below (claimed checks) and properties.jsonl."""
import json, os, subprocess
ROOT = os.path.dirname(os.path.dirname(os.path.abspath(__file__)))
props = [json.loads(l) for l in open(os.path.join(ROOT, 'properties.jsonl'))]

# id -> (category, technique, level text, level note, design ref)
CLAIMED = {}
def claim(pid, cat, technique, text, note, ref):
    CLAIMED[pid] = (cat, technique, text, note, ref)

exec(open(os.path.join(ROOT, 'tools', 'claims.py')).read())

hook_commits = subprocess.run(['git', '-C', '/repo', 'log', '--format=%H', '--grep=^verif:'], capture_output=True, text=True).stdout.split()
checks = []
na = []
for p in props:
    pid = p['id']
    if pid in CLAIMED:
        cat, tech, text, note, ref = CLAIMED[pid]
        checks.append({
            'property_id': pid,
            'quick_cmd': f'./check {pid} quick',
            'thorough_cmd': f'./check {pid} thorough',
            'evidence_file': f'/verif/evidence/{pid}.json',
            'replay_cmd_template': f'./check {pid} --replay {{path}}',
            'engine': 'vcheck',
            'level_claimed': {'category': cat, 'text': text, 'design_ref': ref},
            'level_note': note,
            'technique': tech,
        })
    else:
        na.append({'property_id': pid, 'reason': 'check under construction; not yet claimed'})
m = {
    'version': 1,
    'setup_cmd': './check --setup',
    'hooks': {
        'guard': 'verif',
        'enable': 'go build -tags verif (hook sites call verifPoint(site); verif_off.go makes it an empty function without the tag)',
        'baseline_off_cmd': 'cd /repo && GOFLAGS=-mod=mod GOPROXY=off GOSUMDB=off GOTOOLCHAIN=local go test -vet=off -count=1 ./...',
        'source_commits': hook_commits,
        'add_only': True,
    },
    'engines': [{'name': 'vcheck', 'path': '/verif/harness', 'serves_properties': sorted(CLAIMED), 'kind_free_text': 'Go harness: workload generators, reference oracles and monitors run against the real code built from /repo (plain, -tags verif, -race); child processes for crashing/hanging/racy workloads'}],
    'checks': checks,
    'not_applicable': na,
    'notes': 'Runtime monitoring: every verdict is "held on the executions observed" (exit 0), "violated with witness" (exit 1, VIOLATION line) or "inconclusive" (exit 2, INCONCLUSIVE line). KNOWN_FINDINGS.txt lists recorded defects and the fix: commits.',
}
json.dump(m, open(os.path.join(ROOT, 'MANIFEST.json'), 'w'), indent=1)
print('claimed', sorted(CLAIMED), 'not claimed', [x['property_id'] for x in na])
