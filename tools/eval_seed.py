#!/usr/bin/env python3
"""Confirms a seeded change delivered by a sub-agent and runs the checks against it.

usage: tools/eval_seed.py <worktree> <sub> <property> [extra check ids...]   e.g. tools/eval_seed.py /tmp/wt-C07 a C07

1. in the scratch worktree: patch applies, builds, the existing suite passes with it, the demonstration fails with it
   and passes without it (the demo is placed according to its package clause);
2. against /repo: applies the patch (tools/with_patch.sh), runs ./check <property> quick (and the extra ids), restores /repo;
3. stores patch.diff, the demonstration, notes and meta.json under /verif/seeded/<property>-<sub>/.
"""
import json, os, re, shutil, subprocess, sys, time

ENV = dict(os.environ, GOFLAGS='-mod=mod', GOPROXY='off', GOSUMDB='off', GOTOOLCHAIN='local', VERIF_NO_EVIDENCE='1')

def run(cmd, cwd=None, timeout=1800):
    try:
        p = subprocess.run(cmd, cwd=cwd, env=ENV, shell=isinstance(cmd, str), capture_output=True, text=True, errors='replace', timeout=timeout)
        return p.returncode, p.stdout + p.stderr
    except subprocess.TimeoutExpired as e:
        return 124, 'TIMEOUT ' + str(e)

def main():
    wt, sub, prop = sys.argv[1], sys.argv[2], sys.argv[3]
    extra = sys.argv[4:]
    tier = os.environ.get('SEED_TIER', 'quick')
    src = os.path.join(wt, '_seed', sub)
    patch = os.path.join(src, 'patch.diff')
    demos = [f for f in os.listdir(src) if f.endswith('.go')]
    assert os.path.exists(patch) and demos, 'missing deliverables in ' + src
    demo = os.path.join(src, demos[0])
    text = open(demo).read()
    m = re.search(r'^package\s+(\w+)', text, re.M)
    pkg = m.group(1)
    tags = '-tags verif' if 'verif' in text and ('VerifSetHook' in text or 'tags verif' in text) else ''
    race = '-race' if '-race' in text[:3000] else ''
    sub_dir = {'queryparser': 'internal/queryparser', 'queryparser_test': 'internal/queryparser', 'driver': 'driver', 'driver_test': 'driver',
               'convert': 'internal/convert', 'convert_test': 'internal/convert', 'main': 'cmd/updog', 'main_test': 'cmd/updog'}.get(pkg, '.')
    meta = {'property': prop, 'seed': sub, 'demo_package_dir': sub_dir, 'steps': []}
    def step(name, rc, out, expect_zero):
        ok = (rc == 0) == expect_zero
        meta['steps'].append({'step': name, 'exit': rc, 'as_expected': ok, 'output_tail': out[-600:]})
        print(('ok   ' if ok else 'BAD  ') + name, 'exit', rc)
        return ok
    run('git checkout -q -- . && git clean -fdq -e _seed', cwd=wt)
    rc, out = run(['git', 'apply', '--check', patch], cwd=wt)
    good = step('patch applies to the pinned tree', rc, out, True)
    rc, out = run(['git', 'apply', patch], cwd=wt)
    rc, out = run('go build ./... && go build -tags verif ./...', cwd=wt)
    good &= step('builds with the change (plain and -tags verif)', rc, out, True)
    rc, out = run('timeout 600 go test -vet=off -count=1 ./...', cwd=wt)
    good &= step('existing suite passes with the change', rc, out, True)
    dst = os.path.join(wt, sub_dir, 'zz_seed_demo_test.go')
    shutil.copy(demo, dst)
    democmd = f'timeout 900 go test {tags} {race} -vet=off -count=1 -run "Seed|seed|Demo|Mutant" ./{sub_dir}'
    rc, out = run(democmd, cwd=wt)
    if 'no tests to run' in out:
        democmd = f'timeout 900 go test {tags} {race} -vet=off -count=1 ./{sub_dir}'
        rc, out = run(democmd, cwd=wt)
    good &= step('demonstration FAILS with the change', rc, out, False)
    run(['git', 'apply', '-R', patch], cwd=wt)
    rc, out = run(democmd, cwd=wt)
    good &= step('demonstration PASSES without the change', rc, out, True)
    os.remove(dst)
    run('git checkout -q -- . && git clean -fdq -e _seed', cwd=wt)
    meta['demo_command'] = democmd
    meta['confirmed'] = bool(good)
    # the checks
    meta['checks'] = {}
    for cid in [prop] + extra:
        t0 = time.time()
        slot = os.environ.get('EVAL_SLOT')
        if slot:
            # a scratch worktree of /repo's HEAD with its own build directory: several evaluations can run side by side
            wtree, bdir = f'/tmp/evalslots/repo{slot}', f'/verif/.build-slot{slot}'
            if not os.path.isdir(wtree):
                os.makedirs('/tmp/evalslots', exist_ok=True)
                run(['git', '-C', '/repo', 'worktree', 'add', '-q', '--detach', wtree, 'HEAD'])
            run('git checkout -q --detach $(git -C /repo rev-parse HEAD) && git checkout -q -- . && git clean -fdq', cwd=wtree)
            rc, out = run(['git', 'apply', patch], cwd=wtree)
            if rc == 0:
                env2 = dict(ENV, VERIF_REPO=wtree, VERIF_BUILD=bdir)
                try:
                    p = subprocess.run(['/verif/check', cid, tier], env=env2, capture_output=True, text=True, errors='replace', timeout=7200)
                    rc, out = p.returncode, p.stdout + p.stderr
                except subprocess.TimeoutExpired as e:
                    rc, out = 124, 'TIMEOUT ' + str(e)
            run('git checkout -q -- . && git clean -fdq', cwd=wtree)
        else:
            rc, out = run(['/verif/tools/with_patch.sh', patch, '/verif/check', cid, tier], timeout=7200)
        kinds = {}
        for l in out.splitlines():
            mm = re.match(r'violation (\S+) case=(\S+) kind=(\S+)', l)
            if mm:
                kinds[mm.group(3)] = kinds.get(mm.group(3), 0) + 1
        res = [l for l in out.splitlines() if l.startswith('RESULT')]
        meta['checks'][cid] = {'tier': tier, 'exit': rc, 'caught': rc == 1, 'violation_kinds': kinds, 'result': res[-1] if res else '', 'wall_s': round(time.time() - t0, 1),
                               'inconclusive': [l for l in out.splitlines() if l.startswith('INCONCLUSIVE')][:3]}
        print(('CAUGHT ' if rc == 1 else 'MISSED ') + cid, tier, kinds, res[-1][:120] if res else out[-300:])
    if not os.environ.get('EVAL_SLOT'):
        rc, out = run('git status --porcelain', cwd='/repo')
        assert out.strip() == '', '/repo not clean after checks: ' + out
    d = os.path.join('/verif/seeded', f'{prop}-{os.environ.get("SEED_PREFIX","")}{sub}')
    os.makedirs(d, exist_ok=True)
    shutil.copy(patch, os.path.join(d, 'patch.diff'))
    shutil.copy(demo, os.path.join(d, os.path.basename(demo)))
    notes = os.path.join(src, 'notes.txt')
    if os.path.exists(notes):
        shutil.copy(notes, os.path.join(d, 'notes.txt'))
        meta['needs_to_manifest'] = open(notes).read()[:1500]
    old = os.path.join(d, 'meta.json')
    if os.path.exists(old):
        prev = json.load(open(old))
        prev_checks = prev.get('checks', {})
        for k, v in prev_checks.items():
            meta['checks'].setdefault(k + '@previous', v)
    json.dump(meta, open(old, 'w'), indent=1)
    if not os.environ.get('EVAL_SLOT'):
        find = subprocess.run('find /verif/replays -type f -delete', shell=True)

main()
