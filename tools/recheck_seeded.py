#!/usr/bin/env python3
"""Re-runs the quick check of every seeded change (and of every fix reverse patch) against the current harness.
usage: tools/recheck_seeded.py [prefix]      writes seeded/RECHECK.json and prints one line per change"""
import json, glob, os, re, subprocess, sys, time
os.chdir('/verif')
prefix = sys.argv[1] if len(sys.argv) > 1 else ''
REGRESS = {'c6da5e0':'C02','ed37301':'C03','bc2c2ae':'C04','ca9c2c9':'C07','3f41bb6':'C06','bcedf17':'C08','70830e7':'C09','69c6f4d':'C09','5338602':'C09','296d4f4':'C11',
           '7e5762b':'C12','4f87c3f':'C14','065f673':'C15','e70172f':'C15','eee16f5':'C17','43726c7':'C17','493b804':'C19','7c4d93a':'C15','677d4ab':'C06'}
# changes whose defect is a concurrency defect filed under a sequential property: judged by the neighbouring check
OTHER = {'C02-r2a':'C04','C11-r2b':'C17','C12-r2a':'C17','C02-r4b':'C03','C08-r4b':'C11','C01-r5a':'C04','C04-r5b':'C13'}
jobs = []
DONE = set(os.environ.get('RECHECK_SKIP','').split(','))
for d in sorted(glob.glob('seeded/C*-*')):
    k = os.path.basename(d)
    if not k.startswith(prefix): continue
    prop = json.load(open(d+'/meta.json'))['property']
    if k not in DONE: jobs.append((k, d+'/patch.diff', OTHER.get(k, prop)))
for f in sorted(glob.glob('seeded/regress/revert-*.diff')):
    c = re.search(r'revert-(\w+)\.diff', f).group(1)
    if ('regress-'+c).startswith(prefix) or prefix == '':
        jobs.append(('regress-'+c, f, REGRESS[c]))
out = {}
for k, patch, cid in jobs:
    t0 = time.time()
    p = subprocess.run(['tools/with_patch.sh', patch, './check', cid, 'quick'], capture_output=True, text=True, timeout=3600, env=dict(os.environ, VERIF_NO_EVIDENCE='1'))
    txt = p.stdout + p.stderr
    kinds = {}
    for l in txt.splitlines():
        m = re.match(r'violation (\S+) case=(\S+) kind=(\S+)', l)
        if m: kinds[m.group(3)] = kinds.get(m.group(3), 0) + 1
    out[k] = {'check': cid, 'exit': p.returncode, 'caught': p.returncode == 1, 'kinds': kinds, 'wall_s': round(time.time()-t0, 1)}
    print(('CAUGHT ' if p.returncode == 1 else 'MISSED ') + k, cid, kinds, out[k]['wall_s'], flush=True)
    subprocess.run('find /verif/replays -type f -delete', shell=True)
    st = subprocess.run(['git', '-C', '/repo', 'status', '--porcelain'], capture_output=True, text=True).stdout.strip()
    assert st == '', '/repo dirty: ' + st
json.dump({'harness_commit': subprocess.run(['git','rev-parse','--short','HEAD'],capture_output=True,text=True).stdout.strip(), 'results': out}, open('seeded/RECHECK.json','w'), indent=1)
missed = [k for k, v in out.items() if not v['caught']]
print('missed:', missed)
