#!/usr/bin/env python3
"""Re-runs the quick check of every seeded change (and of every fix reverse patch) against the current harness, several
at a time: every worker has its own scratch worktree of /repo's HEAD (under /tmp/recheckslots) and its own build
directory, /repo itself is not touched.
usage: tools/recheck_par.py [-j N] [prefix]      writes seeded/RECHECK.json and prints one line per change"""
import json, glob, os, re, subprocess, sys, time, threading, queue

ROOT = os.path.dirname(os.path.dirname(os.path.abspath(__file__)))
os.chdir(ROOT)
args = sys.argv[1:]
nj = 4
if args and args[0] == '-j':
    nj = int(args[1]); args = args[2:]
prefix = args[0] if args else ''
REGRESS = {'c6da5e0':'C02','ed37301':'C03','bc2c2ae':'C04','ca9c2c9':'C07','3f41bb6':'C06','bcedf17':'C08','70830e7':'C09','69c6f4d':'C09','5338602':'C09','296d4f4':'C11',
           '7e5762b':'C12','4f87c3f':'C14','065f673':'C15','e70172f':'C15','eee16f5':'C17','43726c7':'C17','493b804':'C19','7c4d93a':'C15','677d4ab':'C06'}
# changes whose defect is a concurrency defect filed under a sequential property: judged by the neighbouring check
OTHER = {'C02-r2a':'C04','C11-r2b':'C17','C12-r2a':'C17','C02-r4b':'C03','C08-r4b':'C11','C01-r5a':'C04','C04-r5b':'C13','C04-r8b':'C17','C06-r8b':'C17','C08-r8b':'C11'}
jobs = queue.Queue()
n = 0
for d in sorted(glob.glob('seeded/C*-*')):
    k = os.path.basename(d)
    if not k.startswith(prefix): continue
    meta = json.load(open(d+'/meta.json'))
    prop = meta['property']
    if meta.get('obsolete'):
        print('OBSOLETE ' + k + ': ' + meta['obsolete'][:120], flush=True)
        continue
    jobs.put((k, os.path.abspath(d+'/patch.diff'), OTHER.get(k, prop), False)); n += 1
for f in sorted(glob.glob('seeded/regress/revert-*.diff')):
    c = re.search(r'revert-(\w+)\.diff', f).group(1)
    if ('regress-'+c).startswith(prefix) or prefix == '':
        jobs.put(('regress-'+c, os.path.abspath(f), REGRESS[c], True)); n += 1
ENV = dict(os.environ, GOFLAGS='-mod=mod', GOPROXY='off', GOSUMDB='off', GOTOOLCHAIN='local', VERIF_NO_EVIDENCE='1')
out, lock = {}, threading.Lock()
HEAD = subprocess.run(['git', '-C', '/repo', 'rev-parse', 'HEAD'], capture_output=True, text=True).stdout.strip()

def sh(cmd, cwd):
    return subprocess.run(cmd, cwd=cwd, shell=True, capture_output=True, text=True, env=ENV)

def worker(slot):
    wt = f'/tmp/recheckslots/repo{slot}'
    if not os.path.isdir(wt):
        os.makedirs('/tmp/recheckslots', exist_ok=True)
        subprocess.run(['git', '-C', '/repo', 'worktree', 'add', '-q', '--detach', wt, HEAD], capture_output=True)
    while True:
        try:
            k, patch, cid, _ = jobs.get_nowait()
        except queue.Empty:
            return
        t0 = time.time()
        sh(f'git checkout -q --detach {HEAD} && git checkout -q -- . && git clean -fdq', wt)
        ap = sh(f'git apply {patch} || git apply --3way {patch}', wt)
        sh('git reset -q', wt)
        if sh('git status --porcelain', wt).stdout.strip() == '':
            with lock:
                out[k] = {'check': cid, 'exit': 3, 'caught': False, 'kinds': {}, 'note': 'patch does not apply: ' + ap.stderr[-200:]}
                print('NOAPPLY ' + k, flush=True)
            continue
        try:
            p = subprocess.run(['./check', cid, 'quick'], capture_output=True, text=True, errors='replace', timeout=5400,
                               env=dict(ENV, VERIF_REPO=wt, VERIF_BUILD=os.path.join(ROOT, f'.build-slot{slot}')))
            rc, txt = p.returncode, p.stdout + p.stderr
        except subprocess.TimeoutExpired as e:
            rc, txt = 124, 'TIMEOUT'
        kinds = {}
        for l in txt.splitlines():
            m = re.match(r'violation (\S+) case=(\S+) kind=(\S+)', l)
            if m: kinds[m.group(3)] = kinds.get(m.group(3), 0) + 1
        with lock:
            out[k] = {'check': cid, 'exit': rc, 'caught': rc == 1, 'kinds': kinds, 'wall_s': round(time.time()-t0, 1)}
            print(('CAUGHT ' if rc == 1 else 'MISSED ') + k, cid, kinds, out[k]['wall_s'], flush=True)
        sh('git checkout -q -- . && git clean -fdq', wt)

ts = [threading.Thread(target=worker, args=(i+1,)) for i in range(nj)]
for t in ts: t.start()
for t in ts: t.join()
for i in range(nj):
    subprocess.run(['git', '-C', '/repo', 'worktree', 'remove', '--force', f'/tmp/recheckslots/repo{i+1}'], capture_output=True)
json.dump({'harness_commit': subprocess.run(['git','rev-parse','--short','HEAD'],capture_output=True,text=True).stdout.strip(), 'repo_head': HEAD[:7],
           'results': dict(sorted(out.items()))}, open('seeded/RECHECK.json','w'), indent=1)
missed = sorted(k for k, v in out.items() if not v['caught'])
print('jobs:', n, 'missed:', missed)
