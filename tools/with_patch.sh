#!/bin/bash
# usage: tools/with_patch.sh <patch-file | revert:<commit>> <command...>
# Applies a change to /repo's working tree, runs the command, and restores /repo.
set -u
P="$1"; shift
case "$P" in revert:*) ;; /*) ;; *) P="$PWD/$P" ;; esac
cd /repo || exit 3
if [ -n "$(git status --porcelain)" ]; then echo "/repo not clean" >&2; exit 3; fi
restore() { git -C /repo reset -q --hard HEAD; git -C /repo clean -fdq; }
trap restore EXIT
case "$P" in
  revert:*) git revert --no-commit "${P#revert:}" >/dev/null 2>&1 || { echo "revert failed" >&2; git revert --abort 2>/dev/null; exit 3; }; git reset -q ;; 
  *) if ! git apply "$P" 2>/dev/null; then
       git apply --3way "$P" >/dev/null 2>&1
       if [ -n "$(git diff --name-only --diff-filter=U)" ] || [ -z "$(git status --porcelain)" ]; then
         git reset -q --hard HEAD; echo "patch does not apply" >&2; exit 3
       fi
       git reset -q
     fi ;;
esac
cd /verif
"$@"
rc=$?
exit $rc
