// Package ix builds and opens updog indexes for the checks: the three writer
// paths and the open configurations of the properties' configuration matrix.
package ix

import (
	"fmt"
	"os"
	"path/filepath"
	"strings"
	"sync/atomic"
	"time"

	"github.com/akrennmair/updog"
	"github.com/akrennmair/updog/verifharness/mon"
	"github.com/akrennmair/updog/verifharness/oracle"
	"go.etcd.io/bbolt"
)

const (
	WriterMemFile = "mem-file" // IndexWriter.Flush
	WriterMemBolt = "mem-bolt" // IndexWriter.WriteToBoltDatabase into a caller-opened DB
	WriterBig     = "big"      // BigIndexWriter
)

var Writers = []string{WriterMemFile, WriterMemBolt, WriterBig}

// Build writes rows through the named writer to path. It checks that AddRow
// returns ids 0,1,2,... and returns the ids' verdict as error text.
// rowArg returns the map handed to AddRow for row i: the first half of the rows are passed as they are, the second
// half through ONE scratch map that is cleared and refilled for every call (a caller may legitimately reuse its map
// once AddRow has returned).
func rowArg(scratch map[string]string, rows []oracle.Row, i int) map[string]string {
	if i < len(rows)/2 {
		return rows[i]
	}
	for k := range scratch {
		delete(scratch, k)
	}
	for k, v := range rows[i] {
		scratch[k] = v
	}
	return scratch
}

// Build writes the rows through the named writer. Bounded progress: a writer call that does not return is judged every
// two minutes by the goroutine dump; once the dump shows goroutines parked inside updog/bbolt code and none executing
// there, Build gives up and returns an error naming where they are parked (the stuck goroutine is left behind). A writer
// that is merely slow is waited for.
func Build(writer, path string, rows []oracle.Row) error {
	done := make(chan error, 1)
	go func() { done <- build(writer, path, rows) }()
	for {
		select {
		case err := <-done:
			return err
		case <-time.After(2 * time.Minute):
			dump := strings.Join(mon.Stacks("updog"), "\n\n")
			if c := mon.ClassifyDump(dump); c != "" {
				if len(dump) > 4000 {
					dump = dump[:4000]
				}
				return fmt.Errorf("the %s writer did not return (AddRow/Flush/Close of %d rows): %s\n%s", writer, len(rows), c, dump)
			}
		}
	}
}

func build(writer, path string, rows []oracle.Row) error {
	scratch := map[string]string{}
	switch writer {
	case WriterMemFile, WriterMemBolt:
		w := updog.NewIndexWriter(path)
		for i := range rows {
			id, err := w.AddRow(rowArg(scratch, rows, i))
			if err != nil {
				return fmt.Errorf("AddRow %d: %w", i, err)
			}
			if int(id) != i {
				return fmt.Errorf("AddRow call %d returned id %d", i, id)
			}
		}
		if writer == WriterMemFile {
			return w.Flush()
		}
		db, err := bbolt.Open(path, 0o644, &bbolt.Options{Timeout: 30 * time.Second})
		if err != nil {
			return err
		}
		if err := w.WriteToBoltDatabase(db); err != nil {
			db.Close()
			return err
		}
		return db.Close()
	case WriterBig:
		db, err := bbolt.Open(path, 0o644, &bbolt.Options{Timeout: 30 * time.Second})
		if err != nil {
			return err
		}
		defer db.Close()
		tmp := path + ".tmpdb"
		tdb, err := bbolt.Open(tmp, 0o600, &bbolt.Options{Timeout: 30 * time.Second, NoSync: true})
		if err != nil {
			return err
		}
		defer func() {
			tdb.Close()
			os.Remove(tmp)
		}()
		w, err := updog.NewBigIndexWriter(db, tdb)
		if err != nil {
			return err
		}
		for i := range rows {
			id, err := w.AddRow(rowArg(scratch, rows, i))
			if err != nil {
				_ = w.Close()
				return fmt.Errorf("AddRow %d: %w", i, err)
			}
			if int(id) != i {
				_ = w.Close()
				return fmt.Errorf("AddRow call %d returned id %d", i, id)
			}
		}
		return w.Flush()
	}
	return fmt.Errorf("unknown writer %q", writer)
}

// BuildAll builds the dataset through all writers into dir and returns the
// paths by writer name.
func BuildAll(dir, stem string, rows []oracle.Row) (map[string]string, error) {
	out := map[string]string{}
	for _, w := range Writers {
		p := filepath.Join(dir, stem+"."+w+".updog")
		if err := Build(w, p, rows); err != nil {
			return nil, fmt.Errorf("%s: %w", w, err)
		}
		out[w] = p
	}
	return out, nil
}

// Open modes.
const (
	OpenOnDemand  = "ondemand"
	OpenPreloaded = "preloaded"
)

var OpenModes = []string{OpenOnDemand, OpenPreloaded}

// Counter is a CounterMetric for cache statistics.
type Counter struct{ N int64 }

func (c *Counter) Inc() { atomic.AddInt64(&c.N, 1) }

// Open opens path with the given mode and an optional cache.
func Open(path, mode string, cache updog.Cache) (*updog.Index, error) {
	var opts []updog.IndexOption
	if mode == OpenPreloaded {
		opts = append(opts, updog.WithPreloadedData())
	}
	if cache != nil {
		opts = append(opts, updog.WithCache(cache))
	}
	return updog.OpenIndex(path, opts...)
}

// OpenViaBolt opens the index through OpenIndexFromBoltDatabase.
func OpenViaBolt(path, mode string, cache updog.Cache) (*updog.Index, error) {
	db, err := bbolt.Open(path, 0o644, &bbolt.Options{ReadOnly: true, Timeout: 30 * time.Second})
	if err != nil {
		return nil, err
	}
	var opts []updog.IndexOption
	if mode == OpenPreloaded {
		opts = append(opts, updog.WithPreloadedData())
	}
	if cache != nil {
		opts = append(opts, updog.WithCache(cache))
	}
	return updog.OpenIndexFromBoltDatabase(db, opts...)
}

// Exec runs a query built from the oracle expression.
func Exec(idx *updog.Index, e *oracle.Expr, groupBy []string) (*updog.Result, error) {
	var gb []string
	if groupBy != nil {
		gb = append([]string{}, groupBy...)
	}
	return idx.Execute(&updog.Query{Expr: e.ToUpdog(), GroupBy: gb})
}

func CopyFile(src, dst string) error {
	b, err := os.ReadFile(src)
	if err != nil {
		return err
	}
	return os.WriteFile(dst, b, 0o644)
}
