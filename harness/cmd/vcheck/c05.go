package main

import (
	"bytes"
	"fmt"
	"math/rand"
	"os"
	"path/filepath"
	"runtime"
	"strings"
	"time"

	"github.com/RoaringBitmap/roaring"
	"github.com/akrennmair/updog"
	"github.com/akrennmair/updog/verifharness/gen"
	"github.com/akrennmair/updog/verifharness/ix"
	"github.com/akrennmair/updog/verifharness/oracle"
	"github.com/akrennmair/updog/verifharness/vf"
	"go.etcd.io/bbolt"
)

func init() { register("C05", "exploration", runC05) }

// boundaryDataset builds rows with a unique-per-row column and extra columns so
// that the total number of distinct (column,value) pairs is exactly vTotal.
func boundaryDataset(id string, rows, vTotal int) *gen.Dataset {
	ds := &gen.Dataset{ID: id, Unique: "uniq"}
	extra := vTotal - rows
	if extra < 0 {
		extra = 0
	}
	// spread the extra distinct values over columns k0,k1,... each with at most `rows` values
	var cards []int
	for extra > 0 {
		c := extra
		if c > rows {
			c = rows
		}
		if c == 0 {
			break
		}
		cards = append(cards, c)
		extra -= c
	}
	for i := 0; i < rows; i++ {
		r := oracle.Row{"uniq": fmt.Sprintf("u%07d", i)}
		for k, c := range cards {
			r[fmt.Sprintf("k%d", k)] = fmt.Sprintf("v%d", i%c)
		}
		ds.Rows = append(ds.Rows, r)
	}
	ds.Index()
	return ds
}

type rawIndex struct {
	nextRow []byte
	bitmaps map[string]*roaring.Bitmap
	checkOK bool
	err     error
}

// readRaw decodes the data bucket (structural monitor at a quiescent point) and
// runs bbolt's page-level consistency check.
func readRaw(path string) rawIndex {
	out := rawIndex{bitmaps: map[string]*roaring.Bitmap{}}
	db, err := bbolt.Open(path, 0o644, &bbolt.Options{ReadOnly: true, Timeout: 10 * time.Second})
	if err != nil {
		out.err = err
		return out
	}
	defer db.Close()
	out.err = db.View(func(tx *bbolt.Tx) error {
		out.checkOK = true
		for e := range tx.Check() {
			if e != nil {
				out.checkOK = false
				return fmt.Errorf("bbolt consistency check: %w", e)
			}
		}
		b := tx.Bucket([]byte("data"))
		if b == nil {
			return fmt.Errorf("no data bucket")
		}
		out.nextRow = append([]byte{}, b.Get([]byte("I"))...)
		c := b.Cursor()
		for k, v := c.Seek([]byte("V")); k != nil && bytes.HasPrefix(k, []byte("V")); k, v = c.Next() {
			bm := roaring.New()
			if _, err := bm.FromBuffer(append([]byte{}, v...)); err != nil {
				return fmt.Errorf("bitmap %x undecodable: %w", k, err)
			}
			out.bitmaps[string(k)] = bm
		}
		return nil
	})
	return out
}

func compareRaw(a, b rawIndex) string {
	if a.err != nil || b.err != nil {
		return fmt.Sprintf("raw read failed: %v / %v", a.err, b.err)
	}
	if !bytes.Equal(a.nextRow, b.nextRow) {
		return fmt.Sprintf("row counters differ: %x vs %x", a.nextRow, b.nextRow)
	}
	if len(a.bitmaps) != len(b.bitmaps) {
		return fmt.Sprintf("%d vs %d stored bitmaps", len(a.bitmaps), len(b.bitmaps))
	}
	for k, bm := range a.bitmaps {
		o, ok := b.bitmaps[k]
		if !ok {
			return fmt.Sprintf("bitmap key %x only in one output", k)
		}
		if !bm.Equals(o) {
			return fmt.Sprintf("bitmap %x differs: cardinalities %d vs %d", k, bm.GetCardinality(), o.GetCardinality())
		}
	}
	return ""
}

type probe struct {
	id string
	e  *oracle.Expr
	gb []string
	a  oracle.Answer
}

// probeSet is the "observationally identical" probe set of C05/C06/C18/C19.
func probeSet(rng *rand.Rand, ds *gen.Dataset, maxValueProbes, maxMemberProbes int) []probe {
	var ps []probe
	add := func(id string, e *oracle.Expr, gb []string) {
		ps = append(ps, probe{id, e, gb, oracle.Eval(ds.Rows, ds.Cols, e, gb)})
	}
	cols := ds.ColNames()
	if len(cols) == 0 {
		add("unknown", oracle.Eq("nosuch", "x"), nil)
		return ps
	}
	type cv struct{ c, v string }
	var all []cv
	for _, c := range cols {
		for _, v := range ds.Vals[c] {
			all = append(all, cv{c, v})
		}
	}
	rng.Shuffle(len(all), func(i, j int) { all[i], all[j] = all[j], all[i] })
	for i, x := range all {
		if i >= maxValueProbes {
			break
		}
		add(fmt.Sprintf("val%d", i), oracle.Eq(x.c, x.v), nil)
	}
	l := oracle.Eq(cols[0], ds.Vals[cols[0]][0])
	universe := oracle.Or(l, oracle.Not(l))
	add("universe", universe, nil)
	for i, c := range cols {
		if i < 4 {
			add(fmt.Sprintf("not%d", i), oracle.Not(oracle.Eq(c, ds.Vals[c][rng.Intn(len(ds.Vals[c]))])), nil)
		}
	}
	if ds.Unique != "" && ds.Cols[ds.Unique] && len(ds.Rows) <= 20000 {
		add("all-by-unique", universe, []string{ds.Unique})
		n := 0
		for _, x := range all {
			if x.c == ds.Unique {
				continue
			}
			if n >= maxMemberProbes {
				break
			}
			n++
			add(fmt.Sprintf("member%d", n), oracle.Eq(x.c, x.v), []string{ds.Unique})
		}
	}
	for i, c := range cols {
		if i < 3 && len(ds.Vals[c]) <= 3000 {
			add(fmt.Sprintf("groupby%d", i), universe, []string{c})
		}
	}
	return ps
}

func runProbes(idx *updog.Index, ps []probe) (string, string) {
	for _, p := range ps {
		res, err := ix.Exec(idx, p.e, p.gb)
		if diff := oracle.CompareResult(res, err, p.a, p.gb); diff != "" {
			return p.id, fmt.Sprintf("probe %s (%s ; %q): %s", p.id, p.e.String(), p.gb, diff)
		}
	}
	return "", ""
}

func runC05(r *vf.Run) {
	r.Rule("one evaluation = one probe (schema comparison, per-value count, universe size, NOT, exact row membership through group-by on the unique column) answered by an index " +
		"after a write/open/close/reopen history, compared with the row oracle; plus, per dataset, bitmap-by-bitmap equality of the three writers' outputs and bbolt's page consistency check; " +
		"distinct_nontrivial = distinct (dataset, writer, history step, probe) combinations")
	r.Assume("64-bit hash collisions do not occur", "unique-per-row column only for datasets of <= 20000 rows")
	type c5 struct {
		id      string
		ds      func(rng *rand.Rand) *gen.Dataset
		crafted bool
	}
	var cases []c5
	// crafted boundary datasets: rows x total distinct values on both sides of the batch sizes
	for _, rv := range [][2]int{{1, 1}, {999, 1000}, {999, 1001}, {990, 1000}, {1000, 1999}, {1000, 2000}, {1001, 2001}, {1001, 2999}, {1500, 3000}, {1002, 3001}, {2000, 2001}, {2001, 2002}, {1999, 4000}, {2002, 5001}, {3001, 3002}} {
		rv := rv
		cases = append(cases, c5{id: fmt.Sprintf("bnd-r%d-v%d", rv[0], rv[1]), crafted: true, ds: func(*rand.Rand) *gen.Dataset {
			return boundaryDataset(fmt.Sprintf("bnd-r%d-v%d", rv[0], rv[1]), rv[0], rv[1])
		}})
	}
	cases = append(cases, c5{id: "empty", crafted: true, ds: func(*rand.Rand) *gen.Dataset { d := &gen.Dataset{ID: "empty"}; d.Index(); return d }})
	cases = append(cases, c5{id: "only-empty-rows", crafted: true, ds: func(*rand.Rand) *gen.Dataset {
		d := &gen.Dataset{ID: "only-empty-rows", Rows: []oracle.Row{{}, {}, {}}}
		d.Index()
		return d
	}})
	cases = append(cases, c5{id: "r70000", crafted: true, ds: func(rng *rand.Rand) *gen.Dataset {
		return gen.MakeDataset(rng, "r70000", gen.DatasetOpts{Rows: 70000, MaxCols: 3, EmptyRows: true, TrailingEmpty: 2, MaxCard: 1500})
	}})
	cases = append(cases, c5{id: "dense150k", crafted: true, ds: func(rng *rand.Rand) *gen.Dataset {
		// several MiB of serialised bitmaps in few values (no unique column)
		return gen.Dense(rng, 150000, 6, 64)
	}})
	cases = append(cases, c5{id: "wide-rows", crafted: true, ds: func(rng *rand.Rand) *gen.Dataset { return gen.WideRows(rng) }})
	cases = append(cases, c5{id: "u70000", crafted: true, ds: func(rng *rand.Rand) *gen.Dataset {
		// more than 65535 distinct values in one column
		return gen.MakeDataset(rng, "u70000", gen.DatasetOpts{Rows: 70000, MaxCols: 1, Shapes: []gen.ValueShape{gen.ShapeUnique}, NoMissing: true})
	}})
	cases = append(cases, c5{id: "long-shared-prefixes", crafted: true, ds: func(rng *rand.Rand) *gen.Dataset {
		// values of one column that share 200 .. 70000 leading bytes with their neighbours in sort order, and column names
		// doing the same: whatever stores strings relative to each other meets its length limits here
		d := &gen.Dataset{ID: "long-shared-prefixes"}
		for i, n := range []int{200, 254, 255, 256, 257, 300, 1000, 4096, 65535, 65536, 70000} {
			p := strings.Repeat(string(rune('a'+i)), n)
			for k := 0; k < 3; k++ {
				row := oracle.Row{"v": p + fmt.Sprintf("-%d", k), "w": fmt.Sprint(k)}
				if n <= 1000 {
					row[strings.Repeat("c", n)+fmt.Sprint(k%2)] = "x"
				}
				d.Rows = append(d.Rows, row, oracle.Row{"v": p + fmt.Sprintf("-%d", k)})
			}
			d.Rows = append(d.Rows, oracle.Row{"v": p})
		}
		d.Index()
		return d
	}})
	cases = append(cases, c5{id: "exact-row-counts", crafted: true, ds: func(rng *rand.Rand) *gen.Dataset {
		// values whose row counts are exact multiples of 4096 and 65536 (and one more / one less), interleaved with rare ones
		d := &gen.Dataset{ID: "exact-row-counts"}
		add := func(col, val string, n int) {
			for i := 0; i < n; i++ {
				row := oracle.Row{col: val}
				if i%1000 == 7 {
					row["rare"] = fmt.Sprintf("%s-%d", val, i)
				}
				d.Rows = append(d.Rows, row)
			}
		}
		add("h", "n4095", 4095)
		add("h", "n4096", 4096)
		add("h", "n4097", 4097)
		add("h", "n8192", 8192)
		add("g", "n65536", 65536)
		add("g", "n12288", 12288)
		add("h", "n1", 1)
		rng.Shuffle(len(d.Rows), func(i, j int) { d.Rows[i], d.Rows[j] = d.Rows[j], d.Rows[i] })
		d.Index()
		return d
	}})
	cases = append(cases, c5{id: "rows-vs-batches", crafted: true, ds: func(rng *rand.Rand) *gen.Dataset {
		// (round 6) values whose row sets are laid out against the writers' batch geometry (1000 rows per temporary
		// commit, 1000 values per transaction): value k occurs ONCE at row k (k = 1..40) and twice or more in the rows of
		// batch number k; on one row in each of many batches; on the first and on the last row of batches; and only on
		// rows whose id is a multiple of 1000 -- so that whatever a writer keys by batch number, row id or position within
		// a batch meets a value for which two of those numbers coincide.
		d := &gen.Dataset{ID: "rows-vs-batches"}
		n := 42000
		for i := 0; i < n; i++ {
			d.Rows = append(d.Rows, oracle.Row{"u": fmt.Sprint(i)})
		}
		for k := 1; k <= 40; k++ {
			v := fmt.Sprintf("k%d", k)
			d.Rows[k]["single-then-batch"] = v
			for j := 0; j < 2+k%3; j++ {
				d.Rows[1000*k+5+7*j]["single-then-batch"] = v
			}
			d.Rows[1000*k]["first-of-batch"] = fmt.Sprintf("f%d", k%5)
			d.Rows[1000*k+999]["last-of-batch"] = fmt.Sprintf("l%d", k%4)
			d.Rows[1000*k+k]["one-per-batch"] = "same"
			d.Rows[1000*k+(k*37)%1000]["one-per-batch-2"] = fmt.Sprintf("p%d", k%2)
		}
		for i := 0; i < n; i += 1000 {
			d.Rows[i]["multiples-of-1000"] = fmt.Sprint(i / 1000 % 3)
		}
		d.Unique = "u"
		d.Index()
		return d
	}})
	cases = append(cases, c5{id: "every-length", crafted: true, ds: func(rng *rand.Rand) *gen.Dataset {
		// (round 7) for EVERY length 0..320 (and around 4096 and 65536) three sibling values of that length in one column:
		// a common stem, the stem with its last byte changed, and the stem one byte shorter, each on rows of its own; the
		// same under column names of 1, 3 and 8 bytes, so that name + value (+ separator) passes every small size. A key
		// buffer that is one byte short at one particular size merges two siblings.
		d := &gen.Dataset{ID: "every-length"}
		lens := []int{}
		for n := 0; n <= 320; n++ {
			lens = append(lens, n)
		}
		for _, c := range []int{4096, 32768, 65536} {
			for n := c - 12; n <= c+3; n++ {
				lens = append(lens, n)
			}
		}
		for _, col := range []string{"t", "tag", "column_8"} {
			for _, n := range lens {
				stem := strings.Repeat("s", n)
				sibs := []string{stem}
				if n > 0 {
					sibs = append(sibs, stem[:n-1]+"t", stem[:n-1]+"\x00")
				}
				for k, v := range sibs {
					for rep := 0; rep <= k; rep++ {
						d.Rows = append(d.Rows, oracle.Row{col: v, "u": fmt.Sprint(len(d.Rows))})
					}
				}
			}
		}
		d.Unique = "u"
		d.Index()
		return d
	}})
	cases = append(cases, c5{id: "concat", crafted: true, ds: func(rng *rand.Rand) *gen.Dataset {
		return gen.MakeDataset(rng, "concat", gen.DatasetOpts{Rows: 400, Concat: true, WithUnique: true})
	}})
	lrng := r.RNG("case-list")
	for i := 0; i < r.Pick(30, 600); i++ {
		id := fmt.Sprintf("rnd%03d", i)
		var n int
		switch lrng.Intn(4) {
		case 0:
			n = lrng.Intn(50)
		case 1, 2:
			n = 900 + lrng.Intn(2400)
		default:
			n = lrng.Intn(r.Pick(20000, 120000))
		}
		n0 := n
		i0 := i
		cases = append(cases, c5{id: id, ds: func(rng *rand.Rand) *gen.Dataset {
			return gen.MakeDataset(rng, id, gen.DatasetOpts{Rows: n0, MaxCols: 5, HostileCols: i0%3 == 0, HostileVals: i0%2 == 0, EmptyRows: i0%3 != 1, WithUnique: n0 <= 20000, MaxCard: 3500})
		}})
	}
	var ids []string
	byID := map[string]c5{}
	for _, c := range cases {
		ids = append(ids, c.id)
		byID[c.id] = c
	}
	r.ForEach(ids, 12, func(id string) {
		c := byID[id]
		rng := r.RNG("ds/" + id)
		ds := c.ds(rng)
		dir := filepath.Join(r.Scratch, id)
		mustMkdir(dir)
		// ids = call order is checked inside ix.Build for every writer
		paths, err := ix.BuildAll(dir, "ds", ds.Rows)
		if err != nil {
			r.Violation(id, "build", map[string]any{"error": err.Error(), "rows": len(ds.Rows), "specs": specStrings(ds)})
			return
		}
		nvals := 0
		for _, vs := range ds.Vals {
			nvals += len(vs)
		}
		r.Count("datasets", 1)
		r.Count("rows_total", int64(len(ds.Rows)))
		r.Max("distinct_values_in_one_dataset", int64(nvals))
		r.Count("mem_writer_batch_commits_crossed", int64(nvals/1000))
		if len(ds.Rows) > 1000 {
			r.Count("big_writer_temp_commits_crossed", int64((len(ds.Rows)-1)/1000))
		}
		if nvals%1000 <= 1 || nvals%1000 == 999 {
			r.Cover("value_counts_at_batch_boundary", fmt.Sprint(nvals))
		}
		if m := len(ds.Rows) % 1000; len(ds.Rows) >= 999 && (m <= 2 || m == 999) {
			r.Cover("row_counts_at_commit_boundary", fmt.Sprint(len(ds.Rows)))
		}
		ps := probeSet(rng, ds, r.Pick(1500, 6000), r.Pick(40, 200))
		// structural monitor: the three outputs hold the same bitmaps, counter; pages consistent
		raws := map[string]rawIndex{}
		for _, w := range ix.Writers {
			raws[w] = readRaw(paths[w])
			r.Eval(1)
			if raws[w].err != nil {
				r.Violation(id+"/"+w, "raw", map[string]any{"error": raws[w].err.Error(), "rows": len(ds.Rows), "specs": specStrings(ds)})
				return
			}
			if len(raws[w].bitmaps) != nvals {
				r.Violation(id+"/"+w, "raw", map[string]any{"error": fmt.Sprintf("%d stored bitmaps for %d distinct (column,value) pairs", len(raws[w].bitmaps), nvals), "rows": len(ds.Rows), "specs": specStrings(ds)})
			}
		}
		for _, w := range ix.Writers[1:] {
			r.Eval(1)
			if d := compareRaw(raws[ix.Writers[0]], raws[w]); d != "" {
				r.Violation(id+"/"+w, "writers-differ", map[string]any{"difference": d, "compared": ix.Writers[0] + " vs " + w, "rows": len(ds.Rows), "specs": specStrings(ds), "first_rows": witnessRows(ds, 20)})
			}
		}
		// the same PATH used for another index later in the same process: what is opened is what is in the file now
		if r.Want(id+"/path-reused") && len(ds.Rows) > 0 && len(ds.Rows) <= 5000 {
			p := filepath.Join(dir, "reused.updog")
			other := &gen.Dataset{ID: id + "-other", Rows: []oracle.Row{{"zz_other": "1", "k0": "only-here"}, {"zz_other": "2"}}}
			other.Index()
			for round, d2 := range []*gen.Dataset{other, ds, other} {
				os.Remove(p)
				if err := ix.Build(ix.Writers[round%3], p, d2.Rows); err != nil {
					r.Violation(id+"/path-reused", "build", err.Error())
					break
				}
				idx, err := ix.Open(p, ix.OpenModes[round%2], nil)
				if err != nil {
					r.Violation(id+"/path-reused", "open", err.Error())
					break
				}
				d := oracle.CompareSchema(idx.GetSchema(), d2.Rows)
				if d == "" {
					_, d = runProbes(idx, probeSet(rng, d2, 100, 5))
				}
				idx.Close()
				r.Eval(1)
				r.Count("opens_of_a_reused_path", 1)
				if d != "" {
					r.Violation(id+"/path-reused", "probe", map[string]any{"difference": d, "round": round + 1, "explanation": "the file at this path was replaced by another index between the opens (same process)"})
					break
				}
			}
		}
		// (round 8) several indexes on ONE bbolt handle that belongs to the caller (OpenIndexFromBoltDatabase): some are
		// dropped without Close (the handle is the caller's to close), the collector runs, and the handle and the indexes
		// still in use keep working
		if r.Want(id+"/caller-owned-handle") && len(ds.Rows) > 0 && len(ds.Rows) <= 20000 {
			func() {
				p := paths[ix.Writers[(len(ds.Rows)+1)%3]]
				db, err := bbolt.Open(p, 0o644, &bbolt.Options{ReadOnly: true, Timeout: 30 * time.Second})
				if err != nil {
					r.Violation(id+"/caller-owned-handle", "open", err.Error())
					return
				}
				defer db.Close()
				ps := probeSet(rng, ds, 40, 3)
				kept, err := updog.OpenIndexFromBoltDatabase(db)
				if err != nil {
					r.Violation(id+"/caller-owned-handle", "open", err.Error())
					return
				}
				// (round 9) the schema copy GetSchema hands out is the caller's; the next GetSchema shows the data again
				if sc := kept.GetSchema(); sc != nil {
					for ci := range sc.Columns {
						vs := sc.Columns[ci].Values
						for i := range vs {
							vs[i].Value = "overwritten by the caller"
						}
						sc.Columns[ci].Name = "renamed by the caller"
					}
					if d := oracle.CompareSchema(kept.GetSchema(), ds.Rows); d != "" {
						r.Violation(id+"/caller-owned-handle", "schema", map[string]any{"difference": head(d, 600), "explanation": "GetSchema after the caller had overwritten the copy an earlier GetSchema call gave it"})
						return
					}
				}
				for round := 0; round < 3; round++ {
					for k := 0; k < 3; k++ {
						var opts []updog.IndexOption
						if k == 1 {
							opts = append(opts, updog.WithPreloadedData())
						}
						if tmp, err := updog.OpenIndexFromBoltDatabase(db, opts...); err == nil {
							_, _ = runProbes(tmp, ps[:min(3, len(ps))])
						} // dropped, not closed
					}
					runtime.GC()
					time.Sleep(5 * time.Millisecond)
					runtime.GC()
					r.Eval(1)
					d := ""
					if _, d = runProbes(kept, ps); d == "" {
						var again *updog.Index
						if again, err = updog.OpenIndexFromBoltDatabase(db); err != nil {
							d = "OpenIndexFromBoltDatabase on the caller's handle: " + err.Error()
						} else {
							_, d = runProbes(again, ps)
						}
					}
					if d != "" {
						r.Violation(id+"/caller-owned-handle", "probe", map[string]any{"difference": d, "round": round + 1,
							"explanation": "other Index values on the same caller-owned bbolt handle had been dropped without Close and the garbage collector had run"})
						return
					}
				}
				r.Count("caller_owned_handles_shared_by_several_indexes", 1)
			}()
		}
		// (round 7) a second writer is pointed at the finished output by mistake: its Flush fails, and the index that is
		// there keeps opening and answering as before (reopen sequences include the ones around a failed write)
		if r.Want(id+"/second-writer-on-the-output") && len(ds.Rows) > 0 && len(ds.Rows) <= 20000 {
			p := paths[ix.Writers[len(ds.Rows)%3]]
			w2 := updog.NewIndexWriter(p)
			for i := 0; i < 1+len(ds.Rows)%1200; i++ {
				_, _ = w2.AddRow(map[string]string{"intruder": fmt.Sprint(i)})
			}
			ferr := w2.Flush()
			r.Eval(1)
			r.Count("second_writers_flushed_onto_a_finished_output", 1)
			if ferr == nil {
				r.Violation(id+"/second-writer-on-the-output", "probe", map[string]any{"difference": "a second writer's Flush onto the finished output returned no error"})
			} else if idx, err := ix.Open(p, ix.OpenModes[len(ds.Rows)%2], nil); err != nil {
				r.Violation(id+"/second-writer-on-the-output", "reopen", map[string]any{"error": err.Error(), "flush_error_of_the_second_writer": ferr.Error(),
					"explanation": "the index was flushed, opened and closed; then another writer's Flush onto the same path failed; now the index does not open any more"})
			} else {
				d := oracle.CompareSchema(idx.GetSchema(), ds.Rows)
				if d == "" {
					_, d = runProbes(idx, probeSet(rng, ds, 60, 4))
				}
				idx.Close()
				if d != "" {
					r.Violation(id+"/second-writer-on-the-output", "probe", map[string]any{"difference": d, "explanation": "after another writer's failed Flush onto the same path"})
				}
			}
		}
		// one in-memory writer written twice: first after a prefix of the rows, then again after the rest. Both outputs
		// must be complete for what had been added at that time (writing must not consume the writer's contents).
		if len(ds.Rows) >= 2 && r.Want(id+"/written-twice") {
			cut := len(ds.Rows) * 3 / 5
			w := updog.NewIndexWriter(filepath.Join(dir, "unused"))
			addAll := func(from, to int) bool {
				for i := from; i < to; i++ {
					if rid, err := w.AddRow(ds.Rows[i]); err != nil || int(rid) != i {
						r.Violation(id+"/written-twice", "addrow", map[string]any{"call": i, "id": rid, "error": fmt.Sprint(err)})
						return false
					}
				}
				return true
			}
			writeTo := func(p string) error {
				db, err := bbolt.Open(p, 0o644, &bbolt.Options{Timeout: 10 * time.Second})
				if err != nil {
					return err
				}
				defer db.Close()
				return w.WriteToBoltDatabase(db)
			}
			p1, p2 := filepath.Join(dir, "twice-1.updog"), filepath.Join(dir, "twice-2.updog")
			if addAll(0, cut) {
				err1 := writeTo(p1)
				if addAll(cut, len(ds.Rows)) {
					err2 := writeTo(p2)
					for k, pp := range []string{p1, p2} {
						part := &gen.Dataset{ID: id, Rows: ds.Rows[:cut], Unique: ds.Unique}
						if k == 1 {
							part.Rows = ds.Rows
						}
						part.Index()
						hid := fmt.Sprintf("%s/written-twice/%d", id, k+1)
						r.Eval(1)
						r.Count("second_writes_of_one_writer", int64(k))
						if e := []error{err1, err2}[k]; e != nil {
							r.Violation(hid, "write", map[string]any{"error": e.Error()})
							continue
						}
						idx, err := ix.Open(pp, ix.OpenModes[k%2], nil)
						if err != nil {
							r.Violation(hid, "open", map[string]any{"error": err.Error(), "rows": len(part.Rows)})
							continue
						}
						d := oracle.CompareSchema(idx.GetSchema(), part.Rows)
						if d == "" {
							_, d = runProbes(idx, probeSet(rng, part, r.Pick(600, 3000), 30))
						}
						idx.Close()
						if d != "" {
							r.Violation(hid, "probe", map[string]any{"difference": d, "write_number": k + 1, "rows_at_that_time": len(part.Rows), "rows_total": len(ds.Rows), "specs": specStrings(ds)})
						}
					}
				}
			}
		}
		for _, w := range ix.Writers {
			hid := id + "/" + w
			if !r.Want(hid) {
				continue
			}
			rng := r.RNG(hid) // per-history stream
			steps := 1 + rng.Intn(5)
			for s := 0; s < steps; s++ {
				mode := ix.OpenModes[(s+rng.Intn(2))%2]
				var cache updog.Cache
				if rng.Intn(3) == 0 {
					cache = updog.NewLRUCache(uint64(rng.Intn(100000)))
				}
				var idx *updog.Index
				var err error
				viaBolt := rng.Intn(3) == 0
				if viaBolt {
					idx, err = ix.OpenViaBolt(paths[w], mode, cache)
				} else {
					idx, err = ix.Open(paths[w], mode, cache)
				}
				if err != nil {
					r.Violation(hid, "open", map[string]any{"error": err.Error(), "step": s, "mode": mode})
					break
				}
				r.Eval(1)
				if d := oracle.CompareSchema(idx.GetSchema(), ds.Rows); d != "" {
					r.Violation(hid, "schema", map[string]any{"difference": d, "step": s, "mode": mode, "rows": len(ds.Rows), "specs": specStrings(ds), "first_rows": witnessRows(ds, 20)})
					idx.Close()
					break
				}
				use := ps
				if s > 0 && len(ps) > 200 {
					use = ps[:200] // the full set on the first open, a prefix on reopens
				}
				r.Eval(len(use))
				pid, d := runProbes(idx, use)
				cerr := idx.Close()
				if d != "" {
					r.Violation(hid+"/"+pid, "probe", map[string]any{"difference": d, "step": s, "mode": mode, "via_bolt": viaBolt, "cached": cache != nil, "rows": len(ds.Rows), "specs": specStrings(ds), "first_rows": witnessRows(ds, 20)})
					break
				}
				if cerr != nil {
					r.Violation(hid, "close", map[string]any{"error": cerr.Error(), "step": s})
					break
				}
				for _, p := range use {
					r.Distinct(fmt.Sprintf("%s|%d|%s", hid, s, p.id))
				}
				if s > 0 {
					r.Count("reopens", 1)
				}
			}
			r.Count("histories", 1)
			r.Max("history_steps", int64(steps))
		}
		if id == "bnd-r1000-v2000" || id == "rnd001" {
			r.Sample("dataset", map[string]any{"id": id, "rows": len(ds.Rows), "distinct_values": nvals, "probes": len(ps), "specs": specStrings(ds), "first_rows": witnessRows(ds, 3)})
		}
	})
	racePass(r)
	r.Floor("in-memory writer batch boundary (1000 values) crossed", r.GetCount("mem_writer_batch_commits_crossed") > 0)
	r.Floor("big writer temp-commit boundary (1000 rows) crossed", r.GetCount("big_writer_temp_commits_crossed") > 0)
	r.Floor("reopen histories", r.GetCount("reopens") > 0)
}
