package main

import (
	"fmt"
	"path/filepath"

	"github.com/akrennmair/updog/verifharness/ix"
	"github.com/akrennmair/updog/verifharness/oracle"
	"github.com/akrennmair/updog/verifharness/vf"
)

func init() {
	register("C01", "exploration", runC01)
	register("C02", "exploration", runC02)
}

func runC01(r *vf.Run) {
	r.Rule("one evaluation = one (dataset, expression, writer/open configuration) triple whose Execute count/error was compared with the row oracle; " +
		"datasets are generated from the seed (boundary row counts first, then random sizes/shapes/missing columns/empty rows/hostile strings); " +
		"distinct_nontrivial = distinct (dataset, expression shape, node count) with at least one operator")
	r.Assume("64-bit xxhash collisions between distinct (column,value) pairs do not occur", "column names contain no NUL byte (excluded by the property; probed separately as known finding)",
		"expression depth <= 2000 (evaluation is recursive)")
	runDiff(r, false)
	if r.Want("nul-column") {
		r.Guard("nul-column", func() { nulColumnProbe(r) })
	}
	racePass(r)
	r.Floor("all 6 writer/open matrix cells exercised", r.Covered("matrix_cells") == 6)
	r.Floor("datasets at the container boundaries 4096 and 65536", r.HasCover("row_counts_boundary", "4096") && r.HasCover("row_counts_boundary", "65536"))
	r.Floor("NOT over a leaf evaluated", r.GetCount("not_over_leaf_queries") > 0)
	r.Floor("unknown-column queries evaluated", r.GetCount("error_expected_queries") > 0)
}

// nulColumnProbe is the recogniser of the known finding C01/nul-in-column-name:
// exactly this two-row dataset and this query.
func nulColumnProbe(r *vf.Run) {
	rows := []oracle.Row{{"a\x00b": "c"}, {"a": "b\x00c"}}
	dir := filepath.Join(r.Scratch, "nul")
	mustMkdir(dir)
	for _, w := range ix.Writers {
		p := filepath.Join(dir, w+".updog")
		if err := ix.Build(w, p, rows); err != nil {
			r.Violation("nul-column", "build", err.Error())
			return
		}
		idx, err := ix.Open(p, ix.OpenOnDemand, nil)
		if err != nil {
			r.Violation("nul-column", "open", err.Error())
			return
		}
		e := oracle.Eq("a", "b\x00c")
		res, err := ix.Exec(idx, e, nil)
		idx.Close()
		r.Eval(1)
		want := oracle.Eval(rows, oracle.Columns(rows), e, nil)
		if diff := oracle.CompareResult(res, err, want, nil); diff != "" {
			r.KnownFinding("nul-in-column-name", "nul-column", "answer", map[string]any{"writer": w, "rows": witnessRowsRaw(rows), "expr": e.String(), "difference": diff})
		}
	}
}

func witnessRowsRaw(rows []oracle.Row) []string {
	var out []string
	for _, r := range rows {
		out = append(out, fmt.Sprintf("%q", r))
	}
	return out
}

func runC02(r *vf.Run) {
	r.Rule("one evaluation = one (dataset, expression, group-by list, writer/open configuration) whose Groups were compared with the SQL GROUP BY oracle " +
		"(membership, counts, order, per-group column order, strict ordering, no zero counts); distinct_nontrivial = distinct (dataset, expression shape, list length, node count)")
	r.Assume("64-bit xxhash collisions do not occur", "group tuple space capped at ~20000 per query")
	runDiff(r, true)
	racePass(r)
	for ln := 0; ln <= 6; ln++ {
		r.Floor(fmt.Sprintf("group-by list of length %d evaluated", ln), r.HasCover("groupby_lengths", fmt.Sprint(ln)))
	}
	r.Floor("query with >= 4 group-by columns and several sibling groups", r.GetCount("queries_4plus_columns_multiple_groups") > 0)
	r.Floor("group-by with repeated column", r.GetCount("groupby_with_repeated_column") > 0)
	r.Floor("rows lacking a listed column dropped from groups", r.GetCount("queries_with_rows_lacking_a_groupby_column") > 0)
}
