package main

import (
	"encoding/base64"
	"encoding/json"
	"fmt"
	"math/rand"
	"os"
	"path/filepath"
	"strings"
	"sync"
	"sync/atomic"
	"time"

	"github.com/akrennmair/updog/internal/queryparser"
	pb "github.com/akrennmair/updog/proto/updog/v1"
	"github.com/akrennmair/updog/verifharness/gen"
	"github.com/akrennmair/updog/verifharness/mon"
	"github.com/akrennmair/updog/verifharness/oracle"
	"github.com/akrennmair/updog/verifharness/vf"
	"google.golang.org/protobuf/proto"
)

func init() {
	register("C09", "exploration", runC09)
	workers["c09-parse"] = workerC09Parse
	workers["c09-deep"] = workerC09Deep
}

type parseInput struct {
	id    string
	class string
	text  string
}

// parseVerdict runs ParseQuery on one input under recover and compares with the
// reference recogniser. It returns "" or the description of the disagreement.
func parseVerdict(in string) (verdict string, accepted bool) {
	var q *pb.Query
	var err error
	if panicked, msg, stack := vf.Try(func() { q, err = queryparser.ParseQuery(in) }); panicked {
		return "ParseQuery panicked: " + msg + "\n" + head(stack, 3000), false
	}
	want, wantGB, ok := oracle.RefParse(in)
	switch {
	case q != nil && err != nil:
		return "both a query and an error were returned: " + err.Error(), ok
	case q == nil && err == nil:
		return "neither a query nor an error was returned", ok
	case ok && err != nil:
		return "input is a sentence of the grammar but was rejected: " + err.Error(), ok
	case !ok && err == nil:
		got, _ := oracle.FromProto(q.Expr)
		s := "<incomplete tree>"
		if got != nil {
			s = got.String()
		}
		return fmt.Sprintf("input is not a sentence of the grammar but was accepted as %s ; %q", s, q.GroupBy), ok
	case !ok:
		return "", false
	}
	got, complete := oracle.FromProto(q.Expr)
	if !complete {
		return "accepted, but the returned tree has unset members", true
	}
	if !oracle.Equal(want, got) {
		return fmt.Sprintf("tree differs from the one the grammar prescribes: got %s want %s", got.String(), want.String()), true
	}
	if strings.Join(wantGB, "\x00") != strings.Join(q.GroupBy, "\x00") || len(wantGB) != len(q.GroupBy) {
		return fmt.Sprintf("group-by list differs: got %q want %q", q.GroupBy, wantGB), true
	}
	if q.Id != 0 {
		return fmt.Sprintf("parser set a query id %d", q.Id), true
	}
	return "", true
}

func c09Corpus(r *vf.Run) []parseInput {
	var out []parseInput
	add := func(class, text string) {
		out = append(out, parseInput{id: fmt.Sprintf("in%06d", len(out)), class: class, text: text})
	}
	// regression block: the witnesses of the repaired defects and grammar corner cases
	for _, s := range []string{
		`a="1" & b="2" | c="3"`, `a="1" )`, `a="x" "y"`, `a=$1$2`, `a="1" ; b c`, `a="1" "abc`, `a="1" "`, `a=$4294967297`, `a=$2147483648`, `a=$2147483647`,
		`a=$100000000000000000000`, `a=$0`, `a=$`, `a=$1`, `a=$01`, ``, ` `, `a`, `a=`, `a="`, `a=""`, `a=""""`, `a="""`, `^`, `^^a="1"`, `((a="1"))`, `(a="1"`, `a="1")`,
		`a="1" & b="2" & c="3"`, `a="1" | b="2" | c="3"`, `^a="1" & b="2"`, `^(a="1" & b="2")`, `(a="1" & b="2") | c="3"`, `a="1" & (b="2" | c="3")`, `a="1";b`, `a="1";b,c`, `a="1";`, `a="1";b,`, `a="1";,b`,
		`a="1";b;c`, `a = "1" ; b , c`, "a\t=\n\"1\"\r\n", `a="1"&`, `&a="1"`, `a="1"&&b="2"`, `a=="1"`, `a="1"=`, `1a="1"`, `_a="1"`, `a_1="1"`, `é="1"`, `a="é"`, "a=\"\xff\"", "\xff", "a=\"1\"\x00",
		`a="1" ; B9_z`, `a="1" b="2"`, `a="1" ^ b="2"`, `a="1" | ^ b="2"`, `a="1" | ^ ^ ( b="2" )`, `()`, `( )`, `a="1" & ()`, `a=b`, `a='1'`, `a="1" # c`, `aé = "x"`, `a = "x" ; b, cж9`, `a９ = "1"`, `é = "x"`, `a = "x" ; é`, `a="x";bß`, `a = $9999999999`, `a = $4294967298`, `a = $6442450945`, `a = $1410065407`,
	} {
		add("regression", s)
	}
	rng := r.RNG("corpus")
	nSent := r.Pick(40000, 3000000)
	for i := 0; i < nSent; i++ {
		var toks []string
		gen.Sentence(rng, rng.Intn(6), &toks, rng.Intn(3) != 0)
		if rng.Intn(3) == 0 {
			gen.FieldList(rng, &toks)
		}
		kind := "none"
		if rng.Intn(5) != 0 {
			kind = gen.MutationKinds[rng.Intn(len(gen.MutationKinds))]
		}
		add("sentence/"+kind, gen.Mutate(rng, kind, toks))
	}
	nBytes := r.Pick(30000, 2000000)
	for i := 0; i < nBytes; i++ {
		add("bytes", gen.RandomBytes(rng, rng.Intn(14)))
	}
	for _, p := range []string{"0", "1", "2147483647", "2147483648", "4294967297", "100000000000000000000", strings.Repeat("9", 40), "00000000000000000000000000000000000000000000000001", "18446744073709551616", "9223372036854775807", "9223372036854775808"} {
		add("placeholder-number", `a = $`+p)
		add("placeholder-number", `a = $`+p+` & b = $1`)
	}
	for i := 0; i < r.Pick(400, 4000); i++ {
		// random numbers of 1..22 digits: wrap-arounds of narrower integer types show up here
		n := 1 + rng.Intn(22)
		d := make([]byte, n)
		for k := range d {
			d[k] = byte('0' + rng.Intn(10))
		}
		add("placeholder-number", `a = $`+string(d))
	}
	for _, depth := range []int{100, 5000, r.Pick(50000, 200000)} {
		add("nesting", strings.Repeat("^", depth)+`a="1"`)
		add("nesting", strings.Repeat("(", depth)+`a="1"`+strings.Repeat(")", depth))
		add("nesting", strings.Repeat("^(", depth/2)+`a="1" & b="2"`+strings.Repeat(")", depth/2))
		add("nesting", strings.Repeat("(", depth)+`a="1"`+strings.Repeat(")", depth-1)) // unbalanced
		var sb strings.Builder
		for i := 0; i < depth/10; i++ {
			sb.WriteString(`(a="1" & `)
		}
		sb.WriteString(`b="2"`)
		sb.WriteString(strings.Repeat(")", depth/10))
		add("nesting", sb.String())
	}
	// an error early in a long input (the lexer still has thousands of tokens to deliver), and errors at special places
	for _, n := range []int{10, 100, 1000, 20000} {
		add("early-error-long-tail", `) `+strings.Repeat(`a="1" & `, n)+`b="2"`)
		add("early-error-long-tail", `a = = `+strings.Repeat(`"x" `, n))
		add("early-error-long-tail", `a="1" ; `+strings.Repeat(`b, `, n)+`"c"`)
		add("early-error-long-tail", "a=\"l1\nl2\nl3\" &\n\n & "+strings.Repeat(`(b="2") | `, n)+`c="3"`)
	}
	for _, sfx := range []string{"é", "\n", "\"\n\"", "日本", "\xff", " é", "\n\né"} {
		add("error-position", sfx)
		add("error-position", `a="1" `+sfx)
		add("error-position", sfx+` a="1"`)
		add("error-position", "a=\"multi\nline\nvalue\" "+sfx)
	}
	// every short field, and words that other languages reserve, as a column and as a group-by entry
	for i, id := range gen.ShortIdentifiers(r.Thorough()) {
		switch i % 3 {
		case 0:
			add("identifier", id+`="x"`)
		case 1:
			add("identifier", `a="1";`+id)
		default:
			add("identifier", `^ `+id+` = $1 & b = "2" ; `+id+`, a`)
		}
	}
	for _, id := range gen.Keywordish {
		for _, w := range []string{id, strings.ToUpper(id), strings.ToUpper(id[:1]) + id[1:]} {
			add("identifier", w+`="x"`)
			add("identifier", `a="1" ; `+w)
			add("identifier", `( `+w+` = "1" | `+w+` = $2 ) & ^ `+w+` = "3" ; a, `+w)
			add("identifier", `a = "1" `+w+` b = "2"`) // a word between two comparisons is not an operator
		}
	}
	add("identifier", strings.Repeat("a", 300)+`_9="1" ; `+strings.Repeat("Z_", 200))
	// every character of the basic multilingual plane (and a sample beyond it) outside a value: where an operator, a
	// blank or a separator belongs, and in one more place that rotates with the character
	for c := rune(0x80); c <= 0x10ffff; c++ {
		if c >= 0xd800 && c <= 0xdfff {
			continue
		}
		if c > 0xffff {
			c += 250 // a sample of the supplementary planes
		}
		ch := string(c)
		add("rune-outside-value", `a="1" `+ch+` b="2"`)
		switch c % 5 {
		case 0:
			add("rune-outside-value", ch+`a=$1`)
		case 1:
			add("rune-outside-value", `a`+ch+`"1"`)
		case 2:
			add("rune-outside-value", `a="1"`+ch+`b`)
		case 3:
			add("rune-outside-value", `a="1";b`+ch+`c`)
		default:
			add("rune-outside-value", ch+`(a="1")`+ch)
		}
	}
	add("long-chain", strings.Repeat(`a="1" & `, 20000)+`b="2"`)
	for _, n := range []int{63, 64, 65, 127, 128, 129, 255, 256, 257, 1023, 1024, 1025} {
		add("chain-length", strings.Repeat(`a="1" & `, n-1)+`b="2"`)
		add("chain-length", strings.Repeat(`a="1" | `, n-1)+`b="2" ; a`)
	}
	add("long-chain", strings.Repeat(`a="1" | `, 20000)+`b="2" ; a`+strings.Repeat(`, b`, 5000))
	add("long-value", `a="`+strings.Repeat(`x""`, 100000)+`"`)
	// (round 7) runs of ONE byte value, for every byte value and run lengths around the sizes error messages, token
	// buffers and UTF-8 decoders work with: at the start, where an operator belongs, after a complete query, inside a value
	for b := 0; b < 256; b++ {
		for _, n := range []int{1, 2, 3, 4, 5, 31, 32, 33, 34, 64, 65, 255, 256, 4096, 4097} {
			run := strings.Repeat(string([]byte{byte(b)}), n)
			switch (b + n) % 4 {
			case 0:
				add("byte-run", run)
			case 1:
				add("byte-run", `a="1" `+run+` b="2"`)
			case 2:
				add("byte-run", `a="1" & b=$2 ; c`+run)
			default:
				if b != '"' {
					add("byte-run", `a="`+run+`" & b="2"`+run)
				} else {
					add("byte-run", `a=`+run)
				}
			}
		}
	}
	for _, b := range []byte{0x00, 0x80, 0xbf, 0xc0, 0xe2, 0xf0, 0xff, '"', '$', '9', 'a', '_', ' ', '\n', '(', '^'} {
		for _, n := range []int{32, 33, 40, 1000} {
			run := strings.Repeat(string([]byte{b}), n)
			add("byte-run", run)
			add("byte-run", `a="1" `+run)
			add("byte-run", `a="1"`+run)
			add("byte-run", `a = "1" ; b `+run)
			add("byte-run", `a="1" ; c, d`+run+`, e`)
		}
	}
	// tokens around the sizes of common read buffers (4 KiB, 64 KiB, 1 MiB): values, fields, placeholders, blanks
	for _, n := range []int{4095, 4096, 4097, 65532, 65533, 65534, 65535, 65536, 65537, 70001, 300001, 1<<20 + 1} {
		add("long-token", `a="`+strings.Repeat("v", n)+`"`)
		add("long-token", `b = "2" | a="`+strings.Repeat(`q"" `, n/4)+`" ; a`)
		add("long-token", strings.Repeat("f", n)+`="1" ; `+strings.Repeat("G", n))
		add("long-token", `a=`+strings.Repeat(" ", n)+`"1"`)
		add("long-token", `a=$`+strings.Repeat("0", n)+`1`)
	}
	// (round 8) every 23rd input once more at the very end, thousands of other texts later: the verdict on a text does
	// not depend on what was parsed in between (whatever the parser remembers between calls)
	n := len(out)
	for i := 0; i < n; i += 23 {
		if len(out[i].text) <= 8192 {
			add("again/"+out[i].class, out[i].text)
		}
	}
	for i := 0; i < 300 && i < n; i++ {
		add("again/"+out[i].class, out[i].text) // and the first ones (the regression block), which were parsed earliest
	}
	return out
}

func runC09(r *vf.Run) {
	r.Rule("one evaluation = one input string given to ParseQuery under recover and compared with an independent byte-level reference recogniser for the documented grammar " +
		"(accept/reject, tree, group-by list, exactly one of query/error); after every batch the goroutine profile must show no goroutine inside the parser package; " +
		"inputs: grammar-derived sentences with random blanks, 20 kinds of token/byte mutations, random bytes, placeholder numbers, nesting up to the stated depth, every field of 1-3 characters and keyword-like words as column and group-by entry; " +
		"distinct_nontrivial = distinct input strings that are non-empty")
	r.Assume("nesting depth <= 200000 (deeper: known finding stack-overflow-deep-nesting)", "lexical rules as fixed by the lexer: blanks SP/TAB/CR/LF, fields [A-Za-z][0-9A-Za-z_]*")
	corpus := c09Corpus(r)
	if r.Replay() {
		for _, in := range corpus {
			if r.Want(in.id) {
				c09One(r, in)
			}
		}
		if r.Want("deep-finding") {
			c09DeepFinding(r)
		}
		return
	}
	const batchSize = 4000
	const par = 8
	var maxDepth int64
	seenText := map[string]bool{}
	for start := 0; start < len(corpus); start += batchSize {
		end := min(start+batchSize, len(corpus))
		batch := corpus[start:end]
		bid := fmt.Sprintf("batch%04d", start/batchSize)
		r.Progress(bid)
		// workers pull inputs; each records what it is working on for the hang watchdog
		var next int64 = -1
		current := make([]int64, par)
		for i := range current {
			current[i] = -1
		}
		var wg sync.WaitGroup
		for w := 0; w < par; w++ {
			wg.Add(1)
			go func(w int) {
				defer wg.Done()
				for {
					i := atomic.AddInt64(&next, 1)
					if int(i) >= len(batch) {
						atomic.StoreInt64(&current[w], -1)
						return
					}
					atomic.StoreInt64(&current[w], i)
					c09One(r, batch[i])
				}
			}(w)
		}
		done := make(chan struct{})
		go func() { wg.Wait(); close(done) }()
		select {
		case <-done:
		case <-time.After(180 * time.Second):
			// bounded-progress watchdog: classify instead of judging by the clock
			stacks := mon.Stacks("internal/queryparser.")
			var stuck []string
			for w := range current {
				if i := atomic.LoadInt64(&current[w]); i >= 0 {
					stuck = append(stuck, fmt.Sprintf("%s %q", batch[i].id, head(batch[i].text, 200)))
				}
			}
			blocked := 0
			for _, s := range stacks {
				st := mon.GoroutineState(s)
				if st != "running" && st != "runnable" {
					blocked++
				}
			}
			if blocked > 0 {
				r.Violation(bid, "parse-does-not-return", map[string]any{"inputs_in_flight": stuck, "blocked_parser_goroutines": blocked, "stacks": head(strings.Join(stacks, "\n\n"), 20000)})
			} else {
				r.Inconclusive("batch " + bid + " still computing after 180 s")
			}
			return
		}
		for _, in := range batch {
			if !seenText[in.text] && in.text != "" {
				seenText[in.text] = true
				r.Distinct(in.text)
			}
			if in.class == "nesting" {
				if d := int64(strings.Count(in.text, "(") + strings.Count(in.text, "^")); d > maxDepth {
					maxDepth = d
				}
			}
		}
		// goroutine monitor at the quiescent point between batches
		left, allBlocked, samples := mon.WaitNoStacks("internal/queryparser.", 400, 5*time.Millisecond)
		r.Count("goroutine_profile_samples", int64(samples))
		if len(left) > 0 {
			if !allBlocked {
				r.Inconclusive(fmt.Sprintf("batch %s: %d parser goroutines still running after the calls returned", bid, len(left)))
				continue
			}
			culprit := c09Bisect(batch)
			r.Violation(bid+"/"+culprit.id, "goroutine-left-behind", map[string]any{"leaked_goroutines_after_batch": len(left), "first_input_that_leaks": fmt.Sprintf("%q", head(culprit.text, 500)), "class": culprit.class, "stack": head(left[0], 3000)})
			// the leaked goroutines stay forever; later batches are judged relative to this level, so stop here
			break
		}
	}
	r.Max("nesting_depth", maxDepth)
	if haveBin("vcheck.race") {
		c09Race(r, corpus)
	} else {
		r.Inconclusive("race-detector build of the harness not available")
	}
	c09Retention(r, corpus)
	c09DeepFinding(r)
	r.Floor(">= 1000 accepted inputs", r.GetCount("accepted") >= 1000)
	r.Floor(">= 1000 rejected inputs", r.GetCount("rejected") >= 1000)
	r.Floor("every mutation kind used", r.Covered("mutation_kinds") == len(gen.MutationKinds))
	r.Floor("goroutine profile sampled", r.GetCount("goroutine_profile_samples") > 0)
}

func c09One(r *vf.Run, in parseInput) {
	v, accepted := parseVerdict(in.text)
	r.Eval(1)
	if accepted {
		r.Count("accepted", 1)
	} else {
		r.Count("rejected", 1)
	}
	r.Count("inputs_"+strings.SplitN(in.class, "/", 2)[0], 1)
	if strings.HasPrefix(in.class, "sentence/") {
		r.Cover("mutation_kinds", strings.TrimPrefix(in.class, "sentence/"))
		if accepted {
			r.Cover("accepted_after_mutation", strings.TrimPrefix(in.class, "sentence/"))
		}
	}
	if v != "" {
		r.Violation(in.id, "parse", map[string]any{"input": fmt.Sprintf("%q", head(in.text, 2000)), "input_length": len(in.text), "class": in.class, "disagreement": head(v, 4000)})
	}
	if in.id == "in000100" || in.id == "in000101" || in.id == "in000102" {
		r.Sample("input", map[string]any{"class": in.class, "text": fmt.Sprintf("%q", head(in.text, 300)), "accepted": accepted})
	}
}

// c09Bisect finds the first input of the batch after which a parser goroutine
// stays behind (sequentially, sampling the goroutine profile after each call).
func c09Bisect(batch []parseInput) parseInput {
	base := len(mon.Stacks("internal/queryparser."))
	for _, in := range batch {
		vf.Try(func() { _, _ = queryparser.ParseQuery(in.text) })
		for k := 0; k < 50; k++ {
			if len(mon.Stacks("internal/queryparser.")) <= base {
				break
			}
			time.Sleep(2 * time.Millisecond)
		}
		if len(mon.Stacks("internal/queryparser.")) > base {
			return in
		}
	}
	return parseInput{id: "unknown", text: "(not reproduced sequentially)"}
}

// c09Race repeats a slice of the corpus in a child built with the race detector.
func c09Race(r *vf.Run, corpus []parseInput) {
	n := r.Pick(6000, 300000)
	rng := r.RNG("race-sample")
	var texts []string
	for i := 0; i < len(corpus) && len(texts) < 70; i++ {
		texts = append(texts, corpus[i].text) // regression block
	}
	for len(texts) < n {
		in := corpus[rng.Intn(len(corpus))]
		if len(in.text) > 100000 {
			continue
		}
		texts = append(texts, in.text)
	}
	enc := make([]string, len(texts))
	for i, t := range texts {
		enc[i] = base64.StdEncoding.EncodeToString([]byte(t))
	}
	b, _ := json.Marshal(enc)
	path := filepath.Join(r.Scratch, "race-corpus.json")
	_ = os.WriteFile(path, b, 0o644)
	logp := filepath.Join(r.Scratch, "c09-race.log")
	res := runChild(r, binPath("vcheck.race"), []string{"worker", "c09-parse", path}, childOpts{Timeout: 15 * time.Minute, RaceLog: logp})
	if res.TimedOut {
		hangVerdict(r, "race-child", res, map[string]any{"inputs": len(texts)})
		return
	}
	if res.Code != 0 {
		if strings.Contains(res.Stderr, "panic:") || strings.Contains(res.Stderr, "fatal error:") {
			r.Violation("race-child", "crash", map[string]any{"exit_code": res.Code, "stderr": tail(res.Stderr, 8000), "stdout": tail(res.Stdout, 2000)})
		} else {
			r.Inconclusive(fmt.Sprintf("race child exited with %d: %s", res.Code, tail(res.Stderr, 500)))
		}
		return
	}
	var sum struct {
		Checked   int      `json:"checked"`
		Disagree  []string `json:"disagree"`
		LeftAfter int      `json:"left_after"`
	}
	if err := json.Unmarshal([]byte(res.Stdout), &sum); err != nil {
		r.Inconclusive("race child output unreadable: " + err.Error())
		return
	}
	r.Count("inputs_parsed_under_race_detector", int64(sum.Checked))
	r.Eval(sum.Checked)
	for i, d := range sum.Disagree {
		if i < 3 {
			r.Violation(fmt.Sprintf("race-child/%d", i), "parse", d)
		}
	}
	if sum.LeftAfter > 0 {
		r.Violation("race-child", "goroutine-left-behind", map[string]any{"parser_goroutines_after_all_calls_returned": sum.LeftAfter})
	}
	checkRaceLog(r, "race-child", logp)
}

func workerC09Parse(args []string) int {
	b, err := os.ReadFile(args[0])
	if err != nil {
		fmt.Fprintln(os.Stderr, err)
		return 3
	}
	var enc []string
	if err := json.Unmarshal(b, &enc); err != nil {
		fmt.Fprintln(os.Stderr, err)
		return 3
	}
	var mu sync.Mutex
	var disagree []string
	var next int64 = -1
	var wg sync.WaitGroup
	for w := 0; w < 8; w++ {
		wg.Add(1)
		go func() {
			defer wg.Done()
			for {
				i := atomic.AddInt64(&next, 1)
				if int(i) >= len(enc) {
					return
				}
				t, _ := base64.StdEncoding.DecodeString(enc[i])
				if v, _ := parseVerdict(string(t)); v != "" {
					mu.Lock()
					if len(disagree) < 10 {
						disagree = append(disagree, fmt.Sprintf("%q: %s", head(string(t), 500), head(v, 1000)))
					}
					mu.Unlock()
				}
			}
		}()
	}
	wg.Wait()
	left, _, _ := mon.WaitNoStacks("internal/queryparser.", 400, 5*time.Millisecond)
	out, _ := json.Marshal(map[string]any{"checked": len(enc), "disagree": disagree, "left_after": len(left)})
	fmt.Println(string(out))
	return 0
}

// c09DeepFinding reproduces the known finding in a child process: ParseQuery on
// 4,000,000 nested operators dies with a fatal stack overflow. One million
// levels must still parse.
func c09DeepFinding(r *vf.Run) {
	for _, tc := range []struct {
		kind  string
		depth int
		known bool
	}{{"not", 1000000, false}, {"paren", 1000000, false}, {"not", 4000000, true}, {"paren", 4000000, true}} {
		id := fmt.Sprintf("deep-finding/%s-%d", tc.kind, tc.depth)
		if !r.Want(id) {
			continue
		}
		r.Progress(id)
		res := runChild(r, binPath("vcheck"), []string{"worker", "c09-deep", tc.kind, fmt.Sprint(tc.depth)}, childOpts{Timeout: 10 * time.Minute})
		r.Eval(1)
		r.Max("nesting_depth_in_child", int64(tc.depth))
		switch {
		case res.TimedOut:
			hangVerdict(r, id, res, map[string]any{"depth": tc.depth})
		case res.Code == 0 && strings.Contains(res.Stdout, "OK"):
			// parsed correctly
		case strings.Contains(res.Stderr, "stack overflow") && tc.known:
			r.KnownFinding("stack-overflow-deep-nesting", id, "crash", map[string]any{"depth": tc.depth, "kind": tc.kind, "stderr": head(res.Stderr, 1500)})
		case strings.Contains(res.Stderr, "stack overflow") || strings.Contains(res.Stderr, "panic:") || strings.Contains(res.Stderr, "fatal error:"):
			r.Violation(id, "crash", map[string]any{"depth": tc.depth, "kind": tc.kind, "stderr": head(res.Stderr, 3000), "stdout": head(res.Stdout, 500)})
		case res.Code == 1:
			r.Violation(id, "parse", map[string]any{"depth": tc.depth, "kind": tc.kind, "stdout": head(res.Stdout, 2000)})
		default:
			r.Inconclusive(fmt.Sprintf("%s: child ended with code %d (signal %v): %s", id, res.Code, res.Signal, tail(res.Stderr, 300)))
		}
	}
}

func workerC09Deep(args []string) int {
	var depth int
	fmt.Sscan(args[1], &depth)
	var in string
	if args[0] == "not" {
		in = strings.Repeat("^", depth) + `a="1"`
	} else {
		in = strings.Repeat("(", depth) + `a="1"` + strings.Repeat(")", depth)
	}
	q, err := queryparser.ParseQuery(in)
	if err != nil || q == nil {
		fmt.Println("REJECTED", err)
		return 1
	}
	// walk iteratively: count NOT levels down to the leaf
	n := 0
	e := q.Expr
	for e.GetNot() != nil {
		e = e.GetNot().Expr
		n++
	}
	want := 0
	if args[0] == "not" {
		want = depth
	}
	if n != want || e.GetEq() == nil || e.GetEq().Column != "a" || e.GetEq().Value != "1" {
		fmt.Printf("WRONG TREE: %d NOT levels, want %d\n", n, want)
		return 1
	}
	fmt.Println("OK")
	return 0
}

var _ = rand.Intn

// c09Retention: a parse result belongs to its caller. The trees and group-by lists of earlier calls are kept and
// compared again after later calls (a parser that recycles buffers hands out memory it will write to again).
func c09Retention(r *vf.Run, corpus []parseInput) {
	if !r.Want("retention") {
		return
	}
	rng := r.RNG("retention")
	type kept struct {
		text string
		q    *pb.Query
		snap []byte
	}
	var ring []kept
	n := r.Pick(6000, 60000)
	checked := 0
	for i := 0; i < n; i++ {
		in := corpus[rng.Intn(len(corpus))]
		if len(in.text) > 2000 {
			continue
		}
		text := in.text
		if i%3 == 0 {
			// a group-by list of its own, so that consecutive results differ in their lists
			text = fmt.Sprintf(`a = "%d" ; g%d, h%d, a`, i, i%17, i%5)
		}
		var q *pb.Query
		var err error
		if p, _, _ := vf.Try(func() { q, err = queryparser.ParseQuery(text) }); p || err != nil || q == nil {
			continue
		}
		snap, merr := proto.MarshalOptions{Deterministic: true}.Marshal(q)
		if merr != nil {
			continue
		}
		for _, k := range ring {
			now, _ := proto.MarshalOptions{Deterministic: true}.Marshal(k.q)
			checked++
			if string(now) != string(k.snap) {
				got, _ := oracle.FromProto(k.q.Expr)
				gs := "<incomplete>"
				if got != nil {
					gs = got.String()
				}
				r.Violation("retention", "earlier-parse-result-changed", map[string]any{"earlier_input": fmt.Sprintf("%q", head(k.text, 500)), "later_input": fmt.Sprintf("%q", head(text, 500)),
					"earlier_result_now": fmt.Sprintf("%s ; %q", head(gs, 500), k.q.GroupBy), "explanation": "the query returned by an earlier ParseQuery call changed when a later text was parsed"})
				r.Eval(checked)
				return
			}
		}
		ring = append(ring, kept{text, q, snap})
		if len(ring) > 6 {
			ring = ring[1:]
		}
	}
	r.Eval(checked)
	r.Count("earlier_results_compared_again_after_later_parses", int64(checked))
	r.Distinct("retention")
}
