package main

import (
	"context"
	"database/sql"
	"fmt"
	"os"
	"path/filepath"
	"regexp"
	"strings"
	"time"

	"github.com/akrennmair/updog"
	pb "github.com/akrennmair/updog/proto/updog/v1"
	"github.com/akrennmair/updog/verifharness/gen"
	"github.com/akrennmair/updog/verifharness/ix"
	"github.com/akrennmair/updog/verifharness/mon"
	"github.com/akrennmair/updog/verifharness/oracle"
	"github.com/akrennmair/updog/verifharness/vf"
	"go.etcd.io/bbolt"
)

func init() { register("C16", "exploration", runC16) }

func runC16(r *vf.Run) {
	r.Rule("one evaluation = one Flush/`updog create` attempt onto an existing path (must fail; SHA-256, size and mode of the file compared before/after), or one open/query/schema/close history on a valid index with one option set (SHA-256 before/after), " +
		"or one real CLI command (schema, driver, server) run under strace -f -y whose log is searched for mutating syscalls naming the index path; " +
		"distinct_nontrivial = distinct (pre-existing content kind, writer content, entry point) and (dataset, option set, history) combinations")
	r.Assume("modification = change of file content, size or mode (atime is not considered)", "strace sees every syscall of the traced process tree")
	c16Clobber(r)
	c16NoDescriptors(r)
	c16WriterLifecycles(r)
	c16OddInvocations(r)
	c16FaultSweep(r)
	c16ReadOnly(r)
	c16Strace(r)
	for _, k := range []string{"empty", "valid-index", "random-bytes", "partial-index", "read-only-mode"} {
		r.Floor("pre-existing kind "+k, r.HasCover("preexisting_kinds", k))
	}
	for _, k := range []string{"IndexWriter.Flush", "updog create", "updog create -b"} {
		r.Floor("entry point "+k, r.HasCover("write_entry_points", k))
	}
	r.Floor("read histories on every option set", r.Covered("read_option_sets") >= 4)
	r.Floor("strace logs inspected", r.GetCount("strace_logs_inspected") >= 3)
}

func c16Clobber(r *vf.Run) {
	rng := r.RNG("clobber")
	dir := filepath.Join(r.Scratch, "clobber")
	mustMkdir(dir)
	valid := filepath.Join(dir, "valid.updog")
	vds := identDataset(rng, "valid", 300, false)
	if err := ix.Build(ix.WriterMemFile, valid, vds.Rows); err != nil {
		r.Violation("clobber", "build", err.Error())
		return
	}
	validBytes, _ := os.ReadFile(valid)
	pre := []struct {
		kind string
		make func(p string)
	}{
		{"empty", func(p string) { _ = os.WriteFile(p, nil, 0o644) }},
		{"valid-index", func(p string) { _ = os.WriteFile(p, validBytes, 0o644) }},
		{"random-bytes", func(p string) { _ = os.WriteFile(p, []byte(gen.RandBytes(rng, 1+rng.Intn(50000))), 0o644) }},
		{"partial-index", func(p string) { _ = os.WriteFile(p, validBytes[:len(validBytes)/2], 0o644) }},
		{"read-only-mode", func(p string) { _ = os.WriteFile(p, validBytes, 0o444) }},
		{"text", func(p string) { _ = os.WriteFile(p, []byte("precious\n"), 0o600) }},
		{"hardlink-to-valid-index", func(p string) {
			_ = os.WriteFile(p+".target", validBytes, 0o644)
			_ = os.Link(p+".target", p)
		}},
		{"symlink-to-valid-index", func(p string) {
			_ = os.WriteFile(p+".target", validBytes, 0o644)
			_ = os.Symlink(p+".target", p)
		}},
		{"dangling-symlink", func(p string) { _ = os.Symlink(filepath.Join(filepath.Dir(p), "nowhere", filepath.Base(p)+".gone"), p) }},
	}
	// malformed inputs: the command fails for a reason of its own before or after it has looked at the output path;
	// whatever it cleans up then, the file that was there before is not its file
	insertLine := func(text string, at int, line string) string {
		lines := strings.SplitAfter(text, "\n")
		if at > len(lines) {
			at = len(lines)
		}
		return strings.Join(lines[:at], "") + line + "\n" + strings.Join(lines[at:], "")
	}
	contents := []struct {
		name   string
		rows   int
		vals   []int
		mangle func(string) string
	}{{"empty", 0, []int{1}, nil}, {"small", 20, []int{3, 2}, nil}, {"over-1000-values", 2300, []int{2300}, nil},
		{"malformed-record-3", 20, []int{3, 2}, func(t string) string { return insertLine(t, 2, `"only one field"`) }},
		{"malformed-record-1500", 2300, []int{2300}, func(t string) string { return insertLine(t, 1500, `"a","b","c","d","e","f","g"`) }},
		{"bare-quote-record-2", 20, []int{3, 2}, func(t string) string { return insertLine(t, 1, `x"y,"z`) }},
		{"header-only-garbage", 0, []int{1}, func(t string) string { return "\"unterminated\n" }},
	}
	for _, p := range pre {
		for _, c := range contents {
			csv := gen.CSVWithValues(c.rows, c.vals)
			for _, entry := range []string{"IndexWriter.Flush", "updog create", "updog create -b"} {
				cid := fmt.Sprintf("clobber/%s/%s/%s", p.kind, c.name, strings.ReplaceAll(entry, " ", "_"))
				if !r.Want(cid) || (c.mangle != nil && entry == "IndexWriter.Flush") {
					continue
				}
				r.Guard(cid, func() {
					// output names with various extensions (scratch files derived from the output name must not collide with it)
					out := filepath.Join(dir, vf.Digest(cid)+[]string{".out", ".tmp", ".updog", "", ".bak", ".db", ".updog.tmp", ".lock"}[len(cid)%8])
					p.make(out)
					before := mon.StatFile(out)
					w := map[string]any{"preexisting": p.kind, "writer_content": c.name, "entry_point": entry, "before": before.String()}
					failed := false
					switch entry {
					case "IndexWriter.Flush":
						iw := updog.NewIndexWriter(out)
						for _, row := range csv.Rows() {
							_, _ = iw.AddRow(row)
						}
						// the same writer tries three times: every attempt must fail and leave the file alone
						failed = true
						for attempt := 1; attempt <= 3; attempt++ {
							err := iw.Flush()
							if err == nil {
								failed = false
								w["flush_attempt_that_succeeded"] = attempt
								break
							}
							w["error"] = err.Error()
							if mid := mon.StatFile(out); !mid.SameContent(before) {
								w["changed_after_flush_attempt"] = attempt
								break
							}
						}
					default:
						in := filepath.Join(dir, vf.Digest(cid)+".csv")
						text := csv.Text
						if c.mangle != nil {
							text = c.mangle(text)
							r.Count("create_onto_existing_path_with_malformed_input", 1)
						}
						_ = os.WriteFile(in, []byte(text), 0o644)
						// the output path spelled absolutely, relatively ("./name", "name", "sub/../name") from its directory
						spell := []string{out, "./" + filepath.Base(out), filepath.Base(out), "x/../" + filepath.Base(out)}[len(cid)%4]
						_ = os.MkdirAll(filepath.Join(dir, "x"), 0o755)
						args := []string{"create", "-o", spell}
						if strings.HasSuffix(entry, "-b") {
							args = append(args, "-b")
						}
						inArg := in
						if p.kind == "text" && c.name == "small" && c.mangle == nil {
							inArg = out // the input file IS the output path
							_ = os.WriteFile(out, []byte(csv.Text), 0o600)
							before = mon.StatFile(out)
							w["input_is_output"] = true
						}
						w["output_spelled"] = spell
						res := runChild(r, binPath("updog"), append(args, inArg), childOpts{Timeout: 2 * time.Minute, Dir: dir})
						if res.TimedOut {
							hangVerdict(r, cid, res, w)
							return
						}
						failed = res.Code != 0
						w["exit_code"] = res.Code
						w["stderr"] = head(res.Stderr, 300)
					}
					after := mon.StatFile(out)
					w["after"] = after.String()
					r.Eval(1)
					r.Cover("preexisting_kinds", p.kind)
					r.Cover("write_entry_points", entry)
					r.Distinct(cid)
					if !failed {
						r.Violation(cid, "write-onto-existing-path-succeeded", w)
					}
					if !after.SameContent(before) || after.Mode != before.Mode {
						r.Violation(cid, "existing-file-changed", w)
					}
					if after.MTime != before.MTime {
						r.Count("mtime_changed_without_content_change", 1)
					}
					if lst, err := os.Lstat(out); strings.Contains(p.kind, "symlink") && (err != nil || lst.Mode()&os.ModeSymlink == 0) {
						r.Violation(cid, "existing-symlink-replaced", w)
					}
					if p.kind == "dangling-symlink" {
						if _, err := os.Stat(filepath.Join(filepath.Dir(out), "nowhere")); err == nil {
							r.Violation(cid, "written-through-a-dangling-symlink", w)
						}
					}
					if p.kind == "hardlink-to-valid-index" {
						if t := mon.StatFile(out + ".target"); t.SHA != before.SHA {
							w["other_name_of_the_file"] = t.String()
							r.Violation(cid, "existing-file-changed", w)
						}
					}
					_ = os.Chmod(out, 0o644)
					os.Remove(out)
					os.Remove(out + ".target")
				})
			}
		}
	}
	r.Sample("clobber-attempt", map[string]any{"preexisting": "valid-index", "writer_content": "over-1000-values", "entry_point": "updog create -b", "expectation": "non-zero exit, SHA-256/size/mode unchanged"})
}

var c16OptionSets = []struct {
	name string
	open func(path string) (*updog.Index, error)
}{
	{"ondemand", func(p string) (*updog.Index, error) { return updog.OpenIndex(p) }},
	{"preloaded", func(p string) (*updog.Index, error) { return updog.OpenIndex(p, updog.WithPreloadedData()) }},
	{"cached", func(p string) (*updog.Index, error) {
		return updog.OpenIndex(p, updog.WithCache(updog.NewLRUCache(5000)))
	}},
	{"preloaded+cached", func(p string) (*updog.Index, error) {
		return updog.OpenIndex(p, updog.WithPreloadedData(), updog.WithCache(updog.NewLRUCache(1<<20)))
	}},
	{"via-bolt-db", func(p string) (*updog.Index, error) { return ix.OpenViaBolt(p, ix.OpenOnDemand, nil) }},
	{"via-read-write-bolt-db+preloaded", func(p string) (*updog.Index, error) {
		// the caller hands over a handle it opened read-write: reading the index through it must still not write
		db, err := bbolt.Open(p, 0o644, &bbolt.Options{Timeout: 10 * time.Second})
		if err != nil {
			return nil, err
		}
		return updog.OpenIndexFromBoltDatabase(db, updog.WithPreloadedData(), updog.WithCache(updog.NewLRUCache(10000)))
	}},
}

func c16ReadOnly(r *vf.Run) {
	n := r.Pick(24, 500)
	var ids []string
	for i := 0; i < n; i++ {
		ids = append(ids, fmt.Sprintf("read%02d", i))
	}
	r.ForEach(ids, 12, func(id string) {
		rng := r.RNG(id)
		ds := gen.MakeDataset(rng, id, gen.DatasetOpts{Rows: 1 + rng.Intn(r.Pick(5000, 60000)), MaxCols: 4, HostileVals: true, EmptyRows: true, MaxCard: 1200})
		if len(ds.Cols) == 0 {
			return
		}
		dir := filepath.Join(r.Scratch, id)
		mustMkdir(dir)
		path := filepath.Join(dir, "ix.updog")
		if err := ix.Build(ix.Writers[rng.Intn(3)], path, ds.Rows); err != nil {
			r.Violation(id, "build", err.Error())
			return
		}
		qs := c03Queries(rng, ds, 60)
		// the file is old, not group/world readable now and then, and (every other dataset) reached through a symbolic link
		// that is younger than its target
		real := path
		_ = os.Chtimes(real, time.Date(2021, 3, 4, 5, 6, 7, 0, time.UTC), time.Date(2021, 3, 4, 5, 6, 7, 123456789, time.UTC))
		_ = os.Chmod(real, []os.FileMode{0o644, 0o600, 0o444, 0o640}[len(id)%2+2*(int(rng.Int63())%2)])
		if rng.Intn(2) == 0 {
			link := filepath.Join(dir, "current.updog")
			if os.Symlink("ix.updog", link) == nil {
				path = link
				r.Count("read_histories_through_a_symbolic_link", 1)
			}
		}
		before := mon.StatFile(real)
		defer func() { _ = os.Chmod(real, 0o644) }()
		for _, o := range c16OptionSets {
			cid := id + "/" + o.name
			if !r.Want(cid) {
				continue
			}
			steps := 1 + rng.Intn(3)
			for s := 0; s < steps; s++ {
				idx, err := o.open(path)
				if err != nil {
					r.Violation(cid, "open", err.Error())
					return
				}
				_ = idx.GetSchema()
				for _, q := range qs {
					_, _ = ix.Exec(idx, q.e, q.gb)
				}
				// also queries that fail
				_, _ = ix.Exec(idx, oracle.Eq("no_such_column", "x"), []string{"nope"})
				idx.Close()
				idx.Close()
			}
			after := mon.StatFile(real)
			r.Eval(1)
			r.Cover("read_option_sets", o.name)
			r.Count("read_histories", 1)
			r.Count("queries_in_read_histories", int64(steps*(len(qs)+1)))
			r.Distinct(cid + fmt.Sprint(steps))
			if !after.SameContent(before) || after.Mode != before.Mode {
				r.Violation(cid, "index-file-changed-by-reading", map[string]any{"before": before.String(), "after": after.String(), "options": o.name, "opens": steps})
				return
			}
			if after.MTime != before.MTime {
				r.Violation(cid, "index-file-mtime-changed-by-reading", map[string]any{"before": before.String(), "after": after.String(), "options": o.name})
				return
			}
		}
		// through the sql driver as well
		db, err := sql.Open("updog", "file:"+path+"?preload=true&lrucache=true&lrucachesize=1000")
		if err == nil {
			for i := 0; i < 5; i++ {
				if rows, err := db.Query(`nosuch = "1"`); err == nil {
					rows.Close()
				}
			}
			db.Close()
			if after := mon.StatFile(real); !after.SameContent(before) || after.MTime != before.MTime || after.Mode != before.Mode {
				r.Violation(id+"/sql-driver", "index-file-changed-by-reading", map[string]any{"before": before.String(), "after": after.String()})
			}
		}
		if id == "read00" {
			r.Sample("read-history", map[string]any{"rows": len(ds.Rows), "option_sets": len(c16OptionSets), "queries": len(qs), "sha256_before": before.SHA})
		}
	})
}

var mutatingCall = regexp.MustCompile(`^\d+\s+(write|pwrite64|pwritev|pwritev2|writev|ftruncate|truncate|fallocate|unlink|unlinkat|rename|renameat|renameat2|fchmod|chmod|fchmodat|fsetxattr|copy_file_range|sendfile)\(`)
var openCall = regexp.MustCompile(`^\d+\s+(openat|open|creat)\(`)

// scanStrace returns the lines of a strace -y log that show a mutating syscall
// naming the path, and the number of lines that mention the path at all.
func scanStrace(log, path string) (bad []string, mentions int) {
	for _, line := range strings.Split(log, "\n") {
		if !strings.Contains(line, path) {
			continue
		}
		mentions++
		if mutatingCall.MatchString(line) {
			bad = append(bad, line)
			continue
		}
		if openCall.MatchString(line) && (strings.Contains(line, "O_TRUNC") || strings.Contains(line, "O_CREAT") || strings.Contains(line, "O_APPEND")) {
			bad = append(bad, line)
		}
	}
	return
}

func c16Strace(r *vf.Run) {
	if _, err := os.Stat("/usr/bin/strace"); err != nil {
		r.Inconclusive("strace not installed")
		return
	}
	rng := r.RNG("strace")
	dir := filepath.Join(r.Scratch, "strace")
	mustMkdir(dir)
	ds := identDataset(rng, "st", 2500, false)
	for len(ds.Cols) == 0 {
		ds = identDataset(rng, "st", 2500, false)
	}
	// column names that the CLI's header normalisation leaves alone (lower-case letters and '_'), so that the library-
	// built and the CLI-built indexes answer the same query texts
	for _, row := range ds.Rows {
		for c, v := range row {
			if n := gen.NormalizeHeader(c); n != c {
				delete(row, c)
				row[n] = v
			}
		}
	}
	ds.Index()
	// the index files that are only read: one written through the library, and one per mode written by the real CLI
	// (the CLI may configure bbolt differently from the library, which matters to whoever opens the file later)
	libPath := filepath.Join(dir, "st-index.updog")
	if err := ix.Build(ix.WriterBig, libPath, ds.Rows); err != nil {
		r.Violation("strace", "build", err.Error())
		return
	}
	csvText := func() string {
		var sb strings.Builder
		cols := ds.ColNames()
		for i, c := range cols {
			if i > 0 {
				sb.WriteByte(',')
			}
			sb.WriteString(gen.CSVQuote(c))
		}
		sb.WriteByte('\n')
		for _, row := range ds.Rows {
			for i, c := range cols {
				if i > 0 {
					sb.WriteByte(',')
				}
				sb.WriteString(gen.CSVQuote(row[c]))
			}
			sb.WriteByte('\n')
		}
		return sb.String()
	}()
	in := filepath.Join(dir, "st.csv")
	_ = os.WriteFile(in, []byte(csvText), 0o644)
	paths := map[string]string{"library": libPath}
	for _, mode := range []string{"cli-normal", "cli-big"} {
		out := filepath.Join(dir, "st-"+mode+".updog")
		args := []string{"create", "-o", out}
		if mode == "cli-big" {
			args = append(args, "-b")
		}
		if res := runChild(r, binPath("updog"), append(args, in), childOpts{Timeout: 3 * time.Minute}); res.Code == 0 && !res.TimedOut {
			paths[mode] = out
		} else {
			r.Inconclusive("strace: could not create the index with the CLI (" + mode + "): " + tail(res.Stderr, 300))
		}
	}
	cols := ds.ColNames()
	qtext := gen.FormatQuery(oracle.Or(oracle.Eq(cols[0], ds.Vals[cols[0]][0]), oracle.Not(oracle.Eq(cols[0], ds.Vals[cols[0]][0]))), cols[:1])
	trace := []string{"/usr/bin/strace", "-f", "-y", "-s", "64", "-e", "trace=%file,%desc"}
	for _, origin := range []string{"library", "cli-normal", "cli-big"} {
		path, ok := paths[origin]
		if !ok {
			continue
		}
		c16StraceOne(r, dir, origin, path, ds, cols, qtext, trace)
	}
}

func c16StraceOne(r *vf.Run, dir, origin, path string, ds *gen.Dataset, cols []string, qtext string, trace []string) {
	before := mon.StatFile(path)
	r.Cover("strace_index_origins", origin)
	check := func(cid, logPath string) {
		lb, _ := os.ReadFile(logPath)
		bad, mentions := scanStrace(string(lb), path)
		r.Eval(1)
		r.Count("strace_logs_inspected", 1)
		r.Count("strace_lines_naming_the_index", int64(mentions))
		r.Distinct(cid)
		if mentions == 0 {
			r.Inconclusive(cid + ": the strace log never mentions the index path")
		}
		if len(bad) > 0 {
			r.Violation(cid, "mutating-syscall-on-index", map[string]any{"syscalls": bad[:min(len(bad), 10)], "index_written_by": origin})
		}
		if after := mon.StatFile(path); !after.SameContent(before) || after.MTime != before.MTime {
			r.Violation(cid, "index-file-changed-by-reading", map[string]any{"before": before.String(), "after": after.String(), "index_written_by": origin})
		}
	}
	// updog schema / schema --full / driver
	cmds := []struct {
		name string
		args []string
	}{
		{"schema", []string{"schema", "-f", path}},
		{"schema-full", []string{"schema", "--full", "-f", path}},
		{"driver", []string{"driver", "-d", "file:" + path, qtext}},
		{"driver-preload-cache", []string{"driver", "-d", "file:" + path + "?preload=true&lrucache=true&lrucachesize=100000", qtext, `nosuchcol = "1"`}},
	}
	for _, c := range cmds {
		cid := "strace/" + origin + "/" + c.name
		if !r.Want(cid) {
			continue
		}
		r.Progress(cid)
		logPath := filepath.Join(dir, origin+"-"+c.name+".strace")
		args := append(append(append([]string{}, trace[1:]...), "-o", logPath, binPath("updog")), c.args...)
		res := runChild(r, trace[0], args, childOpts{Timeout: 3 * time.Minute})
		if res.TimedOut {
			hangVerdict(r, cid, res, nil)
			continue
		}
		if res.Code != 0 && c.name != "driver-preload-cache" {
			r.Violation(cid, "command-failed", map[string]any{"exit_code": res.Code, "stderr": tail(res.Stderr, 1500)})
			continue
		}
		check(cid, logPath)
	}
	// updog server under strace, queried over gRPC
	for _, so := range [][]string{nil, {"-p"}} {
		name := "server"
		if so != nil {
			name = "server-preload"
		}
		cid := "strace/" + origin + "/" + name
		if !r.Want(cid) {
			continue
		}
		r.Progress(cid)
		logPath := filepath.Join(dir, origin+"-"+name+".strace")
		sp, err := startServerWrapped(r, append(append([]string{}, trace...), "-o", logPath), binPath("updog"), path, so, nil)
		if err != nil {
			r.Inconclusive(cid + ": " + err.Error())
			continue
		}
		conn, cl, err := dial(sp.addr)
		if err == nil {
			for i := 0; i < 20; i++ {
				c := cols[i%len(cols)]
				ctx, cancel := context.WithTimeout(context.Background(), 30*time.Second)
				_, _ = cl.Query(ctx, &pb.QueryRequest{Queries: []*pb.Query{{Expr: oracle.Not(oracle.Eq(c, ds.Vals[c][0])).ToProto(), GroupBy: []string{c}}, {Expr: oracle.Eq("nosuch", "1").ToProto()}}})
				cancel()
			}
			conn.Close()
		}
		sp.stop()
		check(cid, logPath)
	}
}
