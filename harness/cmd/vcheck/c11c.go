package main

import (
	"database/sql"
	"database/sql/driver"
	"fmt"
	"path/filepath"

	"github.com/akrennmair/updog/verifharness/gen"
	"github.com/akrennmair/updog/verifharness/ix"
	"github.com/akrennmair/updog/verifharness/oracle"
	"github.com/akrennmair/updog/verifharness/vf"
)

type c11NamedString string
type c11Stringer int

func (c11Stringer) String() string { return "not-the-number" }

type c11Valuer struct{ s string }

func (v c11Valuer) Value() (driver.Value, error) { return v.s, nil }

// c11ArgumentForms (round 8): the argument forms database/sql accepts for a string or an integer -- sql.NullString,
// sql.NullInt64, pointers, named types (one with a String method), a driver.Valuer of the caller's -- bind as the value
// they stand for, on the direct and on the prepared path. And the texts of a handle's past: 200 distinct texts are each
// executed once and then again (direct and prepared), each time answering for its own text and arguments; a prepared
// statement executed with a nil argument after a non-nil one answers like a freshly prepared statement given nil.
func c11ArgumentForms(r *vf.Run) {
	if !r.Want("argument-forms") {
		return
	}
	ds := &gen.Dataset{ID: "argument-forms"}
	names := []string{"grün", "x", "7", "12", "-3", "not-the-number", "{grün true}", "<nil>", ""}
	for i, n := range names {
		for k := 0; k <= i; k++ {
			ds.Rows = append(ds.Rows, oracle.Row{"name": n, "level": fmt.Sprint(k % 4), "t": fmt.Sprint(len(ds.Rows) % 211)})
		}
	}
	ds.Index()
	dir := filepath.Join(r.Scratch, "argument-forms")
	mustMkdir(dir)
	path := filepath.Join(dir, "ds.updog")
	if err := ix.Build(ix.Writers[int(r.Seed)%3], path, ds.Rows); err != nil {
		r.Violation("argument-forms", "build", err.Error())
		return
	}
	s1, s2 := "grün", "x"
	i1 := int64(7)
	type form struct {
		what string
		v    any
		text string
	}
	forms := []form{
		{"string", "grün", "grün"}, {"sql.NullString", sql.NullString{String: "grün", Valid: true}, "grün"}, {"*string", &s1, "grün"}, {"*string (other)", &s2, "x"},
		{"named string type", c11NamedString("x"), "x"}, {"driver.Valuer", c11Valuer{"grün"}, "grün"}, {"sql.NullInt64", sql.NullInt64{Int64: 12, Valid: true}, "12"},
		{"*int64", &i1, "7"}, {"named int type with a String method", c11Stringer(-3), "-3"}, {"int", 12, "12"},
	}
	for _, o := range dsnOptionSets[:3] {
		cid := "argument-forms/" + o.name
		if !r.Want(cid) {
			continue
		}
		db, err := sql.Open("updog", "file:"+path+o.opts)
		if err != nil {
			r.Violation(cid, "sql.Open", err.Error())
			return
		}
		bad := false
		check := func(step string, e *oracle.Expr, gb []string, rows *sql.Rows, qerr error) {
			r.Eval(1)
			want := oracle.Eval(ds.Rows, ds.Cols, e, gb)
			w := map[string]any{"step": step, "literal_query": e.String(), "options": o.name}
			if qerr != nil {
				w["error"] = qerr.Error()
				r.Violation(cid, "unexpected-error", w)
				bad = true
				return
			}
			got, rerr := readRows(rows)
			if rerr != nil {
				w["error"] = rerr.Error()
				r.Violation(cid, "rows", w)
				bad = true
				return
			}
			if d := compareTables(got, expectedTable(want, gb)); d != "" {
				w["difference"] = d
				r.Violation(cid, "rows", w)
				bad = true
			}
		}
		panicked, msg, _ := vf.Try(func() {
			text := `name = $1 & ^ level = $2 ; level`
			st, err := db.Prepare(text)
			if err != nil {
				r.Violation(cid, "prepare", err.Error())
				return
			}
			defer st.Close()
			for _, f := range forms {
				if bad {
					return
				}
				e := oracle.And(oracle.Eq("name", f.text), oracle.Not(oracle.Eq("level", "1")))
				rows, qerr := db.Query(text, f.v, 1)
				check("direct, argument form "+f.what, e, []string{"level"}, rows, qerr)
				if bad {
					return
				}
				rows, qerr = st.Query(f.v, "1")
				check("prepared, argument form "+f.what, e, []string{"level"}, rows, qerr)
				r.Cover("argument_forms", f.what)
			}
			// nil after non-nil on one statement: like a fresh statement given nil (whatever nil binds as)
			for _, args := range [][]any{{"x", "1"}, {nil, "1"}, {"grün", nil}, {nil, nil}, {"x", "1"}} {
				if bad {
					return
				}
				r.Eval(1)
				fresh, err := db.Prepare(text)
				if err != nil {
					r.Violation(cid, "prepare", err.Error())
					return
				}
				var ta, tb sqlTable
				ra, ea := st.Query(args...)
				if ea == nil {
					ta, ea = readRows(ra)
				}
				rb, eb := fresh.Query(args...)
				if eb == nil {
					tb, eb = readRows(rb)
				}
				fresh.Close()
				if (ea == nil) != (eb == nil) || (ea == nil && compareTables(ta, tb) != "") {
					r.Violation(cid, "statement-lifetime", map[string]any{"arguments": fmt.Sprintf("%v", args), "reused_statement": fmt.Sprint(fmtRows(ta.Rows, 5), ea), "fresh_statement": fmt.Sprint(fmtRows(tb.Rows, 5), eb),
						"explanation": "a statement executed before with other arguments answers differently from a freshly prepared one", "options": o.name})
					bad = true
				}
			}
			// (round 9) what Rows.Columns returns is the caller's: group-by lists of 3, 5, 6 and 7 entries, the column list
			// of every execution overwritten by the caller, the statement executed again
			for _, gb := range [][]string{{"level", "t", "name"}, {"level", "name", "level", "t", "name"}, {"t", "t", "t", "level", "level", "name"}, {"name", "level", "t", "name", "level", "t", "name"}} {
				if bad {
					return
				}
				txt := gen.FormatQuery(oracle.And(oracle.PhEq("name", 1), oracle.Eq("level", "2")), gb)
				ps, err := db.Prepare(txt)
				if err != nil {
					r.Violation(cid, "prepare", map[string]any{"text": txt, "error": err.Error()})
					bad = true
					return
				}
				for round := 0; round < 3 && !bad; round++ {
					v := []string{"grün", "x", "12"}[round]
					rows, qerr := ps.Query(v)
					var cs []string
					if qerr == nil {
						cs, _ = rows.Columns()
					}
					check(fmt.Sprintf("group-by list of %d entries, execution %d, after the caller overwrote the Columns() slices of the earlier executions", len(gb), round+1), oracle.And(oracle.Eq("name", v), oracle.Eq("level", "2")), gb, rows, qerr)
					// this result has been read to its end: its column list is the caller's to do with as it likes
					for i := range cs {
						cs[i] = "overwritten by the caller"
					}
					if len(cs) > 1 {
						cs = cs[:cap(cs)]
						cs[0], cs[len(cs)-1] = cs[len(cs)-1], "overwritten by the caller"
					}
				}
				ps.Close()
			}
			// 200 distinct texts, each once, then all again
			for pass := 0; pass < 2 && !bad; pass++ {
				for i := 0; i < 200 && !bad; i++ {
					tv := fmt.Sprint(i)
					e := oracle.And(oracle.Eq("t", tv), oracle.Eq("name", "grün"))
					tmpl := oracle.And(oracle.Eq("t", tv), oracle.PhEq("name", 1))
					txt := gen.FormatQuery(tmpl, nil)
					if i%2 == 0 {
						rows, qerr := db.Query(txt, "grün")
						check(fmt.Sprintf("pass %d, text %d of 200, direct", pass+1, i), e, nil, rows, qerr)
					} else {
						ps, err := db.Prepare(txt)
						if err != nil {
							r.Violation(cid, "prepare", map[string]any{"text": txt, "error": err.Error(), "pass": pass + 1})
							bad = true
							break
						}
						rows, qerr := ps.Query("grün")
						check(fmt.Sprintf("pass %d, text %d of 200, prepared", pass+1, i), e, nil, rows, qerr)
						ps.Close()
					}
				}
			}
			// malformed texts stay malformed after 200 others
			for pass := 0; pass < 2 && !bad; pass++ {
				for i := 0; i < 140; i++ {
					if _, err := db.Query(fmt.Sprintf(`t = "%d" &`, i)); err == nil {
						r.Violation(cid, "not-rejected", map[string]any{"text": fmt.Sprintf(`t = "%d" &`, i), "pass": pass + 1})
						bad = true
						break
					}
				}
			}
		})
		if panicked {
			r.Violation(cid, "panic", map[string]any{"panic": msg})
			continue
		}
		r.Distinct(cid)
		db.Close()
	}
}
