package main

import (
	"context"
	"database/sql"
	"encoding/json"
	"fmt"
	"math/rand"
	"os"
	"path/filepath"
	"strings"
	"sync"
	"sync/atomic"
	"time"

	"github.com/akrennmair/updog/verifharness/gen"
	"github.com/akrennmair/updog/verifharness/ix"
	"github.com/akrennmair/updog/verifharness/mon"
	"github.com/akrennmair/updog/verifharness/oracle"
	"github.com/akrennmair/updog/verifharness/vf"
)

func init() {
	register("C17", "exploration", runC17)
	workers["c17-histories"] = workerC17
}

type c17File struct {
	// Rel: the file as named relative to the child's working directory ("x.updog", "../x.updog", ".x.updog"): three
	// different files whose names differ only in leading dots and slashes
	Rel     string       `json:"rel"`
	Path    string       `json:"path"`
	Rows    []oracle.Row `json:"rows"`
	Queries []c17Query   `json:"queries"`
}

type c17Query struct {
	// ArgText/Args: the same query with some literals replaced by placeholders and the arguments that restore them
	ArgText string       `json:"arg_text"`
	Args    []string     `json:"args"`
	Text    string       `json:"text"`
	E       *oracle.Expr `json:"e"`
	GB      []string     `json:"gb"`
}

type c17Op struct {
	Op   string `json:"op"` // open | query | stmt | close | pool | burst | churn | ping | conn | txbegin | txquery | txend | pingchurn
	H    int    `json:"h"`
	File int    `json:"file"`
	Opts string `json:"opts"`
	Q    int    `json:"q"`
	N    int    `json:"n"`
	K    int    `json:"k,omitempty"` // churn: iterations per goroutine (default 6)
}

type c17History struct {
	ID  string  `json:"id"`
	Ops []c17Op `json:"ops"`
}

type c17Spec struct {
	Cwd       string       `json:"cwd"` // working directory of the child (the relative names are relative to it)
	Files     []c17File    `json:"files"`
	Histories []c17History `json:"histories"`
}

type c17Result struct {
	ID                  string   `json:"id"`
	Violations          []string `json:"violations"`
	Queries             int      `json:"queries"`
	Handles             int      `json:"handles"`
	ReopenAfterClose    int      `json:"reopen_after_close"`
	BurstRounds         int      `json:"burst_rounds"`
	BurstGoroutines     int      `json:"burst_goroutines"`
	MaxKeysLive         int      `json:"max_keys_live"`
	TwoOptionOverlap    int      `json:"two_option_overlap"`
	SameOptionShare     int      `json:"same_option_share"`
	LockProbes          int      `json:"lock_probes"`
	HeldProbes          int      `json:"held_probes"`
	BadOpens            int      `json:"bad_opens"`
	ChurnRounds         int      `json:"churn_rounds"`
	Pings               int      `json:"pings"`
	Transactions        int      `json:"transactions"`
	TxOverlaps          int      `json:"tx_overlaps"`
	RawConns            int      `json:"raw_conns"`
	PingChurnRounds     int      `json:"ping_churn_rounds"`
	MissingFileQueries  int      `json:"missing_file_queries"`
	RelativeOpens       int      `json:"relative_opens"`
	CtxExpiredFirstUses int      `json:"ctx_expired_first_uses"`
	Done                bool     `json:"done"`
}

var errCtxExpired = fmt.Errorf("context ended before the answer")

var c17OptStrings = []string{"", "?preload=true", "?lrucache=true&lrucachesize=2000", "?preload=true&lrucache=true&lrucachesize=100000", "?lrucachesize=100000&lrucache=true&preload=true"}

func workerC17(args []string) int {
	var spec c17Spec
	if err := readSpec(args[0], &spec); err != nil {
		fmt.Fprintln(os.Stderr, err)
		return 3
	}
	if spec.Cwd != "" {
		if err := os.Chdir(spec.Cwd); err != nil {
			fmt.Fprintln(os.Stderr, err)
			return 3
		}
	}
	// expected tables, computed before anything runs
	type exp struct {
		want oracle.Answer
		gb   []string
	}
	exps := make([][]exp, len(spec.Files))
	for fi, f := range spec.Files {
		cols := oracle.Columns(f.Rows)
		for _, q := range f.Queries {
			exps[fi] = append(exps[fi], exp{oracle.Eval(f.Rows, cols, q.E, q.GB), q.GB})
		}
	}
	enc := json.NewEncoder(os.Stdout)
	for _, h := range spec.Histories {
		fmt.Fprintf(os.Stderr, "c17: starting history %s\n", h.ID)
		res := c17Result{ID: h.ID}
		type handle struct {
			db     *sql.DB
			file   int
			opts   string
			used   bool
			closed bool
		}
		handles := map[int]*handle{}
		everClosedAll := map[int]bool{} // file -> all handles on it were closed at some point
		liveUsed := func(file int) int {
			n := 0
			for _, x := range handles {
				if x.file == file && x.used && !x.closed {
					n++
				}
			}
			return n
		}
		add := func(format string, a ...any) {
			if len(res.Violations) < 5 {
				res.Violations = append(res.Violations, fmt.Sprintf(format, a...))
			}
		}
		type txh struct {
			tx *sql.Tx
			hd *handle
		}
		txs := map[int]*txh{}
		var runQueryVia func(hd *handle, qi int, viaStmt bool, via func(text string) (*sql.Rows, error))
		runQuery := func(hd *handle, qi int, viaStmt bool) { runQueryVia(hd, qi, viaStmt, nil) }
		runQueryVia = func(hd *handle, qi int, viaStmt bool, via func(text string) (*sql.Rows, error)) {
			f := spec.Files[hd.file]
			q := f.Queries[qi%len(f.Queries)]
			e := exps[hd.file][qi%len(f.Queries)]
			var rows *sql.Rows
			var err error
			if p, msg, stack := vf.Try(func() {
				if via != nil {
					rows, err = via(q.Text)
				} else if viaStmt {
					var st *sql.Stmt
					st, err = hd.db.Prepare(q.Text)
					if err == nil {
						defer st.Close()
						rows, err = st.Query()
					}
				} else {
					rows, err = hd.db.Query(q.Text)
				}
			}); p {
				add("query %q on handle(file %d, opts %q) panicked: %s\n%s", q.Text, hd.file, hd.opts, msg, head(stack, 2000))
				return
			}
			res.Queries++
			if err == errCtxExpired {
				return // the caller's context ended first: no answer to judge
			}
			if e.want.Err {
				if err == nil {
					rows.Close()
					add("query %q must be rejected but returned rows", q.Text)
				}
				return
			}
			if err != nil {
				add("query %q on handle(file %d, opts %q) failed: %v", q.Text, hd.file, hd.opts, err)
				return
			}
			got, rerr := readRows(rows)
			if rerr != nil {
				if strings.Contains(rerr.Error(), "context deadline exceeded") || strings.Contains(rerr.Error(), "context canceled") {
					res.CtxExpiredFirstUses++
					return // database/sql closed the result set because the caller's context ended while it was being read
				}
				add("query %q: %v", q.Text, rerr)
				return
			}
			if d := compareTables(got, expectedTable(e.want, e.gb)); d != "" {
				add("query %q on handle(file %d, opts %q): %s", q.Text, hd.file, hd.opts, d)
			}
		}
		keysLive := func() int {
			keys := map[string]bool{}
			for _, x := range handles {
				if x.used && !x.closed {
					keys[fmt.Sprintf("%d|%s", x.file, x.opts)] = true
				}
			}
			return len(keys)
		}
		for oi, op := range h.Ops {
			if len(res.Violations) > 0 {
				break
			}
			switch op.Op {
			case "appear":
				// the index file is written to a path that did not exist so far (handles on it may already exist)
				if err := ix.CopyFile(spec.Files[0].Path, spec.Files[op.File].Path); err != nil {
					add("op %d: cannot write the late file: %v", oi, err)
				}
			case "vanish":
				os.Remove(spec.Files[op.File].Path)
			case "burst-expect-error":
				// N goroutines at once make the first use of a handle whose file does not exist: every one gets an error
				hd := handles[op.H]
				if hd == nil || hd.closed {
					continue
				}
				f := spec.Files[hd.file]
				var wg sync.WaitGroup
				var mu sync.Mutex
				gate := make(chan struct{})
				for g := 0; g < op.N; g++ {
					wg.Add(1)
					go func(g int) {
						defer wg.Done()
						<-gate
						var qerr error
						p, msg, _ := vf.Try(func() {
							if g%3 == 2 {
								if qerr = hd.db.Ping(); qerr != nil {
									return
								}
								// a Ping that reports success on a missing file is judged by the query that follows
							}
							var rows *sql.Rows
							rows, qerr = hd.db.Query(f.Queries[(op.Q+g)%len(f.Queries)].Text)
							if qerr == nil {
								rows.Close()
							}
						})
						mu.Lock()
						defer mu.Unlock()
						if p {
							if len(res.Violations) < 5 {
								res.Violations = append(res.Violations, fmt.Sprintf("op %d: concurrent first use of a handle whose file does not exist panicked: %s", oi, msg))
							}
						} else if qerr == nil && len(res.Violations) < 5 {
							res.Violations = append(res.Violations, fmt.Sprintf("op %d: a query on a handle whose file does not exist succeeded", oi))
						}
						res.MissingFileQueries++
					}(g)
				}
				close(gate)
				wg.Wait()
			case "ctx-first-use":
				// the first use of a fresh handle under a context that ends after op.K microseconds (during or shortly after
				// the open); whatever comes back, rows must be right and the handle must stay usable and closable
				hd := handles[op.H]
				if hd == nil || hd.closed {
					continue
				}
				hd.used = true
				ctx, cancel := context.WithTimeout(context.Background(), time.Duration(op.K)*time.Microsecond)
				runQueryVia(hd, op.Q, false, func(text string) (*sql.Rows, error) {
					rows, err := hd.db.QueryContext(ctx, text)
					if err != nil && ctx.Err() != nil {
						res.CtxExpiredFirstUses++
						return nil, errCtxExpired
					}
					return rows, err
				})
				cancel()
			case "expect-error":
				// a query on a handle whose file does not exist (yet): an error, no panic, no hang
				hd := handles[op.H]
				if hd == nil || hd.closed {
					continue
				}
				f := spec.Files[hd.file]
				var qerr error
				if p, msg, _ := vf.Try(func() {
					var rows *sql.Rows
					rows, qerr = hd.db.Query(f.Queries[op.Q%len(f.Queries)].Text)
					if qerr == nil {
						rows.Close()
					}
				}); p {
					add("op %d: query on a handle whose file does not exist panicked: %s", oi, msg)
				} else if qerr == nil {
					add("op %d: query on a handle whose file does not exist succeeded", oi)
				}
				res.MissingFileQueries++
			case "open":
				name := spec.Files[op.File].Path
				if op.N == 1 && spec.Files[op.File].Rel != "" {
					name = spec.Files[op.File].Rel
					if op.File == 0 && op.H%2 == 1 {
						name = "./" + name
					}
					res.RelativeOpens++
				}
				db, err := sql.Open("updog", "file:"+name+op.Opts)
				if err != nil {
					add("op %d: sql.Open failed: %v", oi, err)
					continue
				}
				if everClosedAll[op.File] {
					res.ReopenAfterClose++
				}
				handles[op.H] = &handle{db: db, file: op.File, opts: op.Opts}
				res.Handles++
			case "pool":
				if hd := handles[op.H]; hd != nil && !hd.closed {
					hd.db.SetMaxOpenConns(op.N)
					hd.db.SetMaxIdleConns(op.N)
				}
			case "idle0":
				// no idle connections: database/sql closes the driver connection after every use
				if hd := handles[op.H]; hd != nil && !hd.closed {
					hd.db.SetMaxIdleConns(0)
				}
			case "lifetime":
				if hd := handles[op.H]; hd != nil && !hd.closed {
					hd.db.SetConnMaxLifetime(time.Nanosecond)
				}
			case "open-bad":
				// a data source that cannot be opened: the error must come back and must not disturb other handles
				dsn := "file:" + spec.Files[op.File].Path + "?lrucache=true&lrucachesize=notanumber"
				if op.N == 1 {
					dsn = "file:" + spec.Files[op.File].Path + ".does-not-exist"
				}
				bad, err := sql.Open("updog", dsn)
				if err == nil {
					var qerr error
					if p, msg, _ := vf.Try(func() {
						var rows *sql.Rows
						rows, qerr = bad.Query(spec.Files[op.File].Queries[0].Text)
						if qerr == nil {
							rows.Close()
						}
					}); p {
						add("op %d: query on an unopenable data source panicked: %s", oi, msg)
					} else if qerr == nil {
						add("op %d: query on the unopenable data source %q succeeded", oi, dsn)
					}
					vf.Try(func() { bad.Close() })
				}
				res.BadOpens++
			case "query", "stmt":
				hd := handles[op.H]
				if hd == nil || hd.closed {
					continue
				}
				for _, o := range handles {
					if o != hd && o.used && !o.closed && o.file == hd.file {
						if o.opts != hd.opts {
							res.TwoOptionOverlap++
						} else {
							res.SameOptionShare++
						}
						break
					}
				}
				hd.used = true
				runQuery(hd, op.Q, op.Op == "stmt")
				if k := keysLive(); k > res.MaxKeysLive {
					res.MaxKeysLive = k
				}
			case "burst":
				hd := handles[op.H]
				if hd == nil || hd.closed {
					continue
				}
				if !hd.used {
					res.BurstRounds++
					res.BurstGoroutines += op.N
				}
				hd.used = true
				var wg, ready sync.WaitGroup
				gate := make(chan struct{})
				var mu sync.Mutex
				for g := 0; g < op.N; g++ {
					wg.Add(1)
					ready.Add(1)
					go func(g int) {
						defer wg.Done()
						ready.Done()
						<-gate
						// the verdict of this goroutine's query is merged under the mutex
						f := spec.Files[hd.file]
						q := f.Queries[(op.Q+g)%len(f.Queries)]
						e := exps[hd.file][(op.Q+g)%len(f.Queries)]
						var rows *sql.Rows
						var err error
						p, msg, _ := vf.Try(func() {
							if len(q.Args) > 0 && g%2 == 0 {
								// bound arguments, different for every goroutine of the burst
								args := make([]any, len(q.Args))
								for i, a := range q.Args {
									args[i] = c17ArgForm(a, i+g)
								}
								rows, err = hd.db.Query(q.ArgText, args...)
							} else {
								rows, err = hd.db.Query(q.Text)
							}
						})
						var v string
						switch {
						case p:
							v = fmt.Sprintf("concurrent first use: query %q panicked: %s", q.Text, msg)
						case e.want.Err:
							if err == nil {
								rows.Close()
								v = fmt.Sprintf("query %q must be rejected", q.Text)
							}
						case err != nil:
							v = fmt.Sprintf("concurrent first use: query %q failed: %v", q.Text, err)
						default:
							got, rerr := readRows(rows)
							if rerr != nil {
								v = rerr.Error()
							} else if d := compareTables(got, expectedTable(e.want, e.gb)); d != "" {
								v = fmt.Sprintf("concurrent first use: query %q: %s", q.Text, d)
							}
						}
						mu.Lock()
						res.Queries++
						if v != "" && len(res.Violations) < 5 {
							res.Violations = append(res.Violations, v)
						}
						mu.Unlock()
					}(g)
				}
				ready.Wait()
				close(gate)
				wg.Wait()
				if k := keysLive(); k > res.MaxKeysLive {
					res.MaxKeysLive = k
				}
			case "churn":
				// several goroutines open their own handle on the same data source, query and close, a few times each:
				// the last Close of one goroutine races with the Open of another
				f := spec.Files[op.File]
				var wg sync.WaitGroup
				var mu sync.Mutex
				gate := make(chan struct{})
				for g := 0; g < op.N; g++ {
					wg.Add(1)
					go func(g int) {
						defer wg.Done()
						<-gate
						iters := 6
						if op.K > 0 {
							iters = op.K
						}
						for it := 0; it < iters; it++ {
							qi := (op.Q + g + it) % len(f.Queries)
							q, e := f.Queries[qi], exps[op.File][qi]
							var v string
							p, msg, _ := vf.Try(func() {
								db, err := sql.Open("updog", "file:"+f.Path+op.Opts)
								if err != nil {
									v = "sql.Open: " + err.Error()
									return
								}
								defer db.Close()
								rows, err := db.Query(q.Text)
								switch {
								case e.want.Err:
									if err == nil {
										rows.Close()
										v = fmt.Sprintf("query %q must be rejected", q.Text)
									}
								case err != nil:
									v = fmt.Sprintf("open/query/close churn: query %q failed: %v", q.Text, err)
								default:
									got, rerr := readRows(rows)
									if rerr != nil {
										v = rerr.Error()
									} else if d := compareTables(got, expectedTable(e.want, e.gb)); d != "" {
										v = fmt.Sprintf("open/query/close churn: query %q: %s", q.Text, d)
									}
								}
							})
							if p {
								v = "open/query/close churn panicked: " + msg
							}
							mu.Lock()
							res.Queries++
							if v != "" && len(res.Violations) < 5 {
								res.Violations = append(res.Violations, v)
							}
							mu.Unlock()
							if p {
								return
							}
						}
					}(g)
				}
				close(gate)
				wg.Wait()
				res.ChurnRounds++
				if len(res.Violations) == 0 && liveUsed(op.File) == 0 {
					free, perr := lockFreeSoon(f.Path)
					res.LockProbes++
					if perr != nil || !free {
						add("op %d: after the open/query/close churn on file %d the file is still locked", oi, op.File)
					}
				}
			case "ping":
				hd := handles[op.H]
				if hd == nil || hd.closed {
					continue
				}
				var perr error
				if p, msg, _ := vf.Try(func() { perr = hd.db.Ping() }); p {
					add("op %d: Ping panicked: %s", oi, msg)
				} else if perr != nil {
					add("op %d: Ping on an open handle failed: %v", oi, perr)
				}
				hd.used = true
				res.Pings++
			case "conn":
				// one raw connection: ping it, query through it, give it back
				hd := handles[op.H]
				if hd == nil || hd.closed {
					continue
				}
				hd.used = true
				ctx := context.Background()
				var c *sql.Conn
				var cerr error
				if p, msg, _ := vf.Try(func() { c, cerr = hd.db.Conn(ctx) }); p || cerr != nil {
					add("op %d: Conn: %s %v", oi, msg, cerr)
					continue
				}
				if p, msg, _ := vf.Try(func() { cerr = c.PingContext(ctx) }); p || cerr != nil {
					add("op %d: PingContext on a raw connection: %s %v", oi, msg, cerr)
				}
				runQueryVia(hd, op.Q, false, func(text string) (*sql.Rows, error) { return c.QueryContext(ctx, text) })
				if p, msg, _ := vf.Try(func() { cerr = c.Close() }); p || cerr != nil {
					add("op %d: closing a raw connection: %s %v", oi, msg, cerr)
				}
				res.RawConns++
			case "txbegin":
				hd := handles[op.H]
				if hd == nil || hd.closed || txs[op.N] != nil {
					continue
				}
				var tx *sql.Tx
				var terr error
				if p, msg, _ := vf.Try(func() { tx, terr = hd.db.Begin() }); p || terr != nil {
					add("op %d: Begin: %s %v", oi, msg, terr)
					continue
				}
				hd.used = true
				for _, o := range txs {
					if o.hd.file == hd.file {
						res.TxOverlaps++
						break
					}
				}
				txs[op.N] = &txh{tx, hd}
				res.Transactions++
			case "txquery":
				t := txs[op.N]
				if t == nil {
					continue
				}
				runQueryVia(t.hd, op.Q, false, func(text string) (*sql.Rows, error) { return t.tx.Query(text) })
			case "txend":
				t := txs[op.N]
				if t == nil {
					continue
				}
				delete(txs, op.N)
				var terr error
				if p, msg, _ := vf.Try(func() {
					if op.K == 0 {
						terr = t.tx.Commit()
					} else {
						terr = t.tx.Rollback()
					}
				}); p || terr != nil {
					add("op %d: ending a transaction (rollback=%v): %s %v", oi, op.K == 1, msg, terr)
				}
			case "pingchurn":
				// N goroutines ping and query handle H while three others open, query and close handles on another file
				hd := handles[op.H]
				if hd == nil || hd.closed {
					continue
				}
				hd.used = true
				other := spec.Files[op.File]
				iters := op.K
				var wg sync.WaitGroup
				var mu sync.Mutex
				fail := func(v string) {
					mu.Lock()
					if len(res.Violations) < 5 {
						res.Violations = append(res.Violations, v)
					}
					mu.Unlock()
				}
				for g := 0; g < op.N; g++ {
					wg.Add(1)
					go func(g int) {
						defer wg.Done()
						f := spec.Files[hd.file]
						for it := 0; it < iters; it++ {
							qi := (op.Q + g + it) % len(f.Queries)
							q, e := f.Queries[qi], exps[hd.file][qi]
							p, msg, _ := vf.Try(func() {
								if err := hd.db.Ping(); err != nil {
									fail("ping during open/close churn on another file: " + err.Error())
									return
								}
								rows, err := hd.db.Query(q.Text)
								switch {
								case e.want.Err:
									if err == nil {
										rows.Close()
										fail(fmt.Sprintf("query %q must be rejected", q.Text))
									}
								case err != nil:
									fail(fmt.Sprintf("ping+query: query %q failed: %v", q.Text, err))
								default:
									got, rerr := readRows(rows)
									if rerr != nil {
										fail(rerr.Error())
									} else if d := compareTables(got, expectedTable(e.want, e.gb)); d != "" {
										fail(fmt.Sprintf("ping+query: query %q: %s", q.Text, d))
									}
								}
							})
							if p {
								fail("ping+query panicked: " + msg)
								return
							}
						}
					}(g)
				}
				for g := 0; g < 3; g++ {
					wg.Add(1)
					go func(g int) {
						defer wg.Done()
						for it := 0; it < iters; it++ {
							qi := (op.Q + g + it) % len(other.Queries)
							q, e := other.Queries[qi], exps[op.File][qi]
							p, msg, _ := vf.Try(func() {
								db, err := sql.Open("updog", "file:"+other.Path+op.Opts)
								if err != nil {
									fail("sql.Open: " + err.Error())
									return
								}
								defer db.Close()
								rows, err := db.Query(q.Text)
								if err == nil {
									got, rerr := readRows(rows)
									if rerr == nil && !e.want.Err {
										if d := compareTables(got, expectedTable(e.want, e.gb)); d != "" {
											fail(fmt.Sprintf("churn next to ping+query: query %q: %s", q.Text, d))
										}
									}
								} else if !e.want.Err {
									fail(fmt.Sprintf("churn next to ping+query: query %q failed: %v", q.Text, err))
								}
							})
							if p {
								fail("churn next to ping+query panicked: " + msg)
								return
							}
						}
					}(g)
				}
				wg.Wait()
				res.PingChurnRounds++
				res.Pings += op.N * iters
			case "close":
				hd := handles[op.H]
				if hd == nil || hd.closed {
					continue
				}
				for slot, t := range txs {
					if t.hd == hd {
						vf.Try(func() { _ = t.tx.Rollback() })
						delete(txs, slot)
					}
				}
				var cerr error
				if p, msg, _ := vf.Try(func() { cerr = hd.db.Close() }); p {
					add("op %d: Close panicked: %s", oi, msg)
					continue
				}
				if cerr != nil {
					add("op %d: Close failed: %v", oi, cerr)
				}
				hd.closed = true
				if liveUsed(hd.file) == 0 {
					anyOpen := false
					for _, x := range handles {
						if x.file == hd.file && !x.closed {
							anyOpen = true
						}
					}
					if !anyOpen {
						everClosedAll[hd.file] = true
					}
					// the last handle that had touched the file is closed: the file must be released
					free, perr := lockFreeSoon(spec.Files[hd.file].Path)
					res.LockProbes++
					if perr != nil || !free {
						add("op %d: after the last Close on file %d the file is still locked (probe error: %v)", oi, hd.file, perr)
					}
				} else {
					if free, _ := mon.LockFree(spec.Files[hd.file].Path); !free {
						res.HeldProbes++
					}
				}
			}
		}
		// wind down: end every transaction, close everything, then every file must be free
		for slot, t := range txs {
			vf.Try(func() { _ = t.tx.Rollback() })
			delete(txs, slot)
		}
		for _, hd := range handles {
			if !hd.closed && len(res.Violations) == 0 {
				vf.Try(func() { _ = hd.db.Close() })
				hd.closed = true
			}
		}
		if len(res.Violations) == 0 {
			for fi, f := range spec.Files {
				if _, serr := os.Stat(f.Path); serr != nil {
					continue // the late file is not there outside its histories
				}
				free, perr := lockFreeSoon(f.Path)
				res.LockProbes++
				if perr != nil || !free {
					add("at the end of the history file %d is still locked although every handle is closed", fi)
				}
			}
		}
		res.Done = true
		if err := enc.Encode(res); err != nil {
			return 3
		}
		if len(res.Violations) > 0 {
			// a violated history may have poisoned database/sql or leaked a lock: stop this child
			return 0
		}
	}
	return 0
}

// c17GenHistory generates one history over 2-3 files and the option strings.
func c17GenHistory(rng *rand.Rand, id string, nfiles, nq int) c17History {
	h := c17History{ID: id}
	next := 0
	open := func(file int, opts string) int {
		h.Ops = append(h.Ops, c17Op{Op: "open", H: next, File: file, Opts: opts})
		next++
		return next - 1
	}
	q := func(hd int) {
		op := "query"
		if rng.Intn(3) == 0 {
			op = "stmt"
		}
		h.Ops = append(h.Ops, c17Op{Op: op, H: hd, Q: rng.Intn(nq)})
	}
	closeH := func(hd int) { h.Ops = append(h.Ops, c17Op{Op: "close", H: hd}) }
	switch rng.Intn(15) {
	case 14: // a handle without idle connections (its driver connection, and with it the index and its mapping, goes away
		// after every statement while the sql.DB and whatever it keeps per handle live on), next to handles on OTHER files
		// that are opened, queried and kept, so that address space freed by one index is taken by another
		f := rng.Intn(nfiles)
		o := c17OptStrings[2+rng.Intn(3)] // with an LRU cache
		hd := open(f, o)
		h.Ops = append(h.Ops, c17Op{Op: "idle0", H: hd})
		var others []int
		for i := 0; i < 4+rng.Intn(6); i++ {
			for k := 0; k < 1+rng.Intn(3); k++ {
				q(hd)
			}
			if len(others) < 3 || rng.Intn(2) == 0 {
				oh := open((f+1+rng.Intn(nfiles-1))%nfiles, c17OptStrings[rng.Intn(len(c17OptStrings))])
				q(oh)
				others = append(others, oh)
			} else {
				k := rng.Intn(len(others))
				closeH(others[k])
				others = append(others[:k], others[k+1:]...)
			}
			if rng.Intn(3) == 0 {
				h.Ops = append(h.Ops, c17Op{Op: "burst", H: hd, Q: rng.Intn(nq), N: 2 + rng.Intn(5)})
			}
		}
		q(hd)
		for _, oh := range others {
			q(oh)
			closeH(oh)
		}
		q(hd)
		closeH(hd)
	case 13: // first use of fresh handles under contexts that end within microseconds, then close: the file must be free
		f := rng.Intn(nfiles)
		o := c17OptStrings[rng.Intn(len(c17OptStrings))]
		for i := 0; i < 3+rng.Intn(5); i++ {
			hd := open(f, o)
			h.Ops = append(h.Ops, c17Op{Op: "ctx-first-use", H: hd, Q: rng.Intn(nq), K: []int{1, 5, 20, 50, 100, 200, 400, 800, 1500, 3000}[rng.Intn(10)]})
			if rng.Intn(2) == 0 {
				q(hd)
			}
			closeH(hd)
		}
	case 11: // a handle on a file that does not exist yet: errors first, correct rows once the file is there
		o := c17OptStrings[rng.Intn(len(c17OptStrings))]
		late := nfiles // index of the late file
		hd := open(late, o)
		if rng.Intn(2) == 0 {
			h.Ops = append(h.Ops, c17Op{Op: "burst-expect-error", H: hd, Q: rng.Intn(nq), N: 2 + rng.Intn(15)})
		}
		h.Ops = append(h.Ops, c17Op{Op: "expect-error", H: hd, Q: rng.Intn(nq)})
		if rng.Intn(2) == 0 {
			h.Ops = append(h.Ops, c17Op{Op: "expect-error", H: hd, Q: rng.Intn(nq)})
		}
		h.Ops = append(h.Ops, c17Op{Op: "appear", File: late})
		q(hd)
		hd2 := open(late, o)
		q(hd2)
		if rng.Intn(2) == 0 {
			h.Ops = append(h.Ops, c17Op{Op: "burst", H: hd2, Q: rng.Intn(nq), N: 2 + rng.Intn(15)})
		}
		closeH(hd)
		q(hd2)
		closeH(hd2)
		h.Ops = append(h.Ops, c17Op{Op: "vanish", File: late})
	case 12: // the three files under their relative names, same options, alive at once
		o := c17OptStrings[rng.Intn(len(c17OptStrings))]
		var hs []int
		for _, f := range rng.Perm(nfiles) {
			h.Ops = append(h.Ops, c17Op{Op: "open", H: next, File: f, Opts: o, N: 1})
			hs = append(hs, next)
			next++
		}
		for i := 0; i < 4+rng.Intn(6); i++ {
			q(hs[rng.Intn(len(hs))])
		}
		for _, hd := range hs {
			closeH(hd)
		}
	case 8: // transactions, possibly overlapping, on one handle or on two handles on one file (no connection limit set)
		f := rng.Intn(nfiles)
		o := c17OptStrings[rng.Intn(len(c17OptStrings))]
		hs := []int{open(f, o)}
		if rng.Intn(2) == 0 {
			o2 := o
			if rng.Intn(2) == 0 {
				o2 = c17OptStrings[rng.Intn(len(c17OptStrings))]
			}
			hs = append(hs, open(f, o2))
		}
		var openTx []int
		slot := 0
		for i := 0; i < 4+rng.Intn(10); i++ {
			switch {
			case len(openTx) < 3 && rng.Intn(3) == 0:
				h.Ops = append(h.Ops, c17Op{Op: "txbegin", H: hs[rng.Intn(len(hs))], N: slot})
				openTx = append(openTx, slot)
				slot++
			case len(openTx) > 0 && rng.Intn(3) == 0:
				k := rng.Intn(len(openTx))
				h.Ops = append(h.Ops, c17Op{Op: "txend", N: openTx[k], K: rng.Intn(2)})
				openTx = append(openTx[:k], openTx[k+1:]...)
			case len(openTx) > 0 && rng.Intn(2) == 0:
				h.Ops = append(h.Ops, c17Op{Op: "txquery", N: openTx[rng.Intn(len(openTx))], Q: rng.Intn(nq)})
			default:
				q(hs[rng.Intn(len(hs))])
			}
		}
		for _, sl := range openTx {
			h.Ops = append(h.Ops, c17Op{Op: "txend", N: sl, K: rng.Intn(2)})
		}
		for _, hd := range hs {
			closeH(hd)
		}
		// and the file is usable again
		hd := open(f, o)
		q(hd)
		closeH(hd)
	case 9: // Ping and queries on one handle while handles on another file are opened and closed
		f := rng.Intn(nfiles)
		hd := open(f, c17OptStrings[rng.Intn(len(c17OptStrings))])
		if rng.Intn(2) == 0 {
			h.Ops = append(h.Ops, c17Op{Op: "ping", H: hd})
		}
		h.Ops = append(h.Ops, c17Op{Op: "pingchurn", H: hd, File: (f + 1 + rng.Intn(nfiles-1)) % nfiles, Opts: c17OptStrings[rng.Intn(len(c17OptStrings))], N: 2 + rng.Intn(7), Q: rng.Intn(nq), K: 20 + rng.Intn(60)})
		q(hd)
		closeH(hd)
	case 10: // Ping, raw connections and queries in turn
		f := rng.Intn(nfiles)
		hd := open(f, c17OptStrings[rng.Intn(len(c17OptStrings))])
		for i := 0; i < 3+rng.Intn(6); i++ {
			switch rng.Intn(3) {
			case 0:
				h.Ops = append(h.Ops, c17Op{Op: "ping", H: hd})
			case 1:
				h.Ops = append(h.Ops, c17Op{Op: "conn", H: hd, Q: rng.Intn(nq)})
			default:
				q(hd)
			}
		}
		closeH(hd)
	case 6: // open/query/close churn by several goroutines on one data source, possibly next to a live handle
		f := rng.Intn(nfiles)
		o := c17OptStrings[rng.Intn(len(c17OptStrings))]
		if rng.Intn(2) == 0 {
			hd := open(f, o)
			q(hd)
			h.Ops = append(h.Ops, c17Op{Op: "churn", File: f, Opts: o, N: 2 + rng.Intn(7), Q: rng.Intn(nq)})
			q(hd)
			closeH(hd)
		} else {
			h.Ops = append(h.Ops, c17Op{Op: "churn", File: f, Opts: o, N: 2 + rng.Intn(15), Q: rng.Intn(nq)})
		}
	case 7: // no idle connections + concurrent queries: the driver connection is closed and reopened all the time
		f := rng.Intn(nfiles)
		hd := open(f, c17OptStrings[rng.Intn(len(c17OptStrings))])
		h.Ops = append(h.Ops, c17Op{Op: "idle0", H: hd}, c17Op{Op: "pool", H: hd, N: 0})
		h.Ops = h.Ops[:len(h.Ops)-1]
		for k := 0; k < 3; k++ {
			h.Ops = append(h.Ops, c17Op{Op: "burst", H: hd, Q: rng.Intn(nq), N: 4 + rng.Intn(13)})
		}
		closeH(hd)
	case 0: // close-all-then-reopen, several times
		f := rng.Intn(nfiles)
		o := c17OptStrings[rng.Intn(len(c17OptStrings))]
		for i := 0; i < 2+rng.Intn(3); i++ {
			hd := open(f, o)
			q(hd)
			q(hd)
			closeH(hd)
		}
	case 1: // two handles, same options, alive at once
		f := rng.Intn(nfiles)
		o := c17OptStrings[rng.Intn(len(c17OptStrings))]
		a, b := open(f, o), open(f, o)
		q(a)
		q(b)
		closeH(a)
		q(b)
		closeH(b)
		c := open(f, o)
		q(c)
		closeH(c)
	case 2: // two handles, different options, alive at once
		f := rng.Intn(nfiles)
		i := rng.Intn(len(c17OptStrings))
		a, b := open(f, c17OptStrings[i]), open(f, c17OptStrings[(i+1+rng.Intn(len(c17OptStrings)-1))%len(c17OptStrings)])
		q(a)
		q(b)
		q(a)
		if rng.Intn(2) == 0 {
			closeH(a)
			q(b)
			closeH(b)
		} else {
			closeH(b)
			q(a)
			closeH(a)
		}
	case 3: // concurrent first use of a fresh handle
		f := rng.Intn(nfiles)
		hd := open(f, c17OptStrings[rng.Intn(len(c17OptStrings))])
		h.Ops = append(h.Ops, c17Op{Op: "pool", H: hd, N: 1 + rng.Intn(8)})
		h.Ops = append(h.Ops, c17Op{Op: "burst", H: hd, Q: rng.Intn(nq), N: []int{2, 4, 8, 16}[rng.Intn(4)]})
		q(hd)
		closeH(hd)
		hd2 := open(f, c17OptStrings[rng.Intn(len(c17OptStrings))])
		h.Ops = append(h.Ops, c17Op{Op: "burst", H: hd2, Q: rng.Intn(nq), N: 2 + rng.Intn(15)})
		closeH(hd2)
	default: // random walk
		var live []int
		for i := 0; i < 6+rng.Intn(14); i++ {
			switch {
			case len(live) == 0 || rng.Intn(4) == 0:
				live = append(live, open(rng.Intn(nfiles), c17OptStrings[rng.Intn(len(c17OptStrings))]))
				switch rng.Intn(6) {
				case 0, 1:
					h.Ops = append(h.Ops, c17Op{Op: "pool", H: live[len(live)-1], N: 1 + rng.Intn(8)})
				case 2:
					h.Ops = append(h.Ops, c17Op{Op: "idle0", H: live[len(live)-1]})
				case 3:
					h.Ops = append(h.Ops, c17Op{Op: "lifetime", H: live[len(live)-1]})
				}
			case rng.Intn(12) == 0:
				h.Ops = append(h.Ops, c17Op{Op: "open-bad", File: rng.Intn(nfiles), N: rng.Intn(2)})
			case rng.Intn(4) == 0:
				k := rng.Intn(len(live))
				closeH(live[k])
				live = append(live[:k], live[k+1:]...)
			case rng.Intn(6) == 0:
				h.Ops = append(h.Ops, c17Op{Op: "burst", H: live[rng.Intn(len(live))], Q: rng.Intn(nq), N: 2 + rng.Intn(7)})
			default:
				q(live[rng.Intn(len(live))])
			}
		}
	}
	return h
}

func runC17(r *vf.Run) {
	r.Rule("one evaluation = one history over {sql.Open, Query, Prepare+Stmt.Query, SetMaxOpenConns, Close, N goroutines using a fresh handle at once, Ping, raw connections, transactions (overlapping, committed or rolled back), Ping+Query next to open/close churn on another file, three files under relative names that differ only in leading dots and slashes, a file that is written after its handle was first used} on 3 index files x 4 option strings, executed in a child built with the race detector; " +
		"every query's rows are compared with the row oracle, after the last Close on a file an exclusive non-blocking flock on a fresh descriptor must succeed, a hang is decided by classifying the goroutine dump of the watchdog; " +
		"distinct_nontrivial = distinct histories (operation sequences)")
	r.Assume("hang verdicts come from goroutine states in the SIGQUIT dump (blocked in bbolt.flock / driver.openFile), not from elapsed time alone", "schedules of the concurrent-first-use bursts are those the runs produced")
	if !haveBin("vcheck.race") {
		r.Inconclusive("race-detector build of the harness not available")
		return
	}
	rng := r.RNG("c17")
	dir := filepath.Join(r.Scratch, "c17")
	mustMkdir(dir)
	var spec c17Spec
	for fi := 0; fi < 3; fi++ {
		ds := identDataset(rng, fmt.Sprintf("f%d", fi), 50+rng.Intn(400), false)
		for len(ds.Cols) == 0 {
			ds = identDataset(rng, fmt.Sprintf("f%d", fi), 50+rng.Intn(400), false)
		}
		p := filepath.Join(dir, fmt.Sprintf("f%d.updog", fi))
		if err := ix.Build(ix.Writers[fi], p, ds.Rows); err != nil {
			r.Violation("c17", "build", err.Error())
			return
		}
		f := c17File{Path: p, Rows: ds.Rows}
		cols := ds.ColNames()
		for qi := 0; qi < 12; qi++ {
			e := gen.Expr(rng, ds, cols, rng.Intn(3), 3)
			gb := gen.GroupBy(rng, ds, rng.Intn(3), 500)
			if qi == 5 {
				e = oracle.Eq(cols[0], "nothing matches this")
				gb = cols[:1]
			}
			if qi == 7 {
				e = oracle.Eq("nosuchcolumn", "1")
			}
			cq := c17Query{Text: gen.FormatQuery(e, gb), E: e, GB: gb}
			if tmpl, _, strArgs := withPlaceholders(rng, e); len(strArgs) > 0 {
				cq.ArgText, cq.Args = gen.FormatQuery(tmpl, gb), strArgs
			}
			if qi == 9 || qi == 10 {
				// (round 7) one placeholder number used by several comparisons: $1 twice, or $1 $2 $1
				c0, c1 := cols[0], cols[len(cols)-1]
				v1, v2 := "x", "y"
				if len(ds.Vals[c0]) > 0 {
					v1 = ds.Vals[c0][rng.Intn(len(ds.Vals[c0]))]
				}
				if len(ds.Vals[c1]) > 0 {
					v2 = ds.Vals[c1][rng.Intn(len(ds.Vals[c1]))]
				}
				if qi == 9 {
					e = oracle.Or(oracle.Eq(c0, v1), oracle.Eq(c1, v1))
					cq = c17Query{Text: gen.FormatQuery(e, gb), E: e, GB: gb, ArgText: gen.FormatQuery(oracle.Or(oracle.PhEq(c0, 1), oracle.PhEq(c1, 1)), gb), Args: []string{v1}}
				} else {
					e = oracle.And(oracle.Eq(c0, v1), oracle.Or(oracle.Eq(c1, v2), oracle.Not(oracle.Eq(c0, v1))))
					cq = c17Query{Text: gen.FormatQuery(e, gb), E: e, GB: gb, ArgText: gen.FormatQuery(oracle.And(oracle.PhEq(c0, 1), oracle.Or(oracle.PhEq(c1, 2), oracle.Not(oracle.PhEq(c0, 1)))), gb), Args: []string{v1, v2}}
				}
			}
			f.Queries = append(f.Queries, cq)
		}
		spec.Files = append(spec.Files, f)
	}
	nh := r.Pick(500, 20000)
	var all []c17History
	// regression block: the three histories of the repaired defects
	all = append(all,
		c17History{ID: "regress-reopen", Ops: []c17Op{{Op: "open", H: 0, File: 0}, {Op: "query", H: 0, Q: 1}, {Op: "close", H: 0}, {Op: "open", H: 1, File: 0}, {Op: "query", H: 1, Q: 1}, {Op: "close", H: 1}}},
		c17History{ID: "regress-two-options", Ops: []c17Op{{Op: "open", H: 0, File: 1}, {Op: "open", H: 1, File: 1, Opts: "?preload=true"}, {Op: "query", H: 0, Q: 2}, {Op: "query", H: 1, Q: 2}, {Op: "close", H: 0}, {Op: "close", H: 1}}},
		c17History{ID: "regress-first-use-16", Ops: []c17Op{{Op: "open", H: 0, File: 2}, {Op: "pool", H: 0, N: 16}, {Op: "burst", H: 0, Q: 0, N: 16}, {Op: "close", H: 0}}},
	)
	// stress block: the last Close of one handle against the Open of another on the same data source, many times;
	// and one handle without idle connections under concurrent queries
	for i := 0; i < r.Pick(6, 24); i++ {
		o := c17OptStrings[i%len(c17OptStrings)]
		all = append(all, c17History{ID: fmt.Sprintf("stress-churn-%d", i), Ops: []c17Op{{Op: "churn", File: i % 3, Opts: o, N: 4 + 4*(i%3), Q: i, K: r.Pick(150, 400)}}})
		var ops []c17Op
		ops = append(ops, c17Op{Op: "open", H: 0, File: (i + 1) % 3, Opts: o}, c17Op{Op: "idle0", H: 0})
		for k := 0; k < r.Pick(12, 40); k++ {
			ops = append(ops, c17Op{Op: "burst", H: 0, Q: k, N: 8 + 8*(k%2)})
		}
		ops = append(ops, c17Op{Op: "close", H: 0})
		all = append(all, c17History{ID: fmt.Sprintf("stress-idle0-%d", i), Ops: ops})
	}
	for i := 0; i < r.Pick(3, 10); i++ {
		o := c17OptStrings[i%len(c17OptStrings)]
		all = append(all, c17History{ID: fmt.Sprintf("stress-pingchurn-%d", i), Ops: []c17Op{{Op: "open", H: 0, File: i % 3, Opts: o}, {Op: "ping", H: 0},
			{Op: "pingchurn", H: 0, File: (i + 1) % 3, Opts: c17OptStrings[(i+2)%len(c17OptStrings)], N: 8, Q: i, K: r.Pick(150, 500)}, {Op: "query", H: 0, Q: i}, {Op: "close", H: 0}}})
	}
	// overlapping transactions: one handle; two handles with the same options
	all = append(all,
		c17History{ID: "tx-overlap-one-handle", Ops: []c17Op{{Op: "open", H: 0, File: 0}, {Op: "txbegin", H: 0, N: 0}, {Op: "txbegin", H: 0, N: 1}, {Op: "txquery", N: 0, Q: 1}, {Op: "txquery", N: 1, Q: 2},
			{Op: "txend", N: 0, K: 0}, {Op: "txend", N: 1, K: 0}, {Op: "query", H: 0, Q: 3}, {Op: "close", H: 0}, {Op: "open", H: 1, File: 0}, {Op: "query", H: 1, Q: 1}, {Op: "close", H: 1}}},
		c17History{ID: "tx-overlap-two-handles", Ops: []c17Op{{Op: "open", H: 0, File: 1, Opts: "?preload=true"}, {Op: "open", H: 1, File: 1, Opts: "?preload=true"}, {Op: "txbegin", H: 0, N: 0}, {Op: "txbegin", H: 1, N: 1},
			{Op: "txquery", N: 1, Q: 4}, {Op: "txend", N: 1, K: 1}, {Op: "txquery", N: 0, Q: 4}, {Op: "txend", N: 0, K: 0}, {Op: "close", H: 0}, {Op: "close", H: 1}}},
	)
	all = append(all,
		c17History{ID: "relative-names", Ops: []c17Op{{Op: "open", H: 0, File: 0, N: 1}, {Op: "open", H: 1, File: 1, N: 1}, {Op: "open", H: 2, File: 2, N: 1}, {Op: "open", H: 3, File: 0, N: 1},
			{Op: "query", H: 0, Q: 1}, {Op: "query", H: 1, Q: 1}, {Op: "query", H: 2, Q: 1}, {Op: "query", H: 3, Q: 2}, {Op: "query", H: 1, Q: 3}, {Op: "close", H: 0}, {Op: "query", H: 2, Q: 4},
			{Op: "close", H: 1}, {Op: "close", H: 2}, {Op: "close", H: 3}}},
		c17History{ID: "late-file", Ops: []c17Op{{Op: "open", H: 0, File: 3, Opts: "?preload=true"}, {Op: "expect-error", H: 0, Q: 1}, {Op: "appear", File: 3}, {Op: "query", H: 0, Q: 1},
			{Op: "open", H: 1, File: 3, Opts: "?preload=true"}, {Op: "query", H: 1, Q: 2}, {Op: "close", H: 0}, {Op: "close", H: 1}, {Op: "vanish", File: 3}}},
		c17History{ID: "late-file-first-use-16", Ops: []c17Op{{Op: "open", H: 0, File: 3}, {Op: "burst-expect-error", H: 0, Q: 1, N: 16}, {Op: "expect-error", H: 0, Q: 2}, {Op: "burst-expect-error", H: 0, Q: 3, N: 16}, {Op: "appear", File: 3},
			{Op: "burst", H: 0, Q: 0, N: 16}, {Op: "query", H: 0, Q: 3}, {Op: "close", H: 0}, {Op: "vanish", File: 3}}},
	)
	for i := 0; i < nh; i++ {
		id := fmt.Sprintf("h%04d", i)
		all = append(all, c17GenHistory(r.RNG(id), id, len(spec.Files), 12))
	}
	// chunks of histories per child; each child gets its own copy of the files (lock probes must not see other children)
	const per = 20
	var ids []string
	chunks := map[string][]c17History{}
	for i := 0; i < len(all); i += per {
		id := fmt.Sprintf("chunk%03d", i/per)
		ids = append(ids, id)
		chunks[id] = all[i:min(i+per, len(all))]
	}
	var hangs int64
	r.ForEach(ids, 8, func(cid string) {
		todo := chunks[cid]
		if atomic.LoadInt64(&hangs) >= 3 {
			// three classified hangs are witness enough; every further one would cost a full watchdog period
			r.Count("histories_skipped_after_three_hangs", int64(len(todo)))
			return
		}
		if r.Replay() {
			// the child carries state from one history to the next (connection cache, caches inside the driver), so a
			// replay runs the chunk from its start up to and including the recorded history
			last := -1
			for i, h := range todo {
				if r.Want(cid + "/" + h.ID) {
					last = i
				}
			}
			todo = todo[:last+1]
		}
		attempt := 0
		for len(todo) > 0 && attempt < 40 && atomic.LoadInt64(&hangs) < 3 {
			attempt++
			cdir := filepath.Join(dir, fmt.Sprintf("%s-%d", cid, attempt))
			mustMkdir(cdir)
			wdir := filepath.Join(cdir, "w")
			mustMkdir(wdir)
			sub := c17Spec{Histories: todo, Cwd: wdir}
			for fi, f := range spec.Files {
				// three different files whose names, seen from the child's working directory, differ only in leading
				// dots and slashes
				p := []string{filepath.Join(wdir, "x+1.updog"), filepath.Join(cdir, "x+1.updog"), filepath.Join(wdir, ".x+1.updog")}[fi]
				_ = ix.CopyFile(f.Path, p)
				sub.Files = append(sub.Files, c17File{Rel: []string{"x+1.updog", "../x+1.updog", ".x+1.updog"}[fi], Path: p, Rows: f.Rows, Queries: f.Queries})
			}
			// a fourth data source whose file does not exist until a history writes it
			sub.Files = append(sub.Files, c17File{Path: filepath.Join(wdir, "late.updog"), Rows: spec.Files[0].Rows, Queries: spec.Files[0].Queries})
			specPath := filepath.Join(cdir, "spec.gob")
			if err := writeSpec(specPath, sub); err != nil {
				r.Inconclusive("cannot write the child's case specification: " + err.Error())
				return
			}
			logp := filepath.Join(cdir, "race.log")
			res := runChild(r, binPath("vcheck.race"), []string{"worker", "c17-histories", specPath}, childOpts{Timeout: 90 * time.Second, RaceLog: logp})
			// which histories completed?
			doneN := 0
			dec := json.NewDecoder(strings.NewReader(res.Stdout))
			for dec.More() {
				var hr c17Result
				if err := dec.Decode(&hr); err != nil {
					break
				}
				doneN++
				hid := cid + "/" + hr.ID
				r.Eval(1)
				r.Count("histories", 1)
				r.Count("queries", int64(hr.Queries))
				r.Count("handles", int64(hr.Handles))
				r.Count("reopen_after_close_events", int64(hr.ReopenAfterClose))
				r.Count("concurrent_first_use_rounds", int64(hr.BurstRounds))
				r.Count("concurrent_first_use_goroutines", int64(hr.BurstGoroutines))
				r.Count("two_option_overlaps", int64(hr.TwoOptionOverlap))
				r.Count("same_option_shared_handles", int64(hr.SameOptionShare))
				r.Count("lock_probes", int64(hr.LockProbes))
				r.Count("lock_probe_saw_held_file", int64(hr.HeldProbes))
				r.Count("unopenable_data_sources_tried", int64(hr.BadOpens))
				r.Count("open_query_close_churn_rounds", int64(hr.ChurnRounds))
				r.Count("pings", int64(hr.Pings))
				r.Count("transactions", int64(hr.Transactions))
				r.Count("transactions_overlapping_on_one_file", int64(hr.TxOverlaps))
				r.Count("raw_connections_used", int64(hr.RawConns))
				r.Count("ping_next_to_open_close_churn_rounds", int64(hr.PingChurnRounds))
				r.Count("queries_on_a_handle_whose_file_does_not_exist_yet", int64(hr.MissingFileQueries))
				r.Count("opens_by_relative_name", int64(hr.RelativeOpens))
				r.Count("first_uses_whose_context_ended_first", int64(hr.CtxExpiredFirstUses))
				r.Max("distinct_file_option_keys_live_at_once", int64(hr.MaxKeysLive))
				for _, v := range hr.Violations {
					var hist c17History
					for _, x := range todo {
						if x.ID == hr.ID {
							hist = x
						}
					}
					r.Violation(hid, "history", map[string]any{"problem": v, "history": hist.Ops})
					break
				}
			}
			var running string
			if doneN < len(todo) {
				running = todo[doneN].ID
			}
			nraces := checkRaceLog(r, cid+"/"+running, logp)
			if res.TimedOut {
				atomic.AddInt64(&hangs, 1)
				var hist c17History
				if doneN < len(todo) {
					hist = todo[doneN]
				}
				hangVerdict(r, cid+"/"+running, res, map[string]any{"history": hist.Ops, "explanation": "the history did not complete; the goroutine dump shows where it is parked"})
				todo = todo[min(doneN+1, len(todo)):]
				continue
			}
			if res.Code != 0 && doneN < len(todo) {
				if strings.Contains(res.Stderr, "panic:") || strings.Contains(res.Stderr, "fatal error:") {
					r.Violation(cid+"/"+running, "crash", map[string]any{"history": todo[doneN].Ops, "stderr": tail(res.Stderr, 8000)})
				} else if nraces == 0 {
					r.Inconclusive(fmt.Sprintf("%s: child exit %d: %s", cid, res.Code, tail(res.Stderr, 300)))
				}
				todo = todo[min(doneN+1, len(todo)):]
				continue
			}
			// the child stops after a violated history: continue with the rest in a fresh child
			todo = todo[min(doneN, len(todo)):]
			os.RemoveAll(cdir)
		}
	})
	for _, h := range all {
		r.Distinct(fmt.Sprint(h.Ops))
	}
	r.Sample("history", all[5])
	r.Sample("history", all[1])
	r.Floor("reopen after close", r.GetCount("reopen_after_close_events") >= 1)
	r.Floor("two option strings on one file alive at once", r.GetCount("two_option_overlaps") >= 1)
	r.Floor(">= 10 concurrent first-use rounds", r.GetCount("concurrent_first_use_rounds") >= 10)
	r.Floor("lock probes performed", r.GetCount("lock_probes") >= 10)
	r.Floor("overlapping transactions on one file", r.GetCount("transactions_overlapping_on_one_file") >= 1)
	r.Floor("Ping next to open/close churn on another file", r.GetCount("ping_next_to_open_close_churn_rounds") >= 1)
	r.Floor("files opened under relative names", r.GetCount("opens_by_relative_name") >= 3)
	r.Floor("a file that appears after its handle was first used", r.GetCount("queries_on_a_handle_whose_file_does_not_exist_yet") >= 1)
	r.Floor("the lock probe saw a held file (probe works)", r.GetCount("lock_probe_saw_held_file") >= 1)
}

// lockFreeSoon probes the file lock; database/sql may close an expired connection from its cleaner goroutine a
// moment after DB.Close returned, so the probe is repeated for a bounded time. A leaked handle never goes away, so
// waiting cannot turn a leak into a pass.
func lockFreeSoon(path string) (bool, error) {
	var free bool
	var err error
	for i := 0; i < 300; i++ {
		free, err = mon.LockFree(path)
		if err != nil || free {
			return free, err
		}
		time.Sleep(10 * time.Millisecond)
	}
	return free, err
}

// c17ArgForm hands a string argument to database/sql in one of the forms callers use for it: as it is, as a
// sql.NullString, or through a pointer. All three stand for the same string.
func c17ArgForm(a string, k int) any {
	switch k % 3 {
	case 1:
		return sql.NullString{String: a, Valid: true}
	case 2:
		return &a
	}
	return a
}
