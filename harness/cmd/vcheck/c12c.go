package main

import (
	"database/sql"
	"fmt"
	"path/filepath"
	"strings"
	"sync"
	"sync/atomic"

	"github.com/akrennmair/updog/verifharness/gen"
	"github.com/akrennmair/updog/verifharness/ix"
	"github.com/akrennmair/updog/verifharness/oracle"
	"github.com/akrennmair/updog/verifharness/vf"
)

// c12LargeTexts (round 6): query texts that are large in one dimension only -- many negations side by side, many
// parenthesised groups side by side, deep parentheses, long NOT chains, wide operators -- on every DSN option set, on
// the direct and on the prepared path. Whatever the text layer counts or buffers (operators seen, nesting, tokens) is
// driven past 100, 128, 256, 1000 and 1024 while the meaning stays checkable by the row oracle.
func c12LargeTexts(r *vf.Run) {
	if !r.Want("largetexts") {
		return
	}
	ds := &gen.Dataset{ID: "largetexts"}
	for i := 0; i < 420; i++ {
		row := oracle.Row{"a": fmt.Sprint(i % 7), "b": fmt.Sprint(i % 5), "c": fmt.Sprint((i / 35) % 4)}
		if i%11 == 3 {
			delete(row, "b")
		}
		ds.Rows = append(ds.Rows, row)
	}
	// rows whose value of column a is a long string: literals of those lengths appear in the texts below
	longLens := []int{4096, 65532, 65533, 65534, 65535, 65536, 65537, 70001, 300001}
	for _, n := range longLens {
		ds.Rows = append(ds.Rows, oracle.Row{"a": strings.Repeat("L", n), "b": "1", "c": fmt.Sprint(n % 4)})
		ds.Rows = append(ds.Rows, oracle.Row{"a": strings.Repeat("L", n-1) + `"`, "b": "2"})
	}
	ds.Index()
	dir := filepath.Join(r.Scratch, "largetexts")
	mustMkdir(dir)
	path := filepath.Join(dir, "ds.updog")
	if err := ix.Build(ix.Writers[int(r.Seed)%3], path, ds.Rows); err != nil {
		r.Violation("largetexts", "build", err.Error())
		return
	}
	leaf := func(i int) *oracle.Expr {
		switch i % 3 {
		case 0:
			return oracle.Eq("a", fmt.Sprint(i%9)) // 7 and 8 do not occur
		case 1:
			return oracle.Eq("b", fmt.Sprint(i%6))
		}
		return oracle.Eq("c", fmt.Sprint(i%4))
	}
	type shape struct {
		name string
		e    *oracle.Expr
	}
	var shapes []shape
	sizes := []int{99, 100, 101, 127, 128, 129, 255, 256, 257, 1000, 1001, 1023, 1024, 1025}
	if r.Thorough() {
		sizes = append(sizes, 4095, 4096, 4097, 10000)
	}
	for _, n := range sizes {
		// n negated comparisons side by side (nesting depth 1)
		var nots, groups, plain []*oracle.Expr
		for i := 0; i < n; i++ {
			nots = append(nots, oracle.Not(leaf(i)))
			groups = append(groups, oracle.Or(leaf(i), leaf(i+1)))
			plain = append(plain, leaf(i))
		}
		shapes = append(shapes, shape{fmt.Sprintf("and-of-%d-negations", n), oracle.And(nots...)})
		shapes = append(shapes, shape{fmt.Sprintf("or-of-%d-negations", n), oracle.Or(nots...)})
		shapes = append(shapes, shape{fmt.Sprintf("and-of-%d-parenthesised-groups", n), oracle.And(groups...)})
		shapes = append(shapes, shape{fmt.Sprintf("or-of-%d-comparisons", n), oracle.Or(plain...)})
		// a NOT chain of n and of n+1 (the parity decides the answer)
		c := leaf(n)
		for i := 0; i < n; i++ {
			c = oracle.Not(c)
		}
		shapes = append(shapes, shape{fmt.Sprintf("not-chain-%d", n), c})
		// n levels of alternating parenthesised operators
		d := leaf(n)
		for i := 0; i < n; i++ {
			if i%2 == 0 {
				d = oracle.And(d, leaf(i))
			} else {
				d = oracle.Or(d, leaf(i))
			}
		}
		shapes = append(shapes, shape{fmt.Sprintf("nested-%d-levels", n), d})
		// negations spread over several parenthesised groups: total n, never more than three deep
		var spread []*oracle.Expr
		for i := 0; i < n; i += 3 {
			spread = append(spread, oracle.And(oracle.Not(leaf(i)), oracle.Not(oracle.Not(leaf(i+1)))))
		}
		shapes = append(shapes, shape{fmt.Sprintf("or-of-groups-with-%d-negations", n), oracle.Or(spread...)})
	}
	for _, n := range longLens {
		shapes = append(shapes, shape{fmt.Sprintf("literal-of-%d-bytes", n), oracle.Eq("a", strings.Repeat("L", n))})
		shapes = append(shapes, shape{fmt.Sprintf("literal-of-%d-bytes-ending-in-a-quote", n), oracle.Or(oracle.Eq("b", "0"), oracle.Eq("a", strings.Repeat("L", n-1)+`"`))})
		shapes = append(shapes, shape{fmt.Sprintf("literal-of-%d-bytes-below-not", n), oracle.And(oracle.Not(oracle.Eq("a", strings.Repeat("L", n))), oracle.Eq("b", "1"))})
	}
	for oi, o := range dsnOptionSets {
		cid := "largetexts/" + o.name
		if !r.Want(cid) {
			continue
		}
		db, err := sql.Open("updog", "file:"+path+o.opts)
		if err != nil {
			r.Violation(cid, "sql.Open", err.Error())
			return
		}
		bad := 0
		panicked, msg, _ := vf.Try(func() {
			for si, s := range shapes {
				if bad >= 3 {
					break
				}
				var gb []string
				if si%2 == 1 {
					gb = []string{"c"}
				}
				text := gen.FormatQuery(s.e, gb)
				want := oracle.Eval(ds.Rows, ds.Cols, s.e, gb)
				r.Eval(1)
				var rows *sql.Rows
				var qerr error
				if (si+oi)%2 == 0 {
					rows, qerr = db.Query(text)
				} else {
					var st *sql.Stmt
					st, qerr = db.Prepare(text)
					if qerr == nil {
						rows, qerr = st.Query()
						defer st.Close()
					}
				}
				w := map[string]any{"shape": s.name, "group_by": gb, "options": o.name, "text_bytes": len(text), "text_head": head(text, 200)}
				if qerr != nil {
					w["error"] = qerr.Error()
					r.Violation(cid, "unexpected-error", w)
					bad++
					continue
				}
				got, rerr := readRows(rows)
				if rerr != nil {
					w["error"] = rerr.Error()
					r.Violation(cid, "rows", w)
					bad++
					continue
				}
				if d := compareTables(got, expectedTable(want, gb)); d != "" {
					w["difference"] = d
					r.Violation(cid, "rows", w)
					bad++
				}
				r.Cover("large_text_shapes", s.name)
			}
		})
		if panicked {
			r.Violation(cid, "panic", map[string]any{"panic": msg})
			continue
		}
		r.Distinct(cid)
		db.Close()
	}
}

// c12SameTextConcurrently (round 6): the default connection pool hands one file connection to several goroutines'
// statements. Eight goroutines send the SAME query text with their own arguments (direct path and one shared prepared
// statement) on one handle per DSN option set; each must get the rows for its own arguments.
func c12SameTextConcurrently(r *vf.Run) {
	if !r.Want("sametext") {
		return
	}
	ds := &gen.Dataset{ID: "sametext"}
	for i := 0; i < 3000; i++ {
		ds.Rows = append(ds.Rows, oracle.Row{"a": fmt.Sprint(i % 8), "b": fmt.Sprint((i / 8) % (1 + i%8)), "c": fmt.Sprint(i % 3)})
	}
	ds.Index()
	dir := filepath.Join(r.Scratch, "sametext")
	mustMkdir(dir)
	path := filepath.Join(dir, "ds.updog")
	if err := ix.Build(ix.Writers[int(r.Seed)%3], path, ds.Rows); err != nil {
		r.Violation("sametext", "build", err.Error())
		return
	}
	tmpl, gb := oracle.And(oracle.PhEq("a", 1), oracle.Not(oracle.PhEq("c", 2))), []string{"b"}
	text := gen.FormatQuery(tmpl, gb)
	for _, o := range dsnOptionSets {
		cid := "sametext/" + o.name
		if !r.Want(cid) {
			continue
		}
		db, err := sql.Open("updog", "file:"+path+o.opts)
		if err != nil {
			r.Violation(cid, "sql.Open", err.Error())
			return
		}
		st, err := db.Prepare(text)
		if err != nil {
			r.Violation(cid, "prepare", err.Error())
			db.Close()
			continue
		}
		var wg sync.WaitGroup
		var bad, done atomic.Int64
		for g := 0; g < 8; g++ {
			wg.Add(1)
			go func(g int) {
				defer wg.Done()
				args := []string{fmt.Sprint(g), fmt.Sprint(g % 3)}
				sub, _ := oracle.Substitute(tmpl, args)
				want := expectedTable(oracle.Eval(ds.Rows, ds.Cols, sub, gb), gb)
				for i := 0; i < r.Pick(150, 1500) && bad.Load() == 0; i++ {
					var rows *sql.Rows
					var err error
					if i%2 == 0 {
						rows, err = db.Query(text, args[0], args[1])
					} else {
						rows, err = st.Query(args[0], args[1])
					}
					var t sqlTable
					if err == nil {
						t, err = readRows(rows)
					}
					done.Add(1)
					d := ""
					if err != nil {
						d = err.Error()
					} else {
						d = compareTables(t, want)
					}
					if d != "" && bad.Add(1) == 1 {
						r.Violation(cid, "rows-under-concurrency", map[string]any{"text": text, "args": args, "difference": d, "options": o.name,
							"note": "8 goroutines send the same text with their own arguments on one handle (default pool)"})
					}
				}
			}(g)
		}
		wg.Wait()
		r.Eval(int(done.Load()))
		r.Count("same_text_concurrent_statements", done.Load())
		r.Distinct(cid)
		st.Close()
		db.Close()
	}
}
