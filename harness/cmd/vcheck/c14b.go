package main

import (
	"context"
	"fmt"
	"net"
	"os"
	"os/exec"
	"path/filepath"
	"syscall"
	"time"

	"google.golang.org/grpc/codes"
	"google.golang.org/grpc/status"

	pb "github.com/akrennmair/updog/proto/updog/v1"
	"github.com/akrennmair/updog/verifharness/oracle"
	"github.com/akrennmair/updog/verifharness/vf"
)

// c14Stderr (round 7): the server under the two kinds of standard error a supervisor hands to a daemon and then forgets:
// a pipe whose reader has gone away (a write kills the process with SIGPIPE) and a pipe nobody drains (writes block once
// 64 KiB are queued). Seven hundred requests the library rejects (unknown column, unknown group-by column, alternating
// with valid queries of known answer) are sent one after the other: every one gets a response or an RPC error within its
// deadline and the process stays alive. Whether answering a request depends on somebody reading the server's diagnostics
// cannot be seen with a log file as stderr.
func c14Stderr(r *vf.Run, index string, valid []c04Query) {
	for _, mode := range []string{"stderr-reader-gone", "stderr-not-drained"} {
		cid := "server/" + mode
		if !r.Want(cid) {
			continue
		}
		r.Progress(cid)
		port := freePort()
		addr := fmt.Sprintf("127.0.0.1:%d", port)
		pr, pw, err := os.Pipe()
		if err != nil {
			r.Inconclusive(cid + ": pipe: " + err.Error())
			continue
		}
		outF, _ := os.Create(filepath.Join(r.Scratch, "server-"+mode+".out"))
		cmd := exec.Command(binPath("updog"), "server", "-l", addr, "-d", "127.0.0.1:0", "-f", index)
		cmd.Stdout = outF
		cmd.Stderr = pw
		cmd.SysProcAttr = &syscall.SysProcAttr{Setpgid: true, Pdeathsig: syscall.SIGKILL}
		if err := cmd.Start(); err != nil {
			r.Inconclusive(cid + ": start: " + err.Error())
			pr.Close()
			pw.Close()
			continue
		}
		pw.Close()
		if mode == "stderr-reader-gone" {
			pr.Close()
		}
		exited := make(chan struct{})
		go func() { _ = cmd.Wait(); close(exited) }()
		alive := func() bool {
			select {
			case <-exited:
				return false
			default:
				return true
			}
		}
		cleanup := func() {
			if alive() {
				_ = syscall.Kill(-cmd.Process.Pid, syscall.SIGKILL)
				<-exited
			}
			if mode != "stderr-reader-gone" {
				pr.Close()
			}
			outF.Close()
		}
		up := false
		for t0 := time.Now(); time.Since(t0) < 60*time.Second && alive(); time.Sleep(50 * time.Millisecond) {
			if c, err := net.DialTimeout("tcp", addr, 200*time.Millisecond); err == nil {
				c.Close()
				up = true
				break
			}
		}
		if !up {
			if !alive() {
				// nothing was asked of it yet: a server that cannot even start with such a stderr
				r.Violation(cid, "server-died-at-start", map[string]any{"stderr_kind": mode})
			} else {
				r.Inconclusive(cid + ": server did not start listening within 60 s")
			}
			cleanup()
			continue
		}
		conn, cl, err := dial(addr)
		if err != nil {
			r.Inconclusive(cid + ": dial: " + err.Error())
			cleanup()
			continue
		}
		bad := false
		n := 0
		for i := 0; i < 700 && !bad; i++ {
			var req *pb.QueryRequest
			var want *c04Query
			switch i % 3 {
			case 0:
				req = &pb.QueryRequest{Queries: []*pb.Query{{Expr: oracle.Eq(fmt.Sprintf("no_such_column_%d", i), "x").ToProto()}}}
			case 1:
				req = &pb.QueryRequest{Queries: []*pb.Query{{Expr: valid[i%len(valid)].E.ToProto(), GroupBy: []string{fmt.Sprintf("no_such_group_by_column_%d_%s", i, "pad-pad-pad-pad-pad-pad-pad-pad-pad-pad-pad-pad-pad-pad-pad-pad")}}}}
			default:
				q := valid[i%len(valid)]
				want = &q
				req = &pb.QueryRequest{Queries: []*pb.Query{{Expr: q.E.ToProto(), GroupBy: q.GB}}}
			}
			ctx, cancel := context.WithTimeout(context.Background(), 20*time.Second)
			resp, err := cl.Query(ctx, req)
			cancel()
			r.Eval(1)
			n++
			w := map[string]any{"stderr_kind": mode, "request_number": i, "requests_the_library_rejects_so_far": i - i/3}
			switch {
			case want == nil && err == nil:
				// (C13 decides what the answer to an invalid query must be; here only: answered)
			case err != nil && (status.Code(err) == codes.Unavailable || status.Code(err) == codes.DeadlineExceeded):
				w["error"] = err.Error()
				w["server_process_alive"] = alive()
				kind := "server-stops-answering"
				if !alive() {
					kind = "server-crashed"
				}
				r.Violation(cid, kind, w)
				bad = true
			case want != nil && err != nil:
				w["error"] = err.Error()
				r.Violation(cid, "valid-query-rejected", w)
				bad = true
			case want != nil:
				if d := compareBatch(resp, []c04Query{*want}, nil); d != "" {
					w["difference"] = d
					r.Violation(cid, "probe-answer", w)
					bad = true
				}
			}
		}
		if !bad && !alive() {
			r.Violation(cid, "server-crashed", map[string]any{"stderr_kind": mode, "after_requests": n})
		}
		r.Count("requests_to_servers_with_unread_stderr", int64(n))
		r.Distinct(cid)
		conn.Close()
		cleanup()
	}
	_ = vf.Digest
}
