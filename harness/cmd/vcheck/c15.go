package main

import (
	"bytes"
	"encoding/gob"
	"errors"
	"fmt"
	"math/rand"
	"os"
	"path/filepath"
	"runtime/debug"
	"strings"
	"sync/atomic"
	"time"

	"github.com/RoaringBitmap/roaring"
	"github.com/akrennmair/updog"
	"github.com/akrennmair/updog/verifharness/gen"
	"github.com/akrennmair/updog/verifharness/ix"
	"github.com/akrennmair/updog/verifharness/mon"
	"github.com/akrennmair/updog/verifharness/oracle"
	"github.com/akrennmair/updog/verifharness/vf"
	"go.etcd.io/bbolt"
)

func init() { register("C15", "fault_enumeration", runC15) }

type damage struct {
	bucket, schema, counter, bitmaps string
}

func (d damage) String() string {
	return fmt.Sprintf("bucket=%s schema=%s counter=%s bitmaps=%s", d.bucket, d.schema, d.counter, d.bitmaps)
}

var (
	bucketKinds = []string{"ok", "absent", "other-name"}
	schemaKinds = []string{"ok", "absent", "empty", "trunc-1", "trunc-2", "trunc-5", "trunc-10", "trunc-half", "trunc-last3", "trunc-last1", "trunc-20", "bitflip", "other-gob-type", "garbage",
		// (round 7) a length or count field that overflows: the encodings of 2^63, 2^64-1, 2^32-1 and 2^31-1 as base-128
		// varints written over the schema value at an offset (from the start, or from the end when negative). Which
		// offsets hold lengths depends on the encoding in use; a decoder must survive them wherever they land.
		"lenovf:0", "lenovf:1", "lenovf:2", "lenovf:3", "lenovf:4", "lenovf:5", "lenovf:6", "lenovf:7", "lenovf:8", "lenovf:9", "lenovf:10", "lenovf:12", "lenovf:14", "lenovf:16", "lenovf:20",
		"lenovf:24", "lenovf:32", "lenovf:40", "lenovf:48", "lenovf:64", "lenovf:-16", "lenovf:-11", "lenovf:-6", "lenovf:-3"}
	counterKinds = []string{"ok", "absent", "len0", "len1", "len2", "len3", "len5", "len8"}
	bitmapKinds  = []string{"ok", "one-truncated", "all-truncated", "garbage", "empty", "short-key", "long-key", "foreign-key", "empty-serialised", "header-byte-zeroed"}
)

// mustFail: the property lists these as damage that must be reported as an error.
func (d damage) mustFail(preload bool) bool {
	if d.bucket != "ok" {
		return true
	}
	switch d.schema {
	case "absent", "empty", "trunc-1", "trunc-2", "trunc-5", "trunc-10", "trunc-half", "trunc-last3", "trunc-last1", "trunc-20":
		return true
	}
	if d.counter != "ok" {
		return true
	}
	return false
}

// mayFail: damage whose decodability cannot be known from outside (a flipped
// bit may leave a decodable gob; a truncated bitmap may still parse): error or
// success are both fine, a panic or a leaked lock is not.
func (d damage) mayFail(preload bool) bool {
	if d.schema == "bitflip" || d.schema == "other-gob-type" || d.schema == "garbage" || strings.HasPrefix(d.schema, "lenovf:") {
		return true
	}
	if d.bitmaps == "foreign-key" {
		return false // keys that are not bitmap entries do not make the file incomplete
	}
	return preload && d.bitmaps != "ok"
}

// applyDamage rewrites a copy of a valid index.
func applyDamage(path string, d damage, rng *rand.Rand) error {
	db, err := bbolt.Open(path, 0o644, &bbolt.Options{Timeout: 10 * time.Second, NoSync: true})
	if err != nil {
		return err
	}
	defer db.Close()
	return db.Update(func(tx *bbolt.Tx) error {
		b := tx.Bucket([]byte("data"))
		if b == nil {
			return fmt.Errorf("no data bucket in the valid index")
		}
		switch d.schema {
		case "ok":
		case "absent":
			_ = b.Delete([]byte("S"))
		case "empty":
			_ = b.Put([]byte("S"), []byte{})
		case "bitflip":
			s := append([]byte{}, b.Get([]byte("S"))...)
			i := rng.Intn(len(s))
			s[i] ^= 1 << uint(rng.Intn(8))
			_ = b.Put([]byte("S"), s)
		case "other-gob-type":
			var buf bytes.Buffer
			_ = gob.NewEncoder(&buf).Encode(map[string]int{"x": 1})
			_ = b.Put([]byte("S"), buf.Bytes())
		case "garbage":
			_ = b.Put([]byte("S"), []byte(gen.RandBytes(rng, 40)))
		default:
			if strings.HasPrefix(d.schema, "lenovf:") {
				s := append([]byte{}, b.Get([]byte("S"))...)
				var off int
				fmt.Sscanf(d.schema, "lenovf:%d", &off)
				if off < 0 {
					off += len(s)
				}
				if off < 0 {
					off = 0
				}
				pat := [][]byte{
					{0x80, 0x80, 0x80, 0x80, 0x80, 0x80, 0x80, 0x80, 0x80, 0x01}, // 2^63
					{0xff, 0xff, 0xff, 0xff, 0xff, 0xff, 0xff, 0xff, 0xff, 0x01}, // 2^64-1
					{0xff, 0xff, 0xff, 0xff, 0x0f},                               // 2^32-1
					{0xff, 0xff, 0xff, 0xff, 0x07},                               // 2^31-1
				}[rng.Intn(4)]
				if off < len(s) {
					copy(s[off:], pat)
				}
				_ = b.Put([]byte("S"), s)
				break
			}
			// truncations
			s := append([]byte{}, b.Get([]byte("S"))...)
			n := map[string]int{"trunc-1": 1, "trunc-2": 2, "trunc-5": 5, "trunc-10": 10, "trunc-20": 20, "trunc-half": len(s) / 2, "trunc-last3": len(s) - 3, "trunc-last1": len(s) - 1}[d.schema]
			if n > len(s)-1 {
				n = len(s) - 1
			}
			_ = b.Put([]byte("S"), s[:n])
		}
		switch d.counter {
		case "ok":
		case "absent":
			_ = b.Delete([]byte("I"))
		default:
			n := map[string]int{"len0": 0, "len1": 1, "len2": 2, "len3": 3, "len5": 5, "len8": 8}[d.counter]
			_ = b.Put([]byte("I"), make([]byte, n))
		}
		switch d.bitmaps {
		case "short-key":
			// a bitmap entry whose key is shorter than 'V' + 8 bytes
			_ = b.Put([]byte{'V', 1, 2, 3}, []byte{0x3a, 0x30, 0, 0, 0, 0, 0, 0})
			_ = b.Put([]byte{'V'}, []byte{})
		case "long-key":
			_ = b.Put(append([]byte{'V'}, bytes.Repeat([]byte{7}, 12)...), []byte{0x3a, 0x30, 0, 0, 0, 0, 0, 0})
		case "foreign-key":
			_ = b.Put([]byte("X-unknown"), []byte("whatever"))
			_ = b.Put([]byte{0}, []byte{1})
		}
		if d.bitmaps != "ok" && !strings.HasSuffix(d.bitmaps, "-key") {
			c := b.Cursor()
			var keys [][]byte
			for k, _ := c.Seek([]byte("V")); k != nil && bytes.HasPrefix(k, []byte("V")); k, _ = c.Next() {
				keys = append(keys, append([]byte{}, k...))
			}
			for i, k := range keys {
				v := append([]byte{}, b.Get(k)...)
				switch d.bitmaps {
				case "one-truncated":
					if i == len(keys)/2 {
						_ = b.Put(k, v[:len(v)/2])
					}
				case "all-truncated":
					_ = b.Put(k, v[:len(v)-1-rng.Intn(len(v)-1)])
				case "garbage":
					if i%2 == 0 {
						_ = b.Put(k, []byte(gen.RandBytes(rng, 8+rng.Intn(40))))
					}
				case "empty":
					if i%2 == 0 {
						_ = b.Put(k, []byte{})
					}
				case "empty-serialised":
					// a value that decodes fine, to a bitmap without any container
					if i%2 == 0 {
						eb, _ := roaring.New().ToBytes()
						_ = b.Put(k, eb)
					}
				case "header-byte-zeroed":
					// still plausible headers: container count / run count / first key zeroed
					if len(v) > 12 && i%2 == 0 {
						v[4+rng.Intn(8)] = 0
						_ = b.Put(k, v)
					}
				}
			}
		}
		switch d.bucket {
		case "absent":
			return tx.DeleteBucket([]byte("data"))
		case "other-name":
			nb, err := tx.CreateBucket([]byte("Data"))
			if err != nil {
				return err
			}
			c := b.Cursor()
			for k, v := c.First(); k != nil; k, v = c.Next() {
				_ = nb.Put(append([]byte{}, k...), append([]byte{}, v...))
			}
			return tx.DeleteBucket([]byte("data"))
		}
		return nil
	})
}

var c15Options = []string{"ondemand", "preloaded", "cached", "preloaded+cached"}

func c15Open(path, opt string) (*updog.Index, error) {
	var opts []updog.IndexOption
	if opt == "preloaded" || opt == "preloaded+cached" {
		opts = append(opts, updog.WithPreloadedData())
	}
	if opt == "cached" || opt == "preloaded+cached" {
		opts = append(opts, updog.WithCache(updog.NewLRUCache(10000)))
	}
	return updog.OpenIndex(path, opts...)
}

// tryOpen opens under recover; the lock probe BEFORE the call makes sure that
// the call cannot block on a handle leaked earlier (so no stopwatch is needed).
func tryOpen(r *vf.Run, caseID, path, opt string, w map[string]any) (idx *updog.Index, err error, ok bool) {
	if free, perr := mon.SharedLockable(path); perr == nil && !free {
		r.Violation(caseID, "file-still-locked-exclusively", w)
		return nil, nil, false
	}
	r.Count("lock_probes", 1)
	if atomic.LoadInt64(&c15OpenHangs) >= 3 {
		r.Count("opens_skipped_after_three_hangs", 1)
		return nil, nil, false
	}
	// bounded progress: an OpenIndex that does not return is judged by where its goroutine is parked (it is left behind;
	// the check goes on without it)
	type openOutcome struct {
		idx        *updog.Index
		err        error
		p          bool
		msg, stack string
	}
	ch := make(chan openOutcome, 1)
	go func() {
		var o openOutcome
		o.p, o.msg, o.stack = vf.Try(func() { o.idx, o.err = c15Open(path, opt) })
		ch <- o
	}()
	var o openOutcome
	select {
	case o = <-ch:
	case <-time.After(60 * time.Second):
		atomic.AddInt64(&c15OpenHangs, 1)
		stacks := joinStacks(mon.Stacks("updog"))
		if c := mon.ClassifyDump(stacks); c != "" {
			w["blocked"], w["stacks"] = c, head(stacks, 6000)
			w["explanation"] = "OpenIndex did not return within 60 s"
			r.Violation(caseID, "open-hangs", w)
		} else {
			r.Inconclusive(caseID + ": OpenIndex still running after 60 s")
		}
		return nil, nil, false
	}
	if o.p {
		w["panic"], w["stack"] = o.msg, head(o.stack, 2500)
		r.Violation(caseID, "open-panics", w)
		return nil, nil, false
	}
	if o.err != nil {
		// the error is what the caller logs, wraps and compares after the failed open (when the file is closed and
		// unmapped again): reading it must work. A fault while reading memory is turned into a panic for this goroutine.
		var text string
		p, msg, stack := vf.Try(func() {
			defer debug.SetPanicOnFault(debug.SetPanicOnFault(true))
			for e := o.err; e != nil; e = errors.Unwrap(e) {
				text = e.Error()
			}
			text = o.err.Error()
		})
		r.Count("error_values_read_after_failed_open", 1)
		if p {
			w["panic"], w["stack"] = msg, head(stack, 2500)
			w["explanation"] = "OpenIndex returned an error whose text cannot be read (Error() panics or touches memory that is gone)"
			r.Violation(caseID, "error-value-unusable", w)
			return nil, nil, false
		}
		if text == "" {
			r.Count("empty_error_texts", 1)
		}
	}
	return o.idx, o.err, true
}

// c15OpenHangs counts OpenIndex calls that did not return; after three the remaining opens of the run are skipped
// (each further one would only cost another watchdog period).
var c15OpenHangs int64

func runC15(r *vf.Run) {
	r.Rule("one evaluation = one OpenIndex call in a history on a file derived from a valid index by damaging a subset of its parts (bucket x schema x counter x bitmaps) with one option set, run under recover; " +
		"after every failed open and after every Close a fresh descriptor must obtain an exclusive non-blocking flock (no handle leaked); listed damage must yield an error; " +
		"positional part: one undecodable bitmap value at the first, middle and last positions of indexes with 65 to 3000+ bitmaps must fail preloading (also while other handles on the file are open, which must not keep the file held after their Close); " +
		"hostile gob schema (declared map count 2^32) opened in a child process; plus nonexistent path (must not be created), directory, zero-byte and non-bbolt files; distinct_nontrivial = distinct (damage, option set, history) triples")
	r.Assume("damage is applied through bbolt, so the files stay structurally valid bbolt files (page-level corruption is bbolt's business)",
		"bit-flipped/foreign gob schemas and damaged bitmaps may or may not decode: either outcome is accepted, a panic or a leaked lock is not")
	rng := r.RNG("c15")
	dir := filepath.Join(r.Scratch, "c15")
	mustMkdir(dir)
	// several valid base indexes
	type base struct {
		path string
		ds   *gen.Dataset
		ps   []probe
	}
	var bases []base
	for i, n := range []int{1, 40, 1500} {
		ds := identDataset(rng, fmt.Sprintf("base%d", i), n, i == 1)
		for len(ds.Cols) == 0 {
			ds = identDataset(rng, fmt.Sprintf("base%d", i), n, i == 1)
		}
		p := filepath.Join(dir, fmt.Sprintf("base%d.updog", i))
		if err := ix.Build(ix.Writers[i%3], p, ds.Rows); err != nil {
			r.Violation("c15", "build", err.Error())
			return
		}
		bases = append(bases, base{p, ds, probeSet(rng, ds, 30, 3)})
	}
	// the damage list: every single-part damage, then combinations
	var damages []damage
	for _, k := range bucketKinds[1:] {
		damages = append(damages, damage{k, "ok", "ok", "ok"})
	}
	for _, k := range schemaKinds[1:] {
		damages = append(damages, damage{"ok", k, "ok", "ok"})
	}
	for _, k := range counterKinds[1:] {
		damages = append(damages, damage{"ok", "ok", k, "ok"})
	}
	for _, k := range bitmapKinds[1:] {
		damages = append(damages, damage{"ok", "ok", "ok", k})
	}
	damages = append(damages, damage{"ok", "ok", "ok", "ok"})
	if r.Thorough() {
		for _, b := range bucketKinds {
			for _, s := range schemaKinds {
				for _, c := range counterKinds {
					for _, m := range bitmapKinds {
						damages = append(damages, damage{b, s, c, m})
					}
				}
			}
		}
	} else {
		for i := 0; i < 600; i++ {
			damages = append(damages, damage{bucketKinds[rng.Intn(3)], schemaKinds[rng.Intn(len(schemaKinds))], counterKinds[rng.Intn(len(counterKinds))], bitmapKinds[rng.Intn(len(bitmapKinds))]})
		}
	}
	var ids []string
	for i := range damages {
		ids = append(ids, fmt.Sprintf("dmg%04d", i))
	}
	var hangs int64
	r.ForEach(ids, 12, func(id string) {
		if atomic.LoadInt64(&hangs) >= 3 {
			r.Count("cases_skipped_after_three_hangs", 1)
			return
		}
		var di int
		fmt.Sscanf(id, "dmg%d", &di)
		d := damages[di]
		b := bases[di%len(bases)]
		r.Cover("damage_bucket", d.bucket)
		r.Cover("damage_schema", d.schema)
		r.Cover("damage_counter", d.counter)
		r.Cover("damage_bitmaps", d.bitmaps)
		for oi, opt := range c15Options {
			cid := fmt.Sprintf("%s/%s", id, opt)
			if !r.Want(cid) {
				continue
			}
			lrng := r.RNG(cid) // per-case stream (replay draws the same damage)
			preload := opt == "preloaded" || opt == "preloaded+cached"
			path := filepath.Join(dir, fmt.Sprintf("%s-%d.updog", id, oi))
			if err := ix.CopyFile(b.path, path); err != nil {
				panic(err)
			}
			if err := applyDamage(path, d, lrng); err != nil {
				r.Inconclusive("cannot build damaged file " + d.String() + ": " + err.Error())
				continue
			}
			r.Count("damaged_files", 1)
			history := []string{"open-fail-open", "open-close-close-open", "open-fail-fix-open"}[(di+oi)%3]
			r.Cover("histories", history)
			r.Cover("option_sets", opt)
			r.Distinct(d.String() + "|" + opt + "|" + history)
			w := func() map[string]any {
				return map[string]any{"damage": d.String(), "options": opt, "history": history, "base_rows": len(b.ds.Rows)}
			}
			steps := 2
			for s := 0; s < steps; s++ {
				idx, err, ok := tryOpen(r, cid, path, opt, w())
				r.Eval(1)
				if !ok {
					break
				}
				if err == nil && idx == nil {
					r.Violation(cid, "nil-index-without-error", w())
					break
				}
				if err != nil {
					r.Count("outcome_error", 1)
					if idx != nil {
						r.Violation(cid, "index-returned-with-error", w())
					}
					if !d.mustFail(preload) && !d.mayFail(preload) {
						ww := w()
						ww["error"] = err.Error()
						r.Violation(cid, "valid-parts-rejected", ww)
						break
					}
					// the file must be released at once
					if free, perr := mon.LockFree(path); perr != nil || !free {
						ww := w()
						ww["error_returned"] = err.Error()
						ww["probe"] = fmt.Sprint(perr)
						r.Violation(cid, "lock-kept-after-failed-open", ww)
						break
					}
					r.Count("lock_probes", 1)
					if history == "open-fail-fix-open" && s == 0 {
						// repair the file in place and open again: must succeed now
						if cerr := ix.CopyFile(b.path, path); cerr != nil {
							panic(cerr)
						}
						idx2, err2, ok2 := tryOpen(r, cid, path, opt, w())
						r.Eval(1)
						if ok2 && err2 != nil {
							ww := w()
							ww["error"] = err2.Error()
							r.Violation(cid, "repaired-file-rejected", ww)
						}
						if idx2 != nil {
							if _, dd := runProbes(idx2, b.ps); dd != "" {
								ww := w()
								ww["difference"] = dd
								r.Violation(cid, "repaired-file-wrong-answers", ww)
							}
							idx2.Close()
						}
						break
					}
					continue
				}
				r.Count("outcome_ok", 1)
				if d.mustFail(preload) {
					ww := w()
					ww["explanation"] = "OpenIndex accepted a file whose listed part is missing or malformed"
					idx.Close()
					r.Violation(cid, "damage-accepted", ww)
					break
				}
				// while open, the exclusive probe must fail: shows that the probe can see a held handle
				if free, _ := mon.LockFree(path); !free {
					r.Count("lock_probe_saw_open_handle", 1)
				}
				if d == (damage{"ok", "ok", "ok", "ok"}) {
					if _, dd := runProbes(idx, b.ps); dd != "" {
						ww := w()
						ww["difference"] = dd
						r.Violation(cid, "valid-index-wrong-answers", ww)
					}
				} else {
					// damaged but accepted (undecidable damage): queries must at least not take the process down
					vf.Try(func() { _, _ = runProbes(idx, b.ps[:min(5, len(b.ps))]) })
				}
				var c1, c2 error
				closed := make(chan [2]string, 1)
				go func() {
					var p bool
					var msg string
					p, msg, _ = vf.Try(func() {
						c1 = idx.Close()
						c2 = idx.Close()
						// "more than once" is not "exactly twice"
						if e := idx.Close(); e != nil && c2 == nil {
							c2 = e
						}
						if e := idx.Close(); e != nil && c2 == nil {
							c2 = e
						}
					})
					if p {
						closed <- [2]string{"panic", msg}
					} else {
						closed <- [2]string{"", ""}
					}
				}()
				var cres [2]string
				select {
				case cres = <-closed:
				case <-time.After(60 * time.Second):
					ww := w()
					stacks := joinStacks(mon.Stacks("updog"))
					ww["stacks"] = head(stacks, 6000)
					atomic.AddInt64(&hangs, 1)
					if c := mon.ClassifyDump(stacks); c != "" {
						ww["blocked"] = c
						r.Violation(cid, "close-hangs", ww)
					} else {
						r.Inconclusive(cid + ": repeated Close still running after 60 s")
					}
					return
				}
				if cres[0] == "panic" {
					ww := w()
					ww["panic"] = cres[1]
					r.Violation(cid, "close-panics", ww)
					break
				}
				if c1 != nil || c2 != nil {
					ww := w()
					ww["first_close"], ww["second_close"] = fmt.Sprint(c1), fmt.Sprint(c2)
					r.Violation(cid, "close-error", ww)
					break
				}
				r.Count("double_closes", 1)
				if free, perr := mon.LockFree(path); perr != nil || !free {
					r.Violation(cid, "lock-kept-after-close", w())
					break
				}
				r.Count("lock_probes", 1)
			}
			os.Remove(path)
		}
	})
	c15Positional(r, dir)
	c15GobCount(r, dir)
	c15ChildProcess(r, dir)
	c15RejectedQueries(r, dir)
	c15ForeignLock(r, dir)
	c15OptionLists(r)
	// special paths
	specials := []struct {
		name  string
		setup func(p string)
	}{
		{"nonexistent", func(p string) {}},
		{"directory", func(p string) { _ = os.Mkdir(p, 0o755) }},
		{"zero-byte", func(p string) { _ = os.WriteFile(p, nil, 0o644) }},
		{"random-bytes", func(p string) { _ = os.WriteFile(p, []byte(gen.RandBytes(rng, 40000)), 0o644) }},
		{"text-file", func(p string) { _ = os.WriteFile(p, []byte("a,b\n1,2\n"), 0o644) }},
		// (a valid index cut off in the middle is NOT in this list: it is not a structurally valid bbolt file, so the
		// property does not speak about it; bbolt panics with a page assertion on such a file)
		{"read-only-mode-valid", func(p string) { _ = ix.CopyFile(bases[1].path, p); _ = os.Chmod(p, 0o444) }},
	}
	for _, sp := range specials {
		for _, opt := range c15Options {
			cid := "special/" + sp.name + "/" + opt
			if !r.Want(cid) {
				continue
			}
			r.Guard(cid, func() {
				p := filepath.Join(dir, "special-"+sp.name+"-"+opt)
				sp.setup(p)
				before := mon.StatFile(p)
				w := map[string]any{"path_kind": sp.name, "options": opt}
				for attempt := 0; attempt < 2; attempt++ {
					var idx *updog.Index
					var err error
					type res struct{}
					done := make(chan res, 1)
					var panicked bool
					var msg string
					go func() {
						panicked, msg, _ = vf.Try(func() { idx, err = c15Open(p, opt) })
						done <- res{}
					}()
					select {
					case <-done:
					case <-time.After(60 * time.Second):
						stacks := mon.Stacks("updog")
						if c := mon.ClassifyDump(joinStacks(stacks)); c != "" {
							w["blocked"] = c
							r.Violation(cid, "open-hangs", w)
						} else {
							r.Inconclusive(cid + ": OpenIndex still running after 60 s")
						}
						return
					}
					r.Eval(1)
					r.Count("special_path_opens", 1)
					if panicked {
						w["panic"] = msg
						r.Violation(cid, "open-panics", w)
						return
					}
					if sp.name == "read-only-mode-valid" {
						if err != nil {
							w["error"] = err.Error()
							r.Violation(cid, "valid-read-only-file-rejected", w)
							return
						}
						idx.Close()
					} else if err == nil {
						idx.Close()
						r.Violation(cid, "non-index-accepted", w)
						return
					}
					if sp.name == "nonexistent" {
						if _, serr := os.Stat(p); serr == nil {
							r.Violation(cid, "nonexistent-path-created", w)
							return
						}
					} else if sp.name != "directory" {
						if after := mon.StatFile(p); !after.SameContent(before) {
							w["before"], w["after"] = before.String(), after.String()
							r.Violation(cid, "file-modified-by-failed-open", w)
							return
						}
						if free, perr := mon.LockFree(p); perr == nil && !free {
							r.Violation(cid, "lock-kept-after-failed-open", w)
							return
						}
					}
				}
				r.Distinct(cid)
			})
		}
	}
	r.Sample("damage", map[string]any{"example": damages[3].String(), "history": "open-fail-open", "expectation": "error, no panic, exclusive flock obtainable right after"})
	r.Floor("every bucket damage kind", r.Covered("damage_bucket") == len(bucketKinds))
	r.Floor("every schema damage kind", r.Covered("damage_schema") == len(schemaKinds))
	r.Floor("every counter damage kind", r.Covered("damage_counter") == len(counterKinds))
	r.Floor("every bitmap damage kind", r.Covered("damage_bitmaps") == len(bitmapKinds))
	r.Floor("every option set", r.Covered("option_sets") == len(c15Options))
	r.Floor("the lock probe saw an open handle (probe works)", r.GetCount("lock_probe_saw_open_handle") > 0)
	_ = oracle.Eq
}

func joinStacks(s []string) string {
	out := ""
	for _, x := range s {
		out += x + "\n\n"
	}
	return out
}
