package main

import (
	"crypto/sha256"
	"encoding/hex"
	"encoding/json"
	"fmt"
	"os"
	"path/filepath"
	"regexp"
	"strings"
	"sync"
	"syscall"
	"time"

	"github.com/akrennmair/updog"
	"github.com/akrennmair/updog/verifharness/ix"
	"github.com/akrennmair/updog/verifharness/oracle"
	"github.com/akrennmair/updog/verifharness/vf"
)

func init() { workers["c16-nofiles"] = workerC16NoFiles }

// workerC16NoFiles (round 7): Flush onto existing paths in a process that has no free file descriptor (the soft limit
// is lowered and /dev/null opened until EMFILE). The open of the output then fails with EMFILE, not with EEXIST -- and
// whatever the writer concludes from that, the file that was there stays what it was. Prints one JSON line per attempt.
func workerC16NoFiles(args []string) int {
	dir := args[0]
	type attempt struct {
		Kind, Writer string
		Err          string
		Before       string
		After        string
		Exists       bool
		Panic        string
	}
	var lim syscall.Rlimit
	_ = syscall.Getrlimit(syscall.RLIMIT_NOFILE, &lim)
	lim.Cur = 256
	if err := syscall.Setrlimit(syscall.RLIMIT_NOFILE, &lim); err != nil {
		fmt.Fprintln(os.Stderr, "setrlimit:", err)
		return 3
	}
	valid := filepath.Join(dir, "nofiles-valid.updog")
	rows := []oracle.Row{{"a": "1", "b": "x"}, {"a": "2"}, {"b": "y"}}
	if err := ix.Build(ix.WriterMemFile, valid, rows); err != nil {
		fmt.Fprintln(os.Stderr, err)
		return 3
	}
	vb, _ := os.ReadFile(valid)
	enc := json.NewEncoder(os.Stdout)
	digest := func(p string) string {
		b, err := os.ReadFile(p)
		if err != nil {
			return "unreadable: " + err.Error()
		}
		h := sha256.Sum256(b)
		return hex.EncodeToString(h[:8]) + fmt.Sprintf("/%d", len(b))
	}
	for _, kind := range []string{"empty", "valid-index", "random-bytes"} {
		for _, nvals := range []int{0, 3, 1200} {
			p := filepath.Join(dir, fmt.Sprintf("nofiles-%s-%d.updog", kind, nvals))
			switch kind {
			case "empty":
				_ = os.WriteFile(p, nil, 0o644)
			case "valid-index":
				_ = os.WriteFile(p, vb, 0o644)
			default:
				_ = os.WriteFile(p, []byte(strings.Repeat("not an index ", 400)), 0o644)
			}
			w := updog.NewIndexWriter(p)
			for i := 0; i < nvals; i++ {
				_, _ = w.AddRow(map[string]string{"v": fmt.Sprint(i), "k": fmt.Sprint(i % 3)})
			}
			a := attempt{Kind: kind, Writer: fmt.Sprintf("IndexWriter with %d values", nvals)}
			// (the digest is taken before the descriptors run out and after they are back)
			a.Before = digest(p)
			var held []*os.File
			for {
				f, err := os.Open("/dev/null")
				if err != nil {
					break
				}
				held = append(held, f)
			}
			pn, msg, _ := vf.Try(func() {
				if err := w.Flush(); err != nil {
					a.Err = err.Error()
				}
			})
			for _, f := range held {
				f.Close()
			}
			if pn {
				a.Panic = msg
			}
			_, serr := os.Lstat(p)
			a.Exists = serr == nil
			a.After = digest(p)
			_ = enc.Encode(a)
		}
	}
	return 0
}

// c16NoDescriptors runs the worker and judges its attempts.
func c16NoDescriptors(r *vf.Run) {
	cid := "no-free-descriptors"
	if !r.Want(cid) {
		return
	}
	dir := filepath.Join(r.Scratch, "nofiles")
	mustMkdir(dir)
	res := runChild(r, binPath("vcheck"), []string{"worker", "c16-nofiles", dir}, childOpts{Timeout: 3 * time.Minute})
	if res.TimedOut {
		hangVerdict(r, cid, res, nil)
		return
	}
	n := 0
	dec := json.NewDecoder(strings.NewReader(res.Stdout))
	for dec.More() {
		var a struct {
			Kind, Writer, Err, Before, After, Panic string
			Exists                                  bool
		}
		if dec.Decode(&a) != nil {
			break
		}
		n++
		r.Eval(1)
		w := map[string]any{"existing_file": a.Kind, "writer": a.Writer, "flush_error": a.Err, "digest_before": a.Before, "digest_after": a.After, "still_exists": a.Exists,
			"situation": "the process had no free file descriptor when Flush was called on a path that already exists"}
		switch {
		case a.Panic != "":
			w["panic"] = a.Panic
			r.Violation(cid+"/"+a.Kind, "panic", w)
		case !a.Exists || a.Before != a.After:
			r.Violation(cid+"/"+a.Kind, "existing-file-changed", w)
		case a.Err == "":
			r.Violation(cid+"/"+a.Kind, "write-onto-existing-path-succeeded", w)
		}
		r.Distinct(cid + "|" + a.Kind + "|" + a.Writer)
	}
	if n == 0 {
		r.Inconclusive(cid + ": the worker reported nothing: " + tail(res.Stderr, 300))
	}
	r.Count("flush_attempts_without_free_descriptors", int64(n))
}

var straceOpenat = regexp.MustCompile(`^\d+\s+(openat|open)\(`)

// c16FaultSweep (round 7): `updog create` (both modes) onto an existing output while ONE of its open calls fails with an
// error that has nothing to do with the output (EMFILE, ENOMEM, EACCES), for every position of the call in the command's
// run (strace fault injection). Whatever fails, the command must not exit 0 and the existing file stays what it was.
func c16FaultSweep(r *vf.Run) {
	if !haveBin("updog") {
		return
	}
	if _, err := os.Stat("/usr/bin/strace"); err != nil {
		r.Count("fault_sweep_skipped_no_strace", 1)
		return
	}
	dir := filepath.Join(r.Scratch, "faultsweep")
	mustMkdir(dir)
	in := filepath.Join(dir, "in.csv")
	var sb strings.Builder
	sb.WriteString("a,b\n")
	for i := 0; i < 1500; i++ {
		fmt.Fprintf(&sb, "%d,%d\n", i, i%7)
	}
	_ = os.WriteFile(in, []byte(sb.String()), 0o644)
	valid := filepath.Join(dir, "valid.updog")
	if err := ix.Build(ix.WriterMemFile, valid, []oracle.Row{{"x": "1"}, {"x": "2", "y": "z"}}); err != nil {
		r.Violation("fault-sweep", "build", err.Error())
		return
	}
	vb, _ := os.ReadFile(valid)
	for _, big := range []bool{false, true} {
		mode := "normal"
		if big {
			mode = "big"
		}
		// how many open calls does a refused run make?
		out := filepath.Join(dir, "existing-"+mode+".updog")
		_ = os.WriteFile(out, vb, 0o644)
		args := func(extra ...string) []string {
			a := []string{"-f", "-o", filepath.Join(dir, "trace-"+mode+".log"), "-e", "trace=openat,open"}
			a = append(a, extra...)
			a = append(a, binPath("updog"), "create", "-o", out)
			if big {
				a = append(a, "-b")
			}
			return append(a, in)
		}
		res := runChild(r, "/usr/bin/strace", args(), childOpts{Timeout: 2 * time.Minute})
		lb, _ := os.ReadFile(filepath.Join(dir, "trace-"+mode+".log"))
		total := 0
		for _, l := range strings.Split(string(lb), "\n") {
			if straceOpenat.MatchString(l) {
				total++
			}
		}
		if res.TimedOut || total == 0 {
			r.Inconclusive(fmt.Sprintf("fault-sweep/%s: reference run under strace failed", mode))
			continue
		}
		var ids []string
		type inj struct {
			n   int
			err string
		}
		byID := map[string]inj{}
		step := 1
		if r.Quick() && total > 24 {
			step = total / 24
		}
		for n := 1; n <= total+1; n += step {
			for _, e := range []string{"EMFILE", "ENOMEM", "EACCES"} {
				if r.Quick() && (n/step+len(e))%3 != 0 {
					continue // quick: one error kind per position, rotating
				}
				id := fmt.Sprintf("fault-sweep/%s/open%d-%s", mode, n, e)
				ids = append(ids, id)
				byID[id] = inj{n, e}
			}
		}
		r.ForEach(ids, 8, func(id string) {
			j := byID[id]
			o := filepath.Join(dir, fmt.Sprintf("existing-%s-%d-%s.updog", mode, j.n, j.err))
			_ = os.WriteFile(o, vb, 0o644)
			before := sha256.Sum256(vb)
			a := []string{"-f", "-o", "/dev/null", "-e", "trace=openat,open", "-e", fmt.Sprintf("inject=openat,open:error=%s:when=%d", j.err, j.n), binPath("updog"), "create", "-o", o}
			if big {
				a = append(a, "-b")
			}
			a = append(a, in)
			res := runChild(r, "/usr/bin/strace", a, childOpts{Timeout: 2 * time.Minute})
			r.Eval(1)
			r.Count("create_runs_with_an_injected_open_error", 1)
			w := map[string]any{"mode": mode, "injected": fmt.Sprintf("%s at the %d-th open call of a thread (of %d in a refused run)", j.err, j.n, total), "exit_code": res.Code, "stderr": head(res.Stderr, 400)}
			if res.TimedOut {
				hangVerdict(r, id, res, w)
				return
			}
			nb, err := os.ReadFile(o)
			if err != nil || sha256.Sum256(nb) != before {
				w["file_after"] = fmt.Sprintf("%d bytes, read error %v", len(nb), err)
				r.Violation(id, "existing-file-changed", w)
				return
			}
			if res.Code == 0 {
				r.Violation(id, "write-onto-existing-path-succeeded", w)
			}
			r.Distinct(id)
		})
	}
}

// c16WriterLifecycles (round 8): (1) ONE writer object flushed again after its Flush succeeded (an explicit Flush plus
// a deferred one): the second Flush fails and the file -- the writer's own output, or whatever has been put at the path
// since -- stays what it is. (2) Several writers flushed AT THE SAME TIME onto one path, with the directory present and
// with the directory missing: at most one Flush succeeds, and the file that exists afterwards is that writer's complete
// index; every other Flush returns an error.
func c16WriterLifecycles(r *vf.Run) {
	dir := filepath.Join(r.Scratch, "lifecycles")
	mustMkdir(dir)
	digest := func(p string) string {
		b, err := os.ReadFile(p)
		if err != nil {
			return "unreadable: " + err.Error()
		}
		h := sha256.Sum256(b)
		return hex.EncodeToString(h[:8]) + fmt.Sprintf("/%d", len(b))
	}
	mk := func(p string, n int, mark string) *updog.IndexWriter {
		w := updog.NewIndexWriter(p)
		for i := 0; i < n; i++ {
			_, _ = w.AddRow(map[string]string{"who": mark, "v": fmt.Sprint(i % 50)})
		}
		return w
	}
	if r.Want("same-writer-flushed-again") {
		for k, replace := range []string{"", "foreign-bytes", "empty-read-only"} {
			cid := fmt.Sprintf("same-writer-flushed-again/%d", k)
			p := filepath.Join(dir, fmt.Sprintf("again-%d.updog", k))
			w := mk(p, 10+1500*k%2000, "first")
			r.Eval(1)
			if err := w.Flush(); err != nil {
				r.Violation(cid, "build", err.Error())
				continue
			}
			switch replace {
			case "foreign-bytes":
				_ = os.Remove(p)
				_ = os.WriteFile(p, []byte("somebody else's file at this path"), 0o644)
			case "empty-read-only":
				_ = os.Remove(p)
				_ = os.WriteFile(p, nil, 0o444)
			}
			before := digest(p)
			for again := 0; again < 2; again++ {
				err := w.Flush()
				wit := map[string]any{"file_at_the_path": map[string]string{"": "the writer's own finished index"}[replace] + replace, "flush_number": again + 2, "digest_before": before, "digest_after": digest(p), "error": fmt.Sprint(err)}
				if _, serr := os.Lstat(p); serr != nil || digest(p) != before {
					r.Violation(cid, "existing-file-changed", wit)
					break
				}
				if err == nil {
					r.Violation(cid, "write-onto-existing-path-succeeded", wit)
					break
				}
			}
			_ = os.Chmod(p, 0o644)
			r.Count("writers_flushed_again_after_success", 1)
			r.Distinct(cid)
		}
	}
	if r.Want("simultaneous-flushes") {
		rounds := r.Pick(60, 600)
		for round := 0; round < rounds; round++ {
			cid := "simultaneous-flushes"
			sub := filepath.Join(dir, fmt.Sprintf("sim-%d", round))
			missing := round%2 == 0
			if !missing {
				mustMkdir(sub)
			}
			p := filepath.Join(sub, "out.updog")
			const n = 6
			ws := make([]*updog.IndexWriter, n)
			for i := range ws {
				ws[i] = mk(p, 20+i, fmt.Sprintf("writer-%d", i))
			}
			errs := make([]error, n)
			var wg sync.WaitGroup
			gate := make(chan struct{})
			for i := range ws {
				wg.Add(1)
				go func(i int) {
					defer wg.Done()
					<-gate
					errs[i] = ws[i].Flush()
				}(i)
			}
			close(gate)
			wg.Wait()
			r.Eval(1)
			var winners []int
			for i, e := range errs {
				if e == nil {
					winners = append(winners, i)
				}
			}
			wit := map[string]any{"round": round, "directory_existed": !missing, "flushes_that_returned_nil": winners, "errors": fmt.Sprint(errs)}
			if len(winners) > 1 {
				r.Violation(cid, "write-onto-existing-path-succeeded", wit)
				break
			}
			if len(winners) == 1 {
				idx, err := updog.OpenIndex(p)
				if err != nil {
					wit["open_error"] = err.Error()
					r.Violation(cid, "existing-file-changed", wit)
					break
				}
				res, qerr := idx.Execute(&updog.Query{Expr: &updog.ExprEqual{Column: "who", Value: fmt.Sprintf("writer-%d", winners[0])}})
				idx.Close()
				if qerr != nil || res.Count != uint64(20+winners[0]) {
					wit["winner_rows_found"] = fmt.Sprint(res, qerr)
					r.Violation(cid, "existing-file-changed", wit)
					break
				}
				r.Count("simultaneous_flush_rounds_with_one_winner", 1)
			} else {
				r.Count("simultaneous_flush_rounds_without_winner", 1)
			}
			os.RemoveAll(sub)
		}
		r.Distinct("simultaneous-flushes")
	}
}

// c16OddInvocations (round 9): `updog create` called in ways its usage text does not promise anything for -- several
// input files, the output naming an existing directory whose entries are named like the inputs, the same with --big --
// next to existing files. Whatever the command makes of such a call (today: a usage error), every file that existed
// before is still there, byte for byte.
func c16OddInvocations(r *vf.Run) {
	if !r.Want("odd-invocations") || !haveBin("updog") {
		return
	}
	dir := filepath.Join(r.Scratch, "odd-invocations")
	mustMkdir(dir)
	csv := func(name string, n int) string {
		p := filepath.Join(dir, name)
		var sb strings.Builder
		sb.WriteString("a,b\n")
		for i := 0; i < n; i++ {
			fmt.Fprintf(&sb, "%d,%d\n", i, i%3)
		}
		_ = os.WriteFile(p, []byte(sb.String()), 0o644)
		return p
	}
	first, second := csv("first.csv", 20), csv("second.csv", 1500)
	valid := filepath.Join(dir, "valid.updog")
	if err := ix.Build(ix.WriterMemFile, valid, []oracle.Row{{"x": "1"}, {"x": "2", "y": "z"}}); err != nil {
		r.Violation("odd-invocations", "build", err.Error())
		return
	}
	vb, _ := os.ReadFile(valid)
	k := 0
	for _, big := range []bool{false, true} {
		for _, shape := range []string{"two inputs, output directory holds files named like them", "two inputs, output is an existing index", "three inputs (one twice), output directory", "input named twice, output is one of the inputs' neighbours"} {
			k++
			cid := fmt.Sprintf("odd-invocations/%d", k)
			if !r.Want(cid) {
				continue
			}
			out := filepath.Join(dir, fmt.Sprintf("out-%d", k))
			mustMkdir(out)
			existing := map[string][]byte{
				filepath.Join(out, "first.updog"):      vb,
				filepath.Join(out, "second.updog"):     []byte("somebody else's bytes"),
				filepath.Join(out, "second.csv.updog"): vb,
				filepath.Join(out, "first.csv.updog"):  {},
			}
			for p, b := range existing {
				_ = os.WriteFile(p, b, 0o644)
			}
			args := []string{"create"}
			if big {
				args = append(args, "-b")
			}
			switch shape {
			case "two inputs, output directory holds files named like them":
				args = append(args, "-o", out, first, second)
			case "two inputs, output is an existing index":
				args = append(args, "-o", filepath.Join(out, "first.updog"), first, second)
			case "three inputs (one twice), output directory":
				args = append(args, first, second, first, "-o", out)
			default:
				args = append(args, "-o", filepath.Join(out, "second.updog"), second, second)
			}
			res := runChild(r, binPath("updog"), args, childOpts{Timeout: 2 * time.Minute, Dir: dir})
			r.Eval(1)
			w := map[string]any{"invocation": strings.Join(args, " "), "exit_code": res.Code, "stderr": head(res.Stderr, 300)}
			if res.TimedOut {
				hangVerdict(r, cid, res, w)
				continue
			}
			for p, b := range existing {
				nb, err := os.ReadFile(p)
				if err != nil || string(nb) != string(b) {
					w["file"], w["now"] = filepath.Base(p), fmt.Sprintf("%d bytes, read error %v", len(nb), err)
					r.Violation(cid, "existing-file-changed", w)
					break
				}
			}
			r.Count("create_invocations_with_several_inputs", 1)
			r.Distinct(cid)
		}
	}
}
