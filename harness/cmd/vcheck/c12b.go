package main

import (
	"database/sql"
	"fmt"
	"path/filepath"

	"github.com/akrennmair/updog/verifharness/gen"
	"github.com/akrennmair/updog/verifharness/ix"
	"github.com/akrennmair/updog/verifharness/oracle"
	"github.com/akrennmair/updog/verifharness/vf"
)

// c12GroupCounts: results with an exact number of groups (0, 1, around 256, around every multiple of 1024 up to 4096,
// 10000) through every DSN option set: whatever the driver does in pages or batches, every group is one row, once.
func c12GroupCounts(r *vf.Run) {
	counts := []int{0, 1, 2, 255, 256, 257, 511, 512, 513, 1000, 1023, 1024, 1025, 2047, 2048, 2049, 3072, 4095, 4096, 4097}
	if r.Thorough() {
		counts = append(counts, 8192, 10000, 65535, 65536, 65537)
	}
	var ids []string
	for _, n := range counts {
		ids = append(ids, fmt.Sprintf("groups%05d", n))
	}
	r.ForEach(ids, 8, func(id string) {
		var n int
		fmt.Sscanf(id, "groups%d", &n)
		ds := &gen.Dataset{ID: id, Unique: "u"}
		for i := 0; i < n; i++ {
			ds.Rows = append(ds.Rows, oracle.Row{"u": fmt.Sprintf("u%06d", i), "k": fmt.Sprint(i % 3), "count": []string{"few", "many"}[i%2]})
		}
		ds.Rows = append(ds.Rows, oracle.Row{"other": "x"}) // a row that belongs to no group
		ds.Index()
		dir := filepath.Join(r.Scratch, id)
		mustMkdir(dir)
		path := filepath.Join(dir, "ds.updog")
		if err := ix.Build(ix.Writers[n%3], path, ds.Rows); err != nil {
			r.Violation(id, "build", err.Error())
			return
		}
		all := oracle.Or(oracle.Eq("other", "x"), oracle.Not(oracle.Eq("other", "x")))
		for oi, o := range dsnOptionSets {
			if r.Quick() && (oi+n)%2 == 1 && n > 2 {
				continue // every count under half of the option sets in the quick tier
			}
			db, err := sql.Open("updog", "file:"+path+o.opts)
			if err != nil {
				r.Violation(id, "sql.Open", err.Error())
				return
			}
			poisoned := false
			for gi, gb := range [][]string{{"u"}, {"k", "u"}, {"u", "count"}} {
				cid := fmt.Sprintf("%s/%s/gb%d", id, o.name, gi)
				if poisoned || !r.Want(cid) || (n > 5000 && gi > 0) {
					continue
				}
				text := gen.FormatQuery(all, gb)
				want := oracle.Eval(ds.Rows, ds.Cols, all, gb)
				var rows *sql.Rows
				var qerr error
				panicked, msg, _ := vf.Try(func() { rows, qerr = db.Query(text) })
				r.Eval(1)
				r.Distinct(cid)
				r.Count("results_with_an_exact_group_count", 1)
				r.Max("groups_in_one_result", int64(len(want.Groups)))
				w := map[string]any{"text": text, "groups_expected": len(want.Groups), "options": o.name}
				if panicked {
					w["panic"] = msg
					r.Violation(cid, "panic", w)
					poisoned = true
					continue
				}
				if want.Err {
					// no row carries the group-by column (the zero-group dataset): the query must be rejected
					if qerr == nil {
						rows.Close()
						r.Violation(cid, "rows", w)
					}
					continue
				}
				if qerr != nil {
					w["error"] = qerr.Error()
					r.Violation(cid, "unexpected-error", w)
					continue
				}
				got, rerr := readRows(rows)
				if rerr != nil {
					w["error"] = rerr.Error()
					r.Violation(cid, "rows", w)
					continue
				}
				if d := compareTables(got, expectedTable(want, gb)); d != "" {
					w["difference"] = d
					r.Violation(cid, "rows", w)
				}
			}
			if !poisoned {
				db.Close()
			}
		}
	})
}

// c12Whitespace: values that differ only in the blanks inside them (two spaces, a tab, a newline, leading and trailing
// blanks) as literals of otherwise identical texts asked one after the other, and as arguments whose boundary shifts
// ("x y","z" then "x","y z"), on every DSN option set: each text and each argument list means what it says.
func c12Whitespace(r *vf.Run) {
	if !r.Want("whitespace") {
		return
	}
	vals := []string{"x y", "x  y", "x\ty", "x\ny", " x y", "x y ", "xy", "x", "y z", "z", "x y z", "y", ""}
	ds := &gen.Dataset{ID: "whitespace"}
	for i := 0; i < 6*len(vals)*len(vals); i++ {
		ds.Rows = append(ds.Rows, oracle.Row{"a": vals[i%len(vals)], "b": vals[(i/len(vals))%len(vals)], "c": fmt.Sprint((i / 7) % (2 + i%3))})
	}
	ds.Index()
	dir := filepath.Join(r.Scratch, "whitespace")
	mustMkdir(dir)
	path := filepath.Join(dir, "ds.updog")
	if err := ix.Build(ix.Writers[int(r.Seed)%3], path, ds.Rows); err != nil {
		r.Violation("whitespace", "build", err.Error())
		return
	}
	for _, o := range dsnOptionSets {
		cid := "whitespace/" + o.name
		if !r.Want(cid) {
			continue
		}
		db, err := sql.Open("updog", "file:"+path+o.opts)
		if err != nil {
			r.Violation(cid, "sql.Open", err.Error())
			return
		}
		bad := false
		check := func(step string, tmpl *oracle.Expr, gb []string, strs []string, rows *sql.Rows, qerr error) {
			r.Eval(1)
			sub, _ := oracle.Substitute(tmpl, strs)
			want := oracle.Eval(ds.Rows, ds.Cols, sub, gb)
			if qerr != nil {
				r.Violation(cid, "unexpected-error", map[string]any{"step": step, "error": qerr.Error(), "options": o.name})
				bad = true
				return
			}
			got, rerr := readRows(rows)
			if rerr != nil {
				r.Violation(cid, "rows", map[string]any{"step": step, "error": rerr.Error()})
				bad = true
				return
			}
			if d := compareTables(got, expectedTable(want, gb)); d != "" {
				r.Violation(cid, "rows", map[string]any{"step": step, "literal_query": fmt.Sprintf("%q", sub.String()), "group_by": gb, "difference": d, "options": o.name})
				bad = true
			}
		}
		panicked, msg, _ := vf.Try(func() {
			// literals
			for pass := 0; pass < 2 && !bad; pass++ {
				for _, v := range vals {
					for gi, gb := range [][]string{nil, {"c"}} {
						if bad {
							break
						}
						e := oracle.Eq("a", v)
						if gi == 1 {
							e = oracle.And(oracle.Eq("a", v), oracle.Not(oracle.Eq("b", "z")))
						}
						text := gen.FormatQuery(e, gb)
						rows, qerr := db.Query(text)
						check(fmt.Sprintf("literal %q", v), e, gb, nil, rows, qerr)
					}
				}
			}
			// arguments whose boundary shifts, on one prepared statement and on the direct path
			tmpl, gb := oracle.And(oracle.PhEq("a", 1), oracle.PhEq("b", 2)), []string{"c"}
			text := gen.FormatQuery(tmpl, gb)
			st, err := db.Prepare(text)
			if err != nil {
				r.Violation(cid, "prepare", err.Error())
				return
			}
			defer st.Close()
			for _, args := range [][]string{{"x y", "z"}, {"x", "y z"}, {"x y", "z"}, {"x  y", "z"}, {"x", "y"}, {"x y z", ""}, {"", "x y z"}, {"x", "y z"}} {
				if bad {
					break
				}
				rows, qerr := st.Query(args[0], args[1])
				check(fmt.Sprintf("prepared, arguments %q", args), tmpl, gb, args, rows, qerr)
				if bad {
					break
				}
				rows, qerr = db.Query(text, args[0], args[1])
				check(fmt.Sprintf("direct, arguments %q", args), tmpl, gb, args, rows, qerr)
			}
		})
		if panicked {
			r.Violation(cid, "panic", map[string]any{"panic": msg})
			continue
		}
		r.Distinct(cid)
		r.Count("whitespace_variant_queries", 1)
		db.Close()
	}
}
