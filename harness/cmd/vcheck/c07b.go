package main

import (
	"fmt"

	"github.com/RoaringBitmap/roaring"
	"github.com/akrennmair/updog"
	"github.com/akrennmair/updog/verifharness/vf"
)

// c07FitConsistency (round 8), law L8: whether a bitmap fits is a matter of sizes, not of the route it takes into the
// cache. For bitmaps of several sizes and every capacity from the bitmap's size to 256 bytes above it, the bitmap is
// stored (a) under a new key into an empty cache, (b) over a tiny entry of the same key, (c) under a new key next to a
// tiny entry of another key that was stored before. Routes (a) and (b) must agree on "retrievable right after the Put"
// at every capacity (both hold exactly one entry afterwards); (c) must agree with them 96 bytes further up at the latest
// (the second entry's share) and must never keep BOTH entries where (a) does not even keep one. No allowance is needed:
// the cache is compared with itself. And what "fits" must be monotone: retained at capacity C implies retained at C+1.
func c07FitConsistency(r *vf.Run) {
	if !r.Want("fit-consistency") {
		return
	}
	tiny := roaring.New()
	tiny.Add(7)
	for _, target := range []int{8, 40, 100, 1000, 5000, 70000} {
		bm := mkbmBytes(target, 1)
		s := bm.GetSizeInBytes()
		var prevA bool
		for d := uint64(0); d <= 256; d++ {
			c := s + d
			r.Eval(1)
			// (a) new key, empty cache
			ca := updog.NewLRUCache(c)
			ca.Put(1, bm)
			_, a := ca.Get(1)
			// (b) overwrite of a tiny entry of the same key
			cb := updog.NewLRUCache(c)
			cb.Put(1, tiny)
			cb.Put(1, bm)
			got, b := cb.Get(1)
			if b && !got.Equals(bm) {
				b = false
			}
			w := map[string]any{"bitmap_bytes": s, "capacity": c, "kept_as_new_key_in_empty_cache": a, "kept_as_overwrite_of_a_tiny_entry": b}
			if a != b {
				r.Violation("fit-consistency", "law", map[string]any{"law": "L8 fit does not depend on the route", "witness": w})
				return
			}
			if prevA && !a {
				r.Violation("fit-consistency", "law", map[string]any{"law": "L8 fit is monotone in the capacity", "witness": w})
				return
			}
			prevA = a
			r.Count("fit_consistency_points", 1)
		}
		if !prevA {
			r.Violation("fit-consistency", "law", map[string]any{"law": "L4 an entry that fits is retrievable right after it was stored",
				"witness": map[string]any{"bitmap_bytes": s, "capacity": s + 256, "note": "not kept even with 256 bytes to spare in an otherwise empty cache"}})
			return
		}
	}
	r.Distinct("fit-consistency")
	_ = fmt.Sprint
	_ = vf.Digest
}
