package main

import (
	"database/sql"
	"fmt"
	"math/rand"
	"strings"

	_ "github.com/akrennmair/updog/driver"
	"github.com/akrennmair/updog/verifharness/gen"
	"github.com/akrennmair/updog/verifharness/oracle"
)

// sqlTable is what a *sql.Rows showed.
type sqlTable struct {
	Cols  []string
	Types []string
	Rows  [][]any
}

// readRows drains rows, scanning into `any` first so that NULLs and mistyped
// columns are seen as such.
func readRows(rows *sql.Rows) (t sqlTable, err error) {
	defer rows.Close()
	t.Cols, err = rows.Columns()
	if err != nil {
		return t, fmt.Errorf("Columns: %w", err)
	}
	cts, err := rows.ColumnTypes()
	if err != nil {
		return t, fmt.Errorf("ColumnTypes: %w", err)
	}
	for _, ct := range cts {
		// the property speaks of the database type names; the Go scan type is not compared (the scanned values are)
		t.Types = append(t.Types, ct.DatabaseTypeName())
	}
	for rows.Next() {
		vals := make([]any, len(t.Cols))
		ptrs := make([]any, len(t.Cols))
		for i := range vals {
			ptrs[i] = &vals[i]
		}
		if err := rows.Scan(ptrs...); err != nil {
			return t, fmt.Errorf("Scan: %w", err)
		}
		t.Rows = append(t.Rows, vals)
	}
	if err := rows.Err(); err != nil {
		return t, fmt.Errorf("rows.Err: %w", err)
	}
	return t, nil
}

// expectedTable derives the table of C12 from the row oracle's answer.
func expectedTable(a oracle.Answer, groupBy []string) sqlTable {
	t := sqlTable{Cols: append(append([]string{}, groupBy...), "count")}
	for range groupBy {
		t.Types = append(t.Types, "TEXT")
	}
	t.Types = append(t.Types, "BIGINT")
	if len(groupBy) == 0 {
		t.Rows = [][]any{{int64(a.Count)}}
		return t
	}
	for _, g := range a.Groups {
		row := make([]any, 0, len(groupBy)+1)
		for _, v := range g.Values {
			row = append(row, v)
		}
		row = append(row, int64(g.Count))
		t.Rows = append(t.Rows, row)
	}
	return t
}

func compareTables(got, want sqlTable) string {
	if strings.Join(got.Cols, "\x00") != strings.Join(want.Cols, "\x00") || len(got.Cols) != len(want.Cols) {
		return fmt.Sprintf("columns %q, want %q", got.Cols, want.Cols)
	}
	if strings.Join(got.Types, ",") != strings.Join(want.Types, ",") {
		return fmt.Sprintf("column types %q, want %q", got.Types, want.Types)
	}
	if len(got.Rows) != len(want.Rows) {
		return fmt.Sprintf("%d rows, want %d; first rows got %s want %s", len(got.Rows), len(want.Rows), fmtRows(got.Rows, 4), fmtRows(want.Rows, 4))
	}
	for i := range got.Rows {
		for k := range want.Rows[i] {
			g, w := got.Rows[i][k], want.Rows[i][k]
			switch wv := w.(type) {
			case string:
				gs, ok := g.(string)
				if !ok {
					if gb, isb := g.([]byte); isb {
						gs, ok = string(gb), true
					}
				}
				if !ok || gs != wv {
					return fmt.Sprintf("row %d column %d is %s, want %q", i, k, fmtVal(g), wv)
				}
			case int64:
				gi, ok := g.(int64)
				if !ok || gi != wv {
					return fmt.Sprintf("row %d column %d is %s, want %d", i, k, fmtVal(g), wv)
				}
			}
		}
	}
	return ""
}

func fmtVal(v any) string {
	switch x := v.(type) {
	case nil:
		return "NULL"
	case string:
		return fmt.Sprintf("string %q", x)
	case []byte:
		return fmt.Sprintf("bytes %q", x)
	default:
		return fmt.Sprintf("%T %v", v, v)
	}
}

func fmtRows(rows [][]any, max int) string {
	var sb strings.Builder
	sb.WriteByte('[')
	for i, r := range rows {
		if i >= max {
			sb.WriteString(" …")
			break
		}
		sb.WriteByte('(')
		for k, v := range r {
			if k > 0 {
				sb.WriteByte(',')
			}
			sb.WriteString(fmtVal(v))
		}
		sb.WriteByte(')')
	}
	sb.WriteByte(']')
	return sb.String()
}

// identDataset generates a dataset whose column names are identifiers of the
// text query language.
func identDataset(rng *rand.Rand, id string, rows int, hostileVals bool) *gen.Dataset {
	return gen.MakeDataset(rng, id, gen.DatasetOpts{Rows: rows, MaxCols: 5, HostileVals: hostileVals, EmptyRows: true, MaxCard: 1100})
}

// withPlaceholders replaces some leaf values by placeholders and returns the
// argument list that reproduces the original values (as Go values for
// database/sql: strings, and int64 where the value is a canonical integer).
func withPlaceholders(rng *rand.Rand, e *oracle.Expr) (tmpl *oracle.Expr, args []any, strArgs []string) {
	tmpl = e.Clone()
	var leaves []*oracle.Expr
	var walk func(x *oracle.Expr)
	walk = func(x *oracle.Expr) {
		if x.Op == '=' {
			leaves = append(leaves, x)
		}
		for _, k := range x.Kids {
			walk(k)
		}
	}
	walk(tmpl)
	mode := rng.Intn(4) // 0: none, 1: some, 2: all, 3: repeated/out of order/gaps
	for _, l := range leaves {
		if mode == 0 || (mode == 1 && rng.Intn(2) == 0) {
			continue
		}
		// reuse an existing argument with the same value now and then (repeated placeholder)
		pos := -1
		if mode == 3 {
			for i, a := range strArgs {
				if a == l.Val && rng.Intn(2) == 0 {
					pos = i
				}
			}
		}
		if pos < 0 {
			if mode == 3 && rng.Intn(3) == 0 {
				// leave a gap: an argument nobody refers to
				strArgs = append(strArgs, "unused-gap")
			}
			strArgs = append(strArgs, l.Val)
			pos = len(strArgs) - 1
		}
		l.Ph = int32(pos + 1)
		l.Val = ""
	}
	if mode == 3 && len(strArgs) > 1 && rng.Intn(2) == 0 {
		// out of order: reverse the numbering
		n := int32(len(strArgs))
		for _, l := range leaves {
			if l.Ph > 0 {
				l.Ph = n + 1 - l.Ph
			}
		}
		for i, j := 0, len(strArgs)-1; i < j; i, j = i+1, j-1 {
			strArgs[i], strArgs[j] = strArgs[j], strArgs[i]
		}
	}
	// no trailing argument beyond the highest placeholder (surplus arguments are a case of their own in C11)
	if m := int(oracle.MaxPlaceholder(tmpl)); len(strArgs) > m {
		strArgs = strArgs[:m]
	}
	for _, s := range strArgs {
		var n int64
		if _, err := fmt.Sscan(s, &n); err == nil && fmt.Sprint(n) == s && rng.Intn(2) == 0 {
			args = append(args, n)
		} else {
			args = append(args, s)
		}
	}
	return tmpl, args, strArgs
}
