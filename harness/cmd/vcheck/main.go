// vcheck runs the runtime-monitoring checks of the updog properties.
//
//	vcheck run <ID> <quick|thorough> [--only <case>]   supervisor: runs the check in a child, classifies a crash
//	vcheck exec <ID> <tier> [--only <case>]            the check itself
//	vcheck replay <ID> <file>                          re-runs the case recorded in a replay file
//	vcheck worker <name> ...                           child workloads of the checks
package main

import (
	"encoding/json"
	"fmt"
	"os"
	"os/exec"
	"path/filepath"
	"strconv"
	"strings"
	"syscall"
	"time"

	"github.com/akrennmair/updog/verifharness/vf"
)

type propDef struct {
	level string
	run   func(r *vf.Run)
}

var props = map[string]propDef{}

func register(id, level string, f func(r *vf.Run)) { props[id] = propDef{level, f} }

func mustMkdir(d string) {
	if err := os.MkdirAll(d, 0o755); err != nil {
		panic(err)
	}
}

func seed() int64 {
	if s := os.Getenv("VERIF_SEED"); s != "" {
		if n, err := strconv.ParseInt(s, 10, 64); err == nil {
			return n
		}
	}
	return 1
}

func main() {
	if len(os.Args) < 2 {
		fmt.Fprintln(os.Stderr, "usage: vcheck run|exec|replay|worker ...")
		os.Exit(3)
	}
	switch os.Args[1] {
	case "run":
		os.Exit(supervise(os.Args[2:]))
	case "exec":
		os.Exit(execCheck(os.Args[2:]))
	case "replay":
		if len(os.Args) < 4 {
			fmt.Fprintln(os.Stderr, "usage: vcheck replay <ID> <file>")
			os.Exit(3)
		}
		b, err := os.ReadFile(os.Args[3])
		if err != nil {
			fmt.Fprintln(os.Stderr, err)
			os.Exit(3)
		}
		var doc struct {
			Property string `json:"property"`
			Tier     string `json:"tier"`
			Seed     int64  `json:"seed"`
			CaseID   string `json:"case_id"`
		}
		if err := json.Unmarshal(b, &doc); err != nil || doc.CaseID == "" {
			fmt.Fprintln(os.Stderr, "not a replay file:", err)
			os.Exit(3)
		}
		os.Setenv("VERIF_SEED", fmt.Sprint(doc.Seed))
		os.Exit(supervise([]string{os.Args[2], doc.Tier, "--only", doc.CaseID}))
	case "worker":
		os.Exit(runWorker(os.Args[2:]))
	default:
		fmt.Fprintln(os.Stderr, "unknown command", os.Args[1])
		os.Exit(3)
	}
}

func parseArgs(args []string) (id, tier, only string) {
	if len(args) < 2 {
		fmt.Fprintln(os.Stderr, "usage: vcheck run <ID> <quick|thorough> [--only case]")
		os.Exit(3)
	}
	id, tier = args[0], args[1]
	for i := 2; i < len(args); i++ {
		if args[i] == "--only" && i+1 < len(args) {
			only = args[i+1]
			i++
		}
	}
	if tier != "quick" && tier != "thorough" {
		fmt.Fprintln(os.Stderr, "tier must be quick or thorough")
		os.Exit(3)
	}
	if _, ok := props[id]; !ok {
		fmt.Fprintln(os.Stderr, "unknown property", id)
		os.Exit(3)
	}
	return
}

func execCheck(args []string) int {
	id, tier, only := parseArgs(args)
	r := vf.NewRun(id, tier, seed(), only, props[id].level)
	props[id].run(r)
	return r.Finish()
}

// supervise runs the check in a child process, so that a process-fatal error in
// the code under test (fatal error, unrecovered panic in a goroutine, checkptr)
// is reported with the case that was running instead of taking the verdict with it.
func supervise(args []string) int {
	id, tier, only := parseArgs(args)
	self, err := os.Executable()
	if err != nil {
		fmt.Fprintln(os.Stderr, err)
		return 3
	}
	tmp, err := os.MkdirTemp("", "vcheck-sup-")
	if err != nil {
		fmt.Fprintln(os.Stderr, err)
		return 3
	}
	defer os.RemoveAll(tmp)
	progress := filepath.Join(tmp, "progress")
	stderrPath := filepath.Join(tmp, "stderr")
	ef, _ := os.Create(stderrPath)
	cmdArgs := []string{"exec", id, tier}
	if only != "" {
		cmdArgs = append(cmdArgs, "--only", only)
	}
	cmd := exec.Command(self, cmdArgs...)
	cmd.Stdout = os.Stdout
	cmd.Stderr = ef
	scratch, err := os.MkdirTemp(vf.ScratchBase(), "verif-"+id+"-")
	if err != nil {
		fmt.Fprintln(os.Stderr, err)
		return 3
	}
	defer os.RemoveAll(scratch)
	defer func() {
		for _, base := range otherFSBases() {
			os.RemoveAll(filepath.Join(base, "otherfs-"+filepath.Base(scratch)))
		}
	}()
	// whatever the check started and left behind (a worker stuck in a call that never returns, a server) ends with the run
	defer killStrays("VERIF_SCRATCH_DIR=" + scratch)
	cmd.Env = append(os.Environ(), "VERIF_PROGRESS="+progress, "VERIF_SCRATCH_DIR="+scratch)
	cmd.SysProcAttr = &syscall.SysProcAttr{Setpgid: true}
	budget := 40 * time.Minute
	if tier == "thorough" {
		budget = 6 * time.Hour
	}
	start := time.Now()
	if err := cmd.Start(); err != nil {
		fmt.Fprintln(os.Stderr, err)
		return 3
	}
	done := make(chan error, 1)
	go func() { done <- cmd.Wait() }()
	var werr error
	timedOut := false
	deadline := time.After(budget)
	tick := time.NewTicker(5 * time.Second)
	defer tick.Stop()
	var firstViolation time.Time
	stoppedAfterViolations := false
wait:
	for {
		select {
		case werr = <-done:
			break wait
		case <-tick.C:
			// a check that has reported violations gets ten more minutes to finish its case list: a tree that breaks the
			// property may also make single calls explode or never return, and the verdict is already in
			if firstViolation.IsZero() {
				if _, err := os.Stat(progress + ".violations"); err == nil {
					firstViolation = time.Now()
				}
			} else if time.Since(firstViolation) > 10*time.Minute {
				stoppedAfterViolations = true
			}
			if !stoppedAfterViolations {
				continue
			}
		case <-deadline:
		}
		timedOut = true
		_ = syscall.Kill(-cmd.Process.Pid, syscall.SIGQUIT)
		select {
		case werr = <-done:
		case <-time.After(20 * time.Second):
			_ = syscall.Kill(-cmd.Process.Pid, syscall.SIGKILL)
			werr = <-done
		}
		break wait
	}
	ef.Close()
	stderr, _ := os.ReadFile(stderrPath)
	// pass the child's stderr on (bounded)
	if len(stderr) > 200000 {
		os.Stderr.Write(stderr[:100000])
		fmt.Fprintln(os.Stderr, "\n…")
		os.Stderr.Write(stderr[len(stderr)-100000:])
	} else {
		os.Stderr.Write(stderr)
	}
	code := 0
	if werr != nil {
		if ee, ok := werr.(*exec.ExitError); ok {
			code = ee.ExitCode()
		} else {
			code = 3
		}
	}
	if done, err := os.ReadFile(progress + ".done"); !timedOut && err == nil && string(done) == fmt.Sprint(code) {
		return code // the check ran to its end and this is its verdict
	}
	last := ""
	if b, err := os.ReadFile(progress); err == nil {
		lines := strings.Split(strings.TrimSpace(string(b)), "\n")
		n := len(lines)
		if n > 16 {
			lines = lines[n-16:]
		}
		last = strings.Join(lines, ", ")
	}
	tail := string(stderr)
	if len(tail) > 60000 {
		tail = tail[:30000] + "\n…\n" + tail[len(tail)-30000:]
	}
	os.Unsetenv("VERIF_SCRATCH_DIR")
	r := vf.NewRun(id, tier, seed(), only, props[id].level)
	r.Rule("the check process died; no coverage was recorded")
	r.Eval(0)
	crashed := strings.Contains(tail, "panic:") || strings.Contains(tail, "fatal error:") || strings.Contains(tail, "unexpected signal")
	if b, err := os.ReadFile(progress + ".violations"); err == nil {
		// the check reported violations (VIOLATION lines with replay files are on stdout) before it stopped short
		var n int
		fmt.Sscan(string(b), &n)
		r.ForceViolations(n)
		r.Extra("violations_reported_before_the_check_stopped_short", n)
	}
	if stoppedAfterViolations {
		r.Extra("stopped_short", "the check was still running ten minutes after its first violation and was stopped; last cases: "+last)
	} else if timedOut {
		r.Inconclusive(fmt.Sprintf("check exceeded its %s watchdog; last cases: %s", budget, last))
	} else if crashed {
		r.Violation("process-crash", "crash", map[string]any{"exit_code": code, "last_cases_started": last, "stderr": tail, "wall_s": time.Since(start).Seconds()})
	} else {
		r.Inconclusive(fmt.Sprintf("check process ended with exit code %d for an unknown reason; last cases: %s", code, last))
	}
	return r.Finish()
}

// killStrays sends SIGKILL to every process whose environment carries the marker (all descendants of a check inherit
// the run's scratch directory in their environment, whatever process group they are in).
func killStrays(marker string) {
	ents, err := os.ReadDir("/proc")
	if err != nil {
		return
	}
	self := os.Getpid()
	for _, e := range ents {
		pid := 0
		if _, err := fmt.Sscan(e.Name(), &pid); err != nil || pid <= 1 || pid == self {
			continue
		}
		b, err := os.ReadFile(filepath.Join("/proc", e.Name(), "environ"))
		if err != nil {
			continue
		}
		for _, kv := range strings.Split(string(b), "\x00") {
			if kv == marker {
				_ = syscall.Kill(pid, syscall.SIGKILL)
				break
			}
		}
	}
}
