package main

import (
	"fmt"
	"math/rand"
	"path/filepath"
	"sync"
	"sync/atomic"

	"github.com/RoaringBitmap/roaring"
	"github.com/akrennmair/updog"
	"github.com/akrennmair/updog/verifharness/gen"
	"github.com/akrennmair/updog/verifharness/ix"
	"github.com/akrennmair/updog/verifharness/oracle"
	"github.com/akrennmair/updog/verifharness/vf"
)

func init() { register("C03", "exploration", runC03) }

// spyCache wraps a Cache at the API boundary: it counts hits and misses,
// recognises evictions (a miss on a key that was stored before) and checks that
// a bitmap handed out on a hit still has the contents it had when it was stored
// (so in-place mutation of cached bitmaps by later evaluations is observed).
type spyCache struct {
	inner updog.Cache
	mu    sync.Mutex
	put   map[uint64]*roaring.Bitmap // clone taken at Put time
	keep  bool                       // keep clones (memory!) for the mutation monitor

	gets, hits, misses, puts, evictionsSeen int64
	mutated                                 []string
}

func newSpy(inner updog.Cache, keepClones bool) *spyCache {
	return &spyCache{inner: inner, put: map[uint64]*roaring.Bitmap{}, keep: keepClones}
}

func (s *spyCache) Get(key uint64) (*roaring.Bitmap, bool) {
	bm, ok := s.inner.Get(key)
	atomic.AddInt64(&s.gets, 1)
	s.mu.Lock()
	defer s.mu.Unlock()
	prev, was := s.put[key]
	if ok {
		s.hits++
		if s.keep && was && prev != nil && !prev.Equals(bm) {
			s.mutated = append(s.mutated, fmt.Sprintf("key %x: stored cardinality %d, handed out cardinality %d", key, prev.GetCardinality(), bm.GetCardinality()))
		}
		if !was {
			s.mutated = append(s.mutated, fmt.Sprintf("key %x: hit on a key that was never stored", key))
		}
	} else {
		s.misses++
		if was {
			s.evictionsSeen++
		}
	}
	return bm, ok
}

func (s *spyCache) Put(key uint64, bm *roaring.Bitmap) {
	s.mu.Lock()
	s.puts++
	if s.keep {
		s.put[key] = bm.Clone()
	} else {
		s.put[key] = nil
	}
	s.mu.Unlock()
	s.inner.Put(key, bm)
}

// truthTableRows: columns p,q,r; minterm m (bit0=p, bit1=q, bit2=r) occurs 2^m
// times, so the count of any expression identifies its Boolean function.
func truthTableRows() []oracle.Row {
	var rows []oracle.Row
	for m := 0; m < 8; m++ {
		for k := 0; k < 1<<m; k++ {
			rows = append(rows, oracle.Row{"p": fmt.Sprint(m & 1), "q": fmt.Sprint(m >> 1 & 1), "r": fmt.Sprint(m >> 2 & 1)})
		}
	}
	// interleave deterministically so minterms are not contiguous row-id ranges
	rng := rand.New(rand.NewSource(42))
	rng.Shuffle(len(rows), func(i, j int) { rows[i], rows[j] = rows[j], rows[i] })
	return rows
}

// ttMask evaluates the expression on the 8 minterms.
func ttMask(e *oracle.Expr) uint8 {
	var mask uint8
	for m := 0; m < 8; m++ {
		row := oracle.Row{"p": fmt.Sprint(m & 1), "q": fmt.Sprint(m >> 1 & 1), "r": fmt.Sprint(m >> 2 & 1)}
		if e.Sat(row) {
			mask |= 1 << m
		}
	}
	return mask
}

func ttCount(mask uint8) uint64 {
	var n uint64
	for m := 0; m < 8; m++ {
		if mask>>m&1 == 1 {
			n += 1 << m
		}
	}
	return n
}

type ttExpr struct {
	e    *oracle.Expr
	mask uint8
}

// ttPool1: all expressions over the six leaves of depth <= 1 with arity <= 3.
func ttPool1() []ttExpr {
	var leaves []*oracle.Expr
	for _, c := range []string{"p", "q", "r"} {
		for _, v := range []string{"0", "1"} {
			leaves = append(leaves, oracle.Eq(c, v))
		}
	}
	var pool []*oracle.Expr
	pool = append(pool, leaves...)
	for _, l := range leaves {
		pool = append(pool, oracle.Not(l))
	}
	for _, op := range []byte{'&', '|'} {
		for _, a := range leaves {
			pool = append(pool, &oracle.Expr{Op: op, Kids: []*oracle.Expr{a}})
			for _, b := range leaves {
				pool = append(pool, &oracle.Expr{Op: op, Kids: []*oracle.Expr{a, b}})
				for _, c := range leaves {
					pool = append(pool, &oracle.Expr{Op: op, Kids: []*oracle.Expr{a, b, c}})
				}
			}
		}
	}
	out := make([]ttExpr, len(pool))
	for i, e := range pool {
		out[i] = ttExpr{e, ttMask(e)}
	}
	return out
}

func combineMask(op byte, a, b uint8) uint8 {
	if op == '&' {
		return a & b
	}
	return a | b
}

func runC03(r *vf.Run) {
	r.Rule("one evaluation = one Execute on an index with a result cache whose answer was compared with the row oracle (and, in the sequence workload, with an uncached index); " +
		"truth-table workload: every pool expression is executed on ONE index with an ample LRU cache in several PRNG orders, so any two (sub)expressions with equal cache key and different meaning give a wrong count; " +
		"distinct_nontrivial = distinct expressions executed (pool members by index, sequence queries by text)")
	r.Assume("64-bit hash collisions of cache keys do not occur", "the truth-table pool covers three binary columns; depth-2 members have arity <= 2 (quick: PRNG sample)")
	if r.Want("tt") {
		c03TruthTable(r)
	}
	c03Sequences(r)
	racePass(r)
	r.Floor("cache hits observed", r.GetCount("cache_hits") > 0)
	r.Floor("evictions observed", r.GetCount("evictions_observed") > 0)
	r.Floor(">= 100 distinct truth tables in the pool", r.Replay() || r.GetCount("truth_tables_distinct") >= 100)
	r.Floor("capacities 0, tiny, few, ample all used", r.Covered("capacities") >= 4)
}

func c03TruthTable(r *vf.Run) {
	rows := truthTableRows()
	dir := filepath.Join(r.Scratch, "tt")
	mustMkdir(dir)
	path := filepath.Join(dir, "tt.updog")
	if err := ix.Build(ix.WriterMemFile, path, rows); err != nil {
		r.Violation("tt", "build", err.Error())
		return
	}
	pool1 := ttPool1()
	masks := map[uint8]bool{}
	for _, x := range pool1 {
		masks[x.mask] = true
	}
	full := r.Thorough()
	type job struct {
		id    string
		mode  string
		order int64
	}
	var jobs []job
	orders := r.Pick(3, 6)
	for _, m := range ix.OpenModes {
		for o := 0; o < orders; o++ {
			jobs = append(jobs, job{fmt.Sprintf("tt/%s/order%d", m, o), m, int64(o)})
		}
	}
	var ids []string
	byID := map[string]job{}
	for _, j := range jobs {
		ids = append(ids, j.id)
		byID[j.id] = j
	}
	var tablesMu sync.Mutex
	tables := map[uint8]bool{}
	r.ForEach(ids, 6, func(id string) {
		j := byID[id]
		rng := r.RNG(id)
		counters := &updog.CacheMetrics{}
		hit, miss := &ix.Counter{}, &ix.Counter{}
		counters.CacheHit, counters.CacheMiss = hit, miss
		cache := updog.NewLRUCache(1<<30, updog.WithCacheMetrics(counters))
		idx, err := ix.Open(path, j.mode, cache)
		if err != nil {
			r.Violation(id, "open", err.Error())
			return
		}
		defer idx.Close()
		// the sequence: pool1 members and depth-2 combinations, shuffled
		type item struct {
			a, b int // indexes into pool1; b = -1 for unary
			op   byte
		}
		var items []item
		for i := range pool1 {
			items = append(items, item{i, -1, 0})
		}
		if full {
			for i := range pool1 {
				items = append(items, item{i, -1, '^'}, item{i, -1, '&'}, item{i, -1, '|'})
				for k := range pool1 {
					items = append(items, item{i, k, '&'}, item{i, k, '|'})
				}
			}
		} else {
			n := 150000
			for k := 0; k < n; k++ {
				a, b := rng.Intn(len(pool1)), rng.Intn(len(pool1))
				switch rng.Intn(8) {
				case 0:
					items = append(items, item{a, -1, '^'})
				case 1:
					items = append(items, item{a, -1, []byte{'&', '|'}[rng.Intn(2)]})
				default:
					items = append(items, item{a, b, []byte{'&', '|'}[rng.Intn(2)]})
				}
			}
		}
		rng.Shuffle(len(items), func(a, b int) { items[a], items[b] = items[b], items[a] })
		local := map[uint8]bool{}
		wrong := 0
		for n, it := range items {
			var e *oracle.Expr
			var mask uint8
			switch {
			case it.op == 0:
				e, mask = pool1[it.a].e, pool1[it.a].mask
			case it.op == '^':
				e, mask = oracle.Not(pool1[it.a].e), ^pool1[it.a].mask
			case it.b < 0:
				e, mask = &oracle.Expr{Op: it.op, Kids: []*oracle.Expr{pool1[it.a].e}}, pool1[it.a].mask
			default:
				e, mask = &oracle.Expr{Op: it.op, Kids: []*oracle.Expr{pool1[it.a].e, pool1[it.b].e}}, combineMask(it.op, pool1[it.a].mask, pool1[it.b].mask)
			}
			local[mask] = true
			want := ttCount(mask)
			res, err := idx.Execute(&updog.Query{Expr: e.ToUpdog()})
			r.Eval(1)
			if err != nil || res.Count != want {
				wrong++
				if wrong <= 3 {
					r.Violation(fmt.Sprintf("%s/item%d", id, n), "answer", map[string]any{
						"expr": e.String(), "position_in_sequence": n, "want_count": want, "got": fmt.Sprint(res, err), "mode": j.mode,
						"note": "dataset = 255 rows over p,q,r where minterm m occurs 2^m times; executed on one index with an ample LRU cache after the preceding items of this PRNG order",
					})
				}
			}
			r.Distinct(fmt.Sprintf("tt|%d|%d|%c", it.a, it.b, it.op))
		}
		if wrong > 3 {
			r.Count("tt_wrong_answers_beyond_reported", int64(wrong-3))
		}
		r.Count("cache_hits", hit.N)
		r.Count("cache_misses", miss.N)
		r.Count("tt_items_executed", int64(len(items)))
		r.Cover("capacities", "ample")
		tablesMu.Lock()
		for m := range local {
			tables[m] = true
		}
		tablesMu.Unlock()
		if j.order == 0 && j.mode == ix.OpenOnDemand {
			r.Sample("truth-table-sequence", map[string]any{"order": id, "items": len(items), "first": items[0], "exhaustive_depth2": full, "cache_hits": hit.N, "cache_misses": miss.N})
		}
	})
	r.Count("truth_tables_distinct", int64(len(tables)))
	r.Extra("tt_pool_depth1_size", len(pool1))
	if full {
		r.Extra("tt_pool_exhaustive", true)
	}
}

type seqQuery struct {
	e  *oracle.Expr
	gb []string
}

// c03Queries builds a query list with heavy sharing: a pool of sub-expressions
// recombined under different operators, permuted, duplicated, re-associated,
// wrapped in NOT pairs; every query is re-asked later.
func c03Queries(rng *rand.Rand, ds *gen.Dataset, n int) []seqQuery {
	cols := ds.ColNames()
	var subs []*oracle.Expr
	for i := 0; i < 12; i++ {
		subs = append(subs, gen.Leaf(rng, ds, cols))
	}
	for i := 0; i < 10; i++ {
		subs = append(subs, gen.Expr(rng, ds, cols, 2, 3))
	}
	pick := func() *oracle.Expr { return subs[rng.Intn(len(subs))] }
	var qs []seqQuery
	for len(qs) < n {
		var e *oracle.Expr
		a, b, c := pick(), pick(), pick()
		switch rng.Intn(12) {
		case 0:
			e = oracle.And(a, b)
		case 1:
			e = oracle.And(b, a) // permuted
		case 2:
			e = oracle.Or(a, b)
		case 3:
			e = oracle.And(a, a) // duplicated operand
		case 4:
			e = oracle.And(oracle.And(a, b), c) // re-associated
		case 5:
			e = oracle.And(a, oracle.And(b, c))
		case 6:
			e = oracle.Or(oracle.And(a, c), oracle.And(b, c))
		case 7:
			e = oracle.And(oracle.Or(a, c), oracle.Or(b, c))
		case 8:
			e = oracle.And(oracle.Not(a), oracle.Not(b))
		case 9:
			e = oracle.Not(oracle.Not(a))
		case 10:
			e = oracle.Not(oracle.Or(a, b))
		default:
			e = a // a plain sub-expression or leaf again (detects in-place mutation by operators)
		}
		if rng.Intn(15) == 0 {
			// a column that occurs in no row somewhere in the tree: must fail, also when parts of it are cached
			e = gen.WithUnknown(rng, oracle.And(a, e, b), ds)
		}
		q := seqQuery{e: e}
		if rng.Intn(4) == 0 {
			q.gb = gen.GroupBy(rng, ds, 1+rng.Intn(3), 4000)
		}
		qs = append(qs, q)
		if rng.Intn(3) == 0 && len(subs) < 60 {
			subs = append(subs, e) // results become building blocks of later queries
		}
		if rng.Intn(3) == 0 && len(qs) > 1 {
			qs = append(qs, qs[rng.Intn(len(qs))]) // re-ask an earlier query
		}
	}
	return qs
}

func c03Sequences(r *vf.Run) {
	nds := r.Pick(40, 500)
	var ids []string
	for i := 0; i < nds; i++ {
		ids = append(ids, fmt.Sprintf("seq%02d", i))
	}
	// two regression sequences from the defect that was repaired
	ids = append(ids, "regress-xor", "sep-names", "absent-storm", "near-names")
	r.ForEach(ids, 12, func(id string) {
		rng := r.RNG(id)
		var ds *gen.Dataset
		var qs []seqQuery
		if id == "regress-xor" {
			ds = &gen.Dataset{ID: id}
			for i := 0; i < 64; i++ {
				ds.Rows = append(ds.Rows, oracle.Row{"a": fmt.Sprint(i & 1), "b": fmt.Sprint(i >> 1 & 1), "c": fmt.Sprint(i >> 2 & 1), "d": fmt.Sprint(i >> 3 & 3)})
			}
			ds.Index()
			a, b, c := oracle.Eq("a", "1"), oracle.Eq("b", "1"), oracle.Eq("c", "1")
			qs = []seqQuery{
				{e: oracle.And(oracle.Or(a, c), oracle.Or(b, c))}, {e: oracle.And(oracle.Not(a), oracle.Not(b))},
				{e: oracle.And(a, a)}, {e: oracle.And(b, b, c, c)}, {e: oracle.Or(a, a)}, {e: oracle.Or(b, b, c, c)},
				{e: oracle.And(a, b)}, {e: oracle.Or(a, b)}, {e: oracle.Not(a)}, {e: a}, {e: oracle.And(a)}, {e: oracle.Or(a)}, {e: oracle.Not(oracle.Not(a))},
			}
		} else if id == "sep-names" {
			// column names that are joins of other column names under the usual separators: two group-by lists over the same
			// expression must never be mistaken for each other
			names := []string{"a", "b", "a,b", "b,a", "a,b,a", "a b", "a|b", "a;b", "a/b", "ab"}
			ds = &gen.Dataset{ID: id}
			for i := 0; i < 240; i++ {
				row := oracle.Row{}
				for k, n := range names {
					if (i+k)%7 != 0 {
						row[n] = fmt.Sprint((i / (k + 1)) % (2 + k%3))
					}
				}
				ds.Rows = append(ds.Rows, row)
			}
			ds.Index()
			lists := [][]string{{"a", "b"}, {"a,b"}, {"b", "a"}, {"b,a"}, {"a", "b", "a"}, {"a,b,a"}, {"a,b", "a"}, {"a", "b,a"}, {"a b"}, {"a|b"}, {"a;b"}, {"a/b"}, {"ab"}, {"a", "b"}, {"a,b"}}
			for _, e := range []*oracle.Expr{oracle.Eq("a", "1"), oracle.Not(oracle.Eq("b", "0")), oracle.And(oracle.Eq("a", "1"), oracle.Eq("ab", "1")), oracle.And(oracle.Eq("ab", "1"), oracle.Eq("a", "1"))} {
				for _, l := range lists {
					qs = append(qs, seqQuery{e: e, gb: l})
				}
			}
		} else if id == "near-names" {
			// (round 6) column names and values that coincide under the usual normalisations -- case folding, trimmed
			// blanks, '_' for '-', composed and decomposed accents -- each with its own distribution over the rows. To the
			// index they are different strings; a cache key or a lookup that normalises further than the data does mixes
			// them up, visibly only when both spellings are asked on one open index. A spelling that is in no row
			// ("eNV") is an unknown column.
			names := []string{"Env", "env", "ENV", " env", "env ", "a_b", "a-b", "caf\u00e9", "cafe\u0301"}
			vals := []string{"prod", "Prod", "PROD", " prod", "prod ", "te_st", "te-st"}
			ds = &gen.Dataset{ID: id}
			for i := 0; i < 630; i++ {
				row := oracle.Row{}
				for k, n := range names {
					if (i+2*k)%5 != 0 {
						row[n] = vals[(i/(k+1)+k)%len(vals)]
					}
				}
				ds.Rows = append(ds.Rows, row)
			}
			ds.Index()
			for pass := 0; pass < 2; pass++ {
				for _, v := range vals {
					for _, n := range names {
						l := oracle.Eq(n, v)
						qs = append(qs, seqQuery{e: l})
						if pass == 1 {
							qs = append(qs, seqQuery{e: oracle.Not(l)}, seqQuery{e: oracle.And(l, oracle.Not(oracle.Eq("env", "PROD")))}, seqQuery{e: l, gb: []string{n}})
						}
					}
				}
				for i, n := range names {
					m := names[(i+1)%len(names)]
					qs = append(qs, seqQuery{e: oracle.Or(oracle.Eq(n, "prod"), oracle.Eq(m, "Prod")), gb: []string{m, n}}, seqQuery{e: oracle.Or(oracle.Eq(m, "prod"), oracle.Eq(n, "Prod")), gb: []string{n, m}})
				}
				for _, n := range []string{"eNV", "ENv", "env  ", "A_B", "cafe"} {
					qs = append(qs, seqQuery{e: oracle.Eq(n, "prod")}, seqQuery{e: oracle.Eq("env", "prod"), gb: []string{n}})
				}
			}
		} else if id == "absent-storm" {
			// tens of thousands of lookups of values that do not occur, then every value that does: whatever remembers
			// "not there" in less than the full key says it about some value that is there
			ds = &gen.Dataset{ID: id}
			for i := 0; i < 3000; i++ {
				ds.Rows = append(ds.Rows, oracle.Row{"v": fmt.Sprintf("present-%d", i), "w": fmt.Sprint(i % 4)})
			}
			ds.Index()
			for i := 0; i < r.Pick(40000, 200000); i++ {
				qs = append(qs, seqQuery{e: oracle.Eq("v", fmt.Sprintf("absent-%d", i))})
			}
			for i := 0; i < 3000; i++ {
				qs = append(qs, seqQuery{e: oracle.Eq("v", fmt.Sprintf("present-%d", i))})
			}
			qs = append(qs, seqQuery{e: oracle.Eq("w", "1"), gb: []string{"v"}})
		} else {
			rows := []int{0, 1, 300, 1500, 5000, 70000}[rng.Intn(6)]
			if r.Quick() && rows > 5000 {
				rows = 5000
			}
			ds = gen.MakeDataset(rng, id, gen.DatasetOpts{Rows: rows, MaxCols: 4, HostileVals: rng.Intn(2) == 0, EmptyRows: true, MaxCard: 1100})
			if len(ds.Cols) == 0 {
				return
			}
			qs = c03Queries(rng, ds, r.Pick(120, 300))
		}
		dir := filepath.Join(r.Scratch, id)
		mustMkdir(dir)
		path := filepath.Join(dir, "ds.updog")
		writer := ix.Writers[rng.Intn(len(ix.Writers))]
		if err := ix.Build(writer, path, ds.Rows); err != nil {
			r.Violation(id, "build", err.Error())
			return
		}
		fresh, err := ix.Open(path, ix.OpenOnDemand, nil)
		if err != nil {
			r.Violation(id, "open", err.Error())
			return
		}
		defer fresh.Close()
		// oracle answers, once per distinct query object
		type ans struct {
			a   oracle.Answer
			set bool
		}
		wants := make([]ans, len(qs))
		key := func(q seqQuery) string { return q.e.String() + fmt.Sprintf("%q", q.gb) }
		memo := map[string]oracle.Answer{}
		for i, q := range qs {
			k := key(q)
			a, ok := memo[k]
			if !ok {
				a = oracle.Eval(ds.Rows, ds.Cols, q.e, q.gb)
				memo[k] = a
			}
			wants[i] = ans{a, true}
			r.Distinct("seq|" + id + "|" + k)
		}
		caps := []struct {
			name string
			size uint64
		}{{"0", 0}, {"tiny", 200}, {"few", 3000}, {"ample", 1 << 28}}
		for _, cp := range caps {
			for _, mode := range ix.OpenModes {
				cid := fmt.Sprintf("%s/%s/%s", id, cp.name, mode)
				if !r.Want(cid) {
					continue
				}
				rng := r.RNG(cid) // per-configuration stream for the in-place edits below
				spy := newSpy(updog.NewLRUCache(cp.size), true)
				idx, err := ix.Open(path, mode, spy)
				if err != nil {
					r.Violation(cid, "open", err.Error())
					continue
				}
				r.Cover("capacities", cp.name)
				r.Cover("open_modes", mode)
				for i, q := range qs {
					res, err := ix.Exec(idx, q.e, q.gb)
					r.Eval(1)
					if diff := oracle.CompareResult(res, err, wants[i].a, q.gb); diff != "" {
						r.Violation(fmt.Sprintf("%s/q%d", cid, i), "answer", map[string]any{
							"difference": diff, "expr": q.e.String(), "group_by": fmt.Sprintf("%q", q.gb), "position": i, "capacity_bytes": cp.size, "mode": mode,
							"preceding_queries": prevQueries(qs, i, 12), "rows": len(ds.Rows), "specs": specStrings(ds), "first_rows": witnessRows(ds, 30),
						})
						break
					}
					// the formulation of the property: identical to an uncached index asked this query alone
					if i%7 == 0 {
						fres, ferr := ix.Exec(fresh, q.e, q.gb)
						if d2 := oracle.CompareResult(fres, ferr, wants[i].a, q.gb); d2 != "" {
							r.Violation(fmt.Sprintf("%s/q%d", cid, i), "uncached-answer", map[string]any{"difference": d2, "expr": q.e.String(), "group_by": fmt.Sprintf("%q", q.gb)})
							break
						}
					}
				}
				// operators WITHOUT operands (reachable through the Go API and the wire, not through the text parser): the
				// library answers them like the empty set; the reference is the uncached index itself, which is how the
				// property is worded. Twins that differ only by such a node must not share a cached result.
				if len(qs) > 2 {
					a, b := qs[(len(cid)*3)%len(qs)].e, qs[(len(cid)*5+1)%len(qs)].e
					none := func(op byte) *oracle.Expr { return &oracle.Expr{Op: op} }
					var twins []*oracle.Expr
					for _, op := range []byte{'&', '|'} {
						mk := func(kids ...*oracle.Expr) *oracle.Expr { return &oracle.Expr{Op: op, Kids: kids} }
						twins = append(twins, mk(a, b), mk(a, b, none(op)), mk(a, mk(b, none(op))), mk(a, b), oracle.Not(mk(a, b, none(op))), oracle.Not(mk(a, b)),
							mk(a, none(op)), mk(a), none(op), oracle.Not(none(op)), mk(a, b, none(byte('&'+'|')-op)), mk(mk(a, b), none(op)), mk(a, b))
					}
					rng.Shuffle(len(twins), func(i, j int) { twins[i], twins[j] = twins[j], twins[i] })
					for pass := 0; pass < 2; pass++ {
						for ti, e := range twins {
							gb := []string(nil)
							res, err := ix.Exec(idx, e, gb)
							fres, ferr := ix.Exec(fresh, e, gb)
							r.Eval(1)
							r.Count("queries_with_an_operator_without_operands", 1)
							if d := sameLibraryAnswer(res, err, fres, ferr); d != "" {
								r.Violation(fmt.Sprintf("%s/no-operands%d", cid, ti), "differs-from-uncached-index", map[string]any{"difference": d, "expr": e.String(), "capacity_bytes": cp.size, "mode": mode, "pass": pass,
									"explanation": "the same expression on an uncached index opened on the same file gives the other answer; an operator without operands is part of the expression"})
								break
							}
						}
					}
				}
				// one query object edited in place and re-executed on the cached index (stale keys memoised in the object
				// would hand out the result of what the object meant before)
				if len(qs) > 3 {
					e := qs[(len(cid)*7)%len(qs)].e.Clone()
					uq := &updog.Query{Expr: e.ToUpdog()}
					for k := 0; k < 10; k++ {
						want := oracle.Eval(ds.Rows, ds.Cols, e, uq.GroupBy)
						res, err := idx.Execute(uq)
						r.Eval(1)
						r.Count("executions_of_an_edited_query_object", 1)
						if diff := oracle.CompareResult(res, err, want, uq.GroupBy); diff != "" {
							r.Violation(cid+"/edited-object", "answer", map[string]any{"difference": diff, "expr_now": e.String(), "edits_so_far": k, "capacity_bytes": cp.size, "mode": mode,
								"explanation": "one Query object executed, edited in place (leaf value, operand appended/replaced/removed) and executed again on an index with a result cache"})
							break
						}
						editInPlace(rng, e, uq, ds)
					}
				}
				idx.Close()
				if len(spy.mutated) > 0 {
					r.Violation(cid, "cached-bitmap-changed", map[string]any{"observations": spy.mutated[:min(len(spy.mutated), 5)], "capacity_bytes": cp.size, "mode": mode})
				}
				r.Count("cache_hits", spy.hits)
				r.Count("cache_misses", spy.misses)
				r.Count("cache_puts", spy.puts)
				r.Count("evictions_observed", spy.evictionsSeen)
				r.Count("sequences", 1)
				if cp.name == "few" && mode == ix.OpenOnDemand && id == "seq00" {
					r.Sample("query-sequence", map[string]any{"dataset": id, "rows": len(ds.Rows), "capacity": cp.size, "queries": len(qs), "first_queries": prevQueries(qs, 6, 6), "hits": spy.hits, "misses": spy.misses, "evictions_observed": spy.evictionsSeen})
				}
			}
		}
	})
}

func prevQueries(qs []seqQuery, i, n int) []string {
	var out []string
	for k := max(0, i-n); k < i && k < len(qs); k++ {
		out = append(out, fmt.Sprintf("%s ; %q", qs[k].e.String(), qs[k].gb))
	}
	return out
}

// sameLibraryAnswer compares two answers of the library itself (cached vs uncached index).
func sameLibraryAnswer(res *updog.Result, err error, fres *updog.Result, ferr error) string {
	if (err != nil) != (ferr != nil) {
		return fmt.Sprintf("error %v, uncached index: error %v", err, ferr)
	}
	if err != nil {
		return ""
	}
	if res.Count != fres.Count {
		return fmt.Sprintf("count %d, uncached index: %d", res.Count, fres.Count)
	}
	if a, b := fmt.Sprint(res.Groups), fmt.Sprint(fres.Groups); a != b {
		return fmt.Sprintf("groups %s, uncached index: %s", head(a, 300), head(b, 300))
	}
	return ""
}
