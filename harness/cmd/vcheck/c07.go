package main

import (
	"fmt"
	"math/rand"
	"sort"
	"strings"
	"sync"

	"github.com/RoaringBitmap/roaring"
	"github.com/akrennmair/updog"
	"github.com/akrennmair/updog/verifharness/ix"
	"github.com/akrennmair/updog/verifharness/vf"
)

func init() { register("C07", "exploration", runC07) }

// The LRU cache is observed as a black box. Get is the only way to see
// residency and it perturbs recency, but Get never evicts: probing every key at
// the END of a sequence reveals the exact resident set, and since the cache is
// deterministic, replaying each PREFIX on a fresh cache and probing at its end
// yields the resident set after every operation without disturbing the run.

type cop struct {
	put  bool
	key  uint64
	size int // size class (put only); >= 10 means "that many values"
	// reput: the caller changes the bitmap OBJECT it stored last under this key (adds `size` values, or empties it
	// down to its id when size < 0) and stores the same object again. Without an earlier Put of the key it is an
	// ordinary Put of size class 0.
	reput bool
	// bytes > 0 (put only): a bitmap of at most that many bytes (as close to it as two-byte steps allow)
	bytes int
	// runs (with bytes > 0): the bitmap is made of run containers (long ranges), whose in-memory size is about twice
	// their serialised size
	runs bool
}

func (o cop) String() string {
	if o.reput {
		return fmt.Sprintf("R%d.%d", o.key, o.size)
	}
	if o.put && o.bytes > 0 && o.runs {
		return fmt.Sprintf("U%d.%d", o.key, o.bytes)
	}
	if o.put && o.bytes > 0 {
		return fmt.Sprintf("B%d.%d", o.key, o.bytes)
	}
	if o.put {
		return fmt.Sprintf("P%d.%d", o.key, o.size)
	}
	return fmt.Sprintf("G%d", o.key)
}

const lruSlack = 256 // generous per-entry bookkeeping allowance ("fits comfortably")
const idBase = 0x7f000000

var bmBase sync.Map // size class -> *roaring.Bitmap

func buildBase(class int) *roaring.Bitmap {
	bm := roaring.New()
	switch class {
	case 0:
	case 1:
		for i := uint32(0); i < 45; i++ {
			bm.Add(1000 + i*2)
		}
	case 2:
		for i := uint32(0); i < 4000; i++ {
			bm.Add(100000 + i*3)
		}
	default:
		for i := uint32(0); i < uint32(class); i++ {
			bm.Add(100000 + i*3)
		}
	}
	return bm
}

// mkbm builds a bitmap of the size class carrying a unique id.
func mkbm(class int, id uint32) *roaring.Bitmap {
	b, ok := bmBase.Load(class)
	if !ok {
		b, _ = bmBase.LoadOrStore(class, buildBase(class))
	}
	bm := b.(*roaring.Bitmap).Clone()
	bm.Add(idBase + id)
	return bm
}

var bmBytesBase sync.Map // byte target -> *roaring.Bitmap (without the id)

// mkbmBytes builds a bitmap carrying the unique id whose serialised-size estimate (GetSizeInBytes, what the cache
// accounts) is the largest value <= target that two-byte steps reach; targets below the minimum give the minimum.
func mkbmBytes(target int, id uint32) *roaring.Bitmap {
	b, ok := bmBytesBase.Load(target)
	if !ok {
		bm := roaring.New()
		bm.Add(idBase) // stands for the id's container while sizing
		v := uint32(1)
		for {
			bm.Add(v)
			if bm.GetSizeInBytes() > uint64(target) {
				bm.Remove(v)
				break
			}
			v += 2
			if v&0xffff > 8000 { // stay in array containers: next chunk
				v = (v>>16+1)<<16 + 1
			}
		}
		bm.Remove(idBase)
		b, _ = bmBytesBase.LoadOrStore(target, bm)
	}
	bm := b.(*roaring.Bitmap).Clone()
	bm.Add(idBase + id)
	return bm
}

var bmRunsBase sync.Map // byte target -> *roaring.Bitmap made of run containers (without the id)

// mkbmRuns is mkbmBytes with one long range per container (run containers after RunOptimize): GetSizeInBytes, which
// the byte bound is stated in, is about twice GetSerializedSizeInBytes for such bitmaps.
func mkbmRuns(target int, id uint32) *roaring.Bitmap {
	b, ok := bmRunsBase.Load(target)
	if !ok {
		build := func(n int) *roaring.Bitmap {
			bm := roaring.New()
			for c := uint64(0); c < uint64(n); c++ {
				bm.AddRange(c<<16+10, c<<16+5000)
			}
			bm.RunOptimize()
			return bm
		}
		one, two := build(1).GetSizeInBytes(), build(2).GetSizeInBytes()
		n := 1
		if per := two - one; per > 0 && uint64(target) > one+16 {
			n = int((uint64(target)-16-one)/per) + 1
		}
		if n > 65000 {
			n = 65000 // a bitmap has at most 65536 containers (row ids are 32 bits); larger targets get the largest such bitmap
		}
		bm := build(n)
		for n > 1 && bm.GetSizeInBytes()+16 > uint64(target) {
			n--
			bm = build(n)
		}
		b, _ = bmRunsBase.LoadOrStore(target, bm)
	}
	bm := b.(*roaring.Bitmap).Clone()
	bm.Add(idBase + id)
	return bm
}

// opFact is what one operation shows at the interface while the sequence runs.
type opFact struct {
	hit  bool   // Get: it was a hit
	size uint64 // Put: size of the bitmap stored
}

type lruObs struct {
	resident map[uint64]uint32 // key -> unique id found
	bytes    uint64
	putSize  uint64 // size of the bitmap handed to the last operation, if that was a Put
}

// lruRun executes ops on a fresh cache and probes all keys at the end.
func lruRun(capacity uint64, ops []cop, keys []uint64) (o lruObs, law string) {
	o, _, law = lruRunFacts(capacity, ops, keys)
	return
}

func lruRunFacts(capacity uint64, ops []cop, keys []uint64) (o lruObs, facts []opFact, law string) {
	facts = make([]opFact, len(ops))
	var g, p, h, m ix.Counter
	c := updog.NewLRUCache(capacity, updog.WithCacheMetrics(&updog.CacheMetrics{CacheHit: &h, CacheMiss: &m, GetCall: &g, PutCall: &p}))
	last := map[uint64]*roaring.Bitmap{}
	lastID := map[uint64]uint32{}
	var egets, eputs, ehits int64
	check := func(k uint64, bm *roaring.Bitmap, where string) string {
		want, has := last[k]
		if !has {
			return fmt.Sprintf("L1: %s get(%d) hit although the key was never stored", where, k)
		}
		if bm == nil || !bm.Equals(want) {
			return fmt.Sprintf("L1: %s get(%d) returned a bitmap other than the one most recently stored under that key (id %d)", where, k, lastID[k])
		}
		return ""
	}
	for i, op := range ops {
		if op.reput && last[op.key] != nil {
			bm := last[op.key] // the very object stored before; the expectation (last) moves along with it
			if op.size >= 0 {
				for v := 0; v < op.size; v++ {
					bm.Add(uint32(3000000 + i*50000 + v*3))
				}
			} else {
				bm.RemoveRange(0, idBase)
			}
			c.Put(op.key, bm)
			o.putSize = bm.GetSizeInBytes()
			facts[i].size = o.putSize
			eputs++
		} else if op.put || op.reput {
			class := op.size
			if op.reput {
				class = 0
			}
			bm := mkbm(class, uint32(i))
			if op.bytes > 0 && !op.reput {
				if op.runs {
					bm = mkbmRuns(op.bytes, uint32(i))
				} else {
					bm = mkbmBytes(op.bytes, uint32(i))
				}
			}
			c.Put(op.key, bm)
			o.putSize = bm.GetSizeInBytes()
			facts[i].size = o.putSize
			last[op.key] = bm
			lastID[op.key] = uint32(i)
			eputs++
		} else {
			bm, ok := c.Get(op.key)
			egets++
			if ok {
				ehits++
				facts[i].hit = true
				if l := check(op.key, bm, fmt.Sprintf("op %d", i)); l != "" {
					return o, facts, l
				}
			} else if bm != nil {
				return o, facts, fmt.Sprintf("L1: op %d get(%d) missed but returned a bitmap", i, op.key)
			}
		}
	}
	if g.N != egets || p.N != eputs || h.N != ehits || m.N != egets-ehits {
		return o, facts, fmt.Sprintf("L6: counters get=%d (want %d) put=%d (want %d) hit=%d (want %d) miss=%d (want %d)", g.N, egets, p.N, eputs, h.N, ehits, m.N, egets-ehits)
	}
	o.resident = map[uint64]uint32{}
	for _, k := range keys {
		if bm, ok := c.Get(k); ok {
			if l := check(k, bm, "final probe"); l != "" {
				return o, facts, l
			}
			o.resident[k] = lastID[k]
			o.bytes += bm.GetSizeInBytes()
		}
	}
	return o, facts, ""
}

// lruState is what the laws need to remember along a sequence.
type lruState struct {
	prev    lruObs
	lastUse map[uint64]int
	lastPut map[uint64]int
	maxSize map[uint64]uint64
}

func newLRUState() *lruState {
	return &lruState{prev: lruObs{resident: map[uint64]uint32{}}, lastUse: map[uint64]int{}, lastPut: map[uint64]int{}, maxSize: map[uint64]uint64{}}
}

func (s *lruState) clone() *lruState {
	c := &lruState{prev: s.prev, lastUse: map[uint64]int{}, lastPut: map[uint64]int{}, maxSize: map[uint64]uint64{}}
	for k, v := range s.lastUse {
		c.lastUse[k] = v
	}
	for k, v := range s.lastPut {
		c.lastPut[k] = v
	}
	for k, v := range s.maxSize {
		c.maxSize[k] = v
	}
	return c
}

// recentResident is law L7, an ABSOLUTE consequence of L2-L5 that needs no comparison with the state before: order the
// keys by their last use (Put, or Get that hit); as long as the largest bitmaps ever stored under the keys used since
// then, allowance included, fit into the capacity together, nothing can have pushed the key out, so it must be
// retrievable. A cache whose bookkeeping has gone wrong at some earlier point (an entry it can no longer find, a
// phantom entry) fails this at the end of ANY later run, not only at the operation where it went wrong.
func recentResident(capacity uint64, ops []cop, facts []opFact, o lruObs) string {
	lastUse := map[uint64]int{}
	maxSize := map[uint64]uint64{}
	for i, op := range ops {
		if op.put || op.reput {
			lastUse[op.key] = i + 1
			if facts[i].size > maxSize[op.key] {
				maxSize[op.key] = facts[i].size
			}
		} else if facts[i].hit {
			lastUse[op.key] = i + 1
		}
	}
	ks := make([]uint64, 0, len(lastUse))
	for k := range lastUse {
		ks = append(ks, k)
	}
	sort.Slice(ks, func(i, j int) bool { return lastUse[ks[i]] > lastUse[ks[j]] })
	var sum uint64
	for _, k := range ks {
		sum += maxSize[k] + lruSlack
		if sum > capacity || sum < maxSize[k] {
			break
		}
		if _, ok := o.resident[k]; !ok {
			return fmt.Sprintf("L7: key %d (last used at op %d) is not retrievable although it and everything used since then fit comfortably (%d bytes incl. allowance <= %d)", k, lastUse[k]-1, sum, capacity)
		}
	}
	return ""
}

// stateAfter reconstructs the law state after all of ops from ONE run: which Gets hit and how large each stored
// bitmap was is visible at the interface while the sequence runs, the resident set comes from the terminal probe.
// It lets a long sequence be checked at chosen positions only (two replays per position).
func stateAfter(capacity uint64, ops []cop, keys []uint64) (*lruState, string) {
	o, facts, law := lruRunFacts(capacity, ops, keys)
	if law == "" {
		law = recentResident(capacity, ops, facts, o)
	}
	if law != "" {
		return nil, law
	}
	s := newLRUState()
	s.prev = o
	for i, op := range ops {
		if op.put || op.reput {
			s.lastUse[op.key], s.lastPut[op.key] = i+1, i+1
			if facts[i].size > s.maxSize[op.key] {
				s.maxSize[op.key] = facts[i].size
			}
		} else if facts[i].hit {
			s.lastUse[op.key] = i + 1
		}
	}
	return s, ""
}

// checkAt checks the laws for the operations at the given 1-based positions of seq.
func checkAt(capacity uint64, seq []cop, keys []uint64, positions []int, st *lruStats) (int, string) {
	for _, p := range positions {
		if p < 1 || p > len(seq) {
			continue
		}
		state, law := stateAfter(capacity, seq[:p-1], keys)
		if law == "" {
			law = state.step(capacity, seq[:p], keys, st)
		}
		if law != "" {
			return p, law
		}
	}
	return 0, ""
}

type lruStats struct {
	evictions, getChangedVictim, growOverwrites, shrinkOverwrites, selfEvictions int64
}

// step checks the laws for the last operation of ops, given the state after
// ops[:len-1], and advances the state.
func (s *lruState) step(capacity uint64, ops []cop, keys []uint64, st *lruStats) string {
	i := len(ops)
	op := ops[i-1]
	o, facts, law := lruRunFacts(capacity, ops, keys)
	if law == "" {
		law = recentResident(capacity, ops, facts, o)
	}
	if law != "" {
		return law
	}
	if op.put || op.reput {
		sz := o.putSize
		if old, was := s.maxSize[op.key]; was {
			if _, res := s.prev.resident[op.key]; res {
				if sz > old {
					st.growOverwrites++
				} else if sz < old {
					st.shrinkOverwrites++
				}
			}
		}
		if sz > s.maxSize[op.key] {
			s.maxSize[op.key] = sz
		}
		if o.bytes > capacity {
			return fmt.Sprintf("L2: after op %d (%s) the retrievable bitmaps sum to %d bytes > capacity %d", i-1, op, o.bytes, capacity)
		}
		if sz+lruSlack <= capacity {
			if _, ok := o.resident[op.key]; !ok {
				return fmt.Sprintf("L4: key %d (bitmap of %d bytes) is not retrievable right after its Put although capacity is %d", op.key, sz, capacity)
			}
		} else if _, ok := o.resident[op.key]; !ok {
			st.selfEvictions++
		}
		s.lastUse[op.key] = i
		s.lastPut[op.key] = i
	} else if _, ok := s.prev.resident[op.key]; ok {
		s.lastUse[op.key] = i // a hit counts as use
	}
	for k := range s.prev.resident {
		if _, still := o.resident[k]; still {
			continue
		}
		if !op.put && !op.reput {
			return fmt.Sprintf("L3: op %d (%s) is a Get, yet key %d stopped being retrievable", i-1, op, k)
		}
		if k == op.key {
			continue // the key just stored may be dropped when it does not fit
		}
		st.evictions++
		changed := false
		for sk := range o.resident {
			if sk == op.key {
				continue
			}
			if s.lastUse[sk] < s.lastUse[k] {
				return fmt.Sprintf("L3: op %d (%s) evicted key %d (last used at op %d) but kept key %d (last used at op %d)", i-1, op, k, s.lastUse[k]-1, sk, s.lastUse[sk]-1)
			}
			if s.lastPut[sk] < s.lastPut[k] {
				changed = true // by insertion order alone the survivor would have gone first: a Get hit decided
			}
		}
		if changed {
			st.getChangedVictim++
		}
	}
	for k := range o.resident {
		if _, was := s.prev.resident[k]; !was && !((op.put || op.reput) && k == op.key) {
			return fmt.Sprintf("L1: key %d became retrievable at op %d (%s) without being stored", k, i-1, op)
		}
	}
	var sum uint64
	for _, m := range s.maxSize {
		sum += m + lruSlack
	}
	if sum <= capacity {
		for k := range s.maxSize {
			if _, ok := o.resident[k]; !ok {
				return fmt.Sprintf("L5: key %d was evicted although everything ever stored fits comfortably (%d bytes incl. allowance <= %d)", k, sum, capacity)
			}
		}
	}
	s.prev = o
	return ""
}

func opsString(ops []cop) string {
	var l []string
	for _, o := range ops {
		l = append(l, o.String())
	}
	return strings.Join(l, "/")
}

func runC07(r *vf.Run) {
	r.Rule("one evaluation = one prefix of an operation sequence replayed on a fresh LRUCache and probed (every key looked up at its end) with laws L1-L6 checked for its last operation and the absolute law L7 (the most recently used entries that fit together are retrievable) for its end state; " +
		"exhaustive part: all sequences over 3 keys x {Get, Put of 3 size classes} plus the re-Put of the same object after the caller grew it (15 symbols) up to the stated length for 5 capacities (DFS, every node is a prefix); " +
		"random part: sequences up to length 300 over <= 12 keys, sizes 8 B .. 4x capacity; long part: crafted families (n resident entries then one displacing Put, n up to 513/4097; bursts of 0..300/2100 Get hits between two Puts) and random Get-heavy sequences up to 4300 operations over <= 151 keys and 14 (thorough 100) sequences up to 9000 operations over 600-2100 keys with 150-650 entries resident, laws checked at the listed positions (two replays each); distinct_nontrivial = distinct (capacity, sequence) nodes with >= 2 operations")
	r.Assume("per-entry bookkeeping allowance of 256 bytes for 'fits' (the implementation's is 64 bytes)", "bitmaps are not mutated by the caller after Put")
	keys := []uint64{0, 1, 1<<64 - 1} // which three keys does not matter to a correct cache; 0 and the largest key are where sentinels live
	var syms []cop
	for _, k := range keys {
		syms = append(syms, cop{key: k})
		for s := 0; s < 3; s++ {
			syms = append(syms, cop{put: true, key: k, size: s})
		}
		syms = append(syms, cop{reput: true, key: k, size: 3000}) // the stored object grown by ~6 KB and stored again
	}
	r.Extra("size_classes_bytes", []uint64{mkbm(0, 1).GetSizeInBytes(), mkbm(1, 1).GetSizeInBytes(), mkbm(2, 1).GetSizeInBytes()})
	maxLen := r.Pick(5, 6)
	r.Extra("exhaustive_max_length", maxLen)
	caps := []uint64{0, 150, 400, 9000, 1 << 20, 1<<64 - 1}
	type task struct {
		capacity uint64
		first    cop
	}
	var ids []string
	tasks := map[string]task{}
	for _, c := range caps {
		for _, s := range syms {
			id := fmt.Sprintf("exh/c%d/%s", c, s)
			ids = append(ids, id)
			tasks[id] = task{c, s}
		}
	}
	r.ForEach(ids, 16, func(id string) {
		t := tasks[id]
		var st lruStats
		var nodes, deeper int64
		bad := 0
		var rec func(prefix []cop, pid string, state *lruState)
		rec = func(prefix []cop, pid string, state *lruState) {
			// check the node `prefix` (its last op), then descend
			law := state.step(t.capacity, prefix, keys, &st)
			nodes++
			if law != "" {
				bad++
				if bad <= 2 {
					r.Violation(pid, "law", map[string]any{"capacity": t.capacity, "sequence": opsString(prefix), "law": law,
						"legend": "Pk.s = Put(key k, size class s of size_classes_bytes); Gk = Get(key k); each Put stores a bitmap with a unique id"})
				}
				return
			}
			if len(prefix) >= 2 && len(prefix) <= maxLen {
				r.Distinct(pid)
			} else if len(prefix) > maxLen {
				deeper++ // counted, not remembered one by one (tens of millions of nodes)
			}
			limit := maxLen
			if r.Thorough() && t.capacity == 400 {
				limit = maxLen + 1 // one level deeper where evictions are densest
			}
			if len(prefix) >= limit || bad > 2 {
				return
			}
			for _, s := range syms {
				cid := pid + "/" + s.String()
				if !r.Want(cid) {
					continue
				}
				next := append(append(make([]cop, 0, len(prefix)+1), prefix...), s)
				rec(next, cid, state.clone())
			}
		}
		rec([]cop{t.first}, id, newLRUState())
		r.Eval(int(nodes))
		r.Count("exhaustive_nodes", nodes)
		r.Count("exhaustive_nodes_one_level_deeper", deeper)
		r.Count("evictions_observed", st.evictions)
		r.Count("evictions_where_a_get_hit_changed_the_victim", st.getChangedVictim)
		r.Count("growing_overwrites_of_resident_key", st.growOverwrites)
		r.Count("shrinking_overwrites_of_resident_key", st.shrinkOverwrites)
		r.Count("puts_too_large_to_stay", st.selfEvictions)
		r.Cover("capacities", fmt.Sprint(t.capacity))
	})
	if !r.Replay() {
		// the random part below is not exhaustive, so the run as a whole is not flagged exhaustive
		r.Extra("exhaustive_part_complete", r.Violations() == 0)
	}
	// regression: the witness of the repaired defect, and random long sequences
	nr := r.Pick(150, 1500)
	var rids []string
	for i := 0; i < nr; i++ {
		rids = append(rids, fmt.Sprintf("rnd%04d", i))
	}
	rids = append(rids, "regress-overwrite")
	r.ForEach(rids, 16, func(id string) {
		rng := r.RNG(id)
		var capacity uint64
		var seq []cop
		rk := []uint64{1, 2, 3, 4, 5, 6, 7, 8, 9, 10, 11, 12}
		if rng.Intn(2) == 0 {
			rk = []uint64{0, 1, 1<<64 - 1, 1 << 63, 1<<32 - 1, 1 << 32, 0xFFFFFFFF00000000, 2, 3, 4, 5, 6} // extreme keys
		}
		if id == "regress-overwrite" {
			capacity = 200
			seq = []cop{{put: true, key: 1, size: 0}, {put: true, key: 1, size: 8000}, {key: 1}}
			rk = []uint64{1}
		} else {
			capacity = []uint64{0, 100, 300, 1000, 5000, 20000, 1 << 22, 1 << 63, 1<<63 + 1, 1<<64 - 1}[rng.Intn(10)]
			rk = rk[:2+rng.Intn(11)]
			seq = randomLRUSeq(rng, capacity, rk, 5+rng.Intn(r.Pick(120, 296)))
		}
		var st lruStats
		state := newLRUState()
		for i := 1; i <= len(seq); i++ {
			if law := state.step(capacity, seq[:i], rk, &st); law != "" {
				r.Violation(id, "law", map[string]any{"capacity": capacity, "sequence": opsString(seq[:i]), "law": law,
					"legend": "Pk.s = Put(key k, s values (size classes 0,1,2 as in size_classes_bytes)); Gk = Get(key k)"})
				break
			}
		}
		r.Eval(len(seq))
		r.Distinct(id + "|" + opsString(seq))
		r.Count("random_sequences", 1)
		r.Max("random_sequence_length", int64(len(seq)))
		r.Count("evictions_observed", st.evictions)
		r.Count("evictions_where_a_get_hit_changed_the_victim", st.getChangedVictim)
		r.Count("growing_overwrites_of_resident_key", st.growOverwrites)
		r.Count("shrinking_overwrites_of_resident_key", st.shrinkOverwrites)
		r.Count("puts_too_large_to_stay", st.selfEvictions)
		r.Cover("capacities", fmt.Sprint(capacity))
		if id == "rnd0000" {
			s := opsString(seq)
			if len(s) > 300 {
				s = s[:300] + "…"
			}
			r.Sample("random-sequence", map[string]any{"capacity": capacity, "keys": len(rk), "length": len(seq), "ops": s})
		}
	})
	// long crafted and random sequences, checked at chosen positions only (stateAfter/checkAt): patterns that short
	// exhaustive sequences over three keys cannot contain
	type longCase struct {
		capacity  uint64
		seq       []cop
		keys      []uint64
		positions []int
		family    string
	}
	longCases := map[string]longCase{}
	var lids []string
	addLong := func(id string, c longCase) {
		lids = append(lids, id)
		longCases[id] = c
	}
	const entry = 1000 // bytes of one ordinary entry in these families
	// (1) many small resident entries, then one Put that has to displace most or all of them
	ns := []int{1, 2, 3, 8, 16, 31, 32, 33, 34, 35, 40, 63, 64, 65, 66, 70, 100, 127, 128, 129, 130, 200, 257, 300, 513}
	if r.Thorough() {
		ns = append(ns, 1000, 1025, 2049, 4097)
	}
	for _, n := range ns {
		capacity := uint64(n) * (entry + lruSlack)
		for bi, big := range []int{int(capacity) - 200, int(capacity) / 2, int(capacity) * 2, int(capacity) - 200 - entry} {
			var seq []cop
			var ks []uint64
			for k := 0; k < n; k++ {
				seq = append(seq, cop{put: true, key: uint64(k), bytes: entry, runs: (k+bi)%3 == 0})
				ks = append(ks, uint64(k))
			}
			if bi%2 == 1 {
				seq = append(seq, cop{key: 0}, cop{key: uint64(n - 1)}) // hits in between
			}
			at := len(seq)
			seq = append(seq, cop{put: true, key: uint64(n + 1), bytes: big, runs: bi == 1}, cop{put: true, key: uint64(n + 2), bytes: entry}, cop{key: uint64(n + 1)}, cop{put: true, key: 0, bytes: entry})
			ks = append(ks, uint64(n+1), uint64(n+2))
			addLong(fmt.Sprintf("long/displace/n%d/b%d", n, bi), longCase{capacity, seq, ks, []int{at, at + 1, at + 2, at + 4}, "one Put displacing many entries"})
		}
	}
	// (1b) entries made of run containers only, a handful resident, many stored: the bound is in in-memory bytes
	for _, fit := range []int{1, 2, 3, 5, 8} {
		for _, sz := range []int{400, 2000, 12000} {
			capacity := uint64(fit) * uint64(sz+lruSlack)
			var seq []cop
			var ks []uint64
			var pos []int
			for k := 0; k < 3*fit+4; k++ {
				seq = append(seq, cop{put: true, key: uint64(k % (2*fit + 3)), bytes: sz, runs: true})
				pos = append(pos, len(seq))
				if k%3 == 2 {
					seq = append(seq, cop{key: uint64(k % (2*fit + 3))})
				}
			}
			for k := 0; k < 2*fit+3; k++ {
				ks = append(ks, uint64(k))
			}
			addLong(fmt.Sprintf("long/runs/fit%d/sz%d", fit, sz), longCase{capacity, seq, ks, pos, "entries made of run containers"})
		}
	}
	// (2) bursts of Get hits between two Puts, then the Get that decides the victim
	maxBurst := r.Pick(300, 2100)
	for _, m := range []int{2, 3} {
		capacity := uint64(m) * (entry + lruSlack) // m entries fit comfortably, m+1 do not fit
		for g := 0; g <= maxBurst; g++ {
			for pat := 0; pat < 2; pat++ {
				var seq []cop
				ks := []uint64{}
				for k := 1; k <= m; k++ {
					seq = append(seq, cop{put: true, key: uint64(k), bytes: entry})
					ks = append(ks, uint64(k))
				}
				for i := 0; i < g; i++ {
					if pat == 0 {
						seq = append(seq, cop{key: uint64(m)}) // all on the newest key
					} else {
						seq = append(seq, cop{key: uint64(2 + i%(m-1))}) // round-robin over all keys but the oldest
					}
				}
				seq = append(seq, cop{key: 1}) // the oldest key is used last ...
				at := len(seq)
				seq = append(seq, cop{put: true, key: 100, bytes: entry}, cop{put: true, key: 101, bytes: entry}) // ... so it must survive the next Put
				ks = append(ks, 100, 101)
				addLong(fmt.Sprintf("long/burst/m%d/p%d/g%d", m, pat, g), longCase{capacity, seq, ks, []int{at + 1, at + 2}, "Get burst between two Puts"})
			}
		}
	}
	// (3) random long sequences: many keys, Get-heavy, bimodal sizes
	nLong, nLarge := r.Pick(60, 600), r.Pick(14, 100)
	for i := 0; i < nLong+nLarge; i++ {
		id := fmt.Sprintf("long/random/%03d", i)
		rng := r.RNG(id)
		nk := 2 + rng.Intn(150)
		fit := 1 + rng.Intn(nk+10) // entries that fit
		n := 300 + rng.Intn(r.Pick(1500, 4000))
		if i >= nLong {
			// large populations: hundreds of entries resident at once, a thousand and more keys (an index structure of the
			// cache's own has to grow, shrink and wrap around)
			nk = 600 + rng.Intn(1500)
			fit = 150 + rng.Intn(500)
			n = 4000 + rng.Intn(5000)
		}
		capacity := uint64(fit) * (entry + lruSlack)
		getPct := []int{30, 80, 95, 98}[rng.Intn(4)]
		if i >= nLong {
			getPct = []int{20, 50, 70}[rng.Intn(3)]
		}
		var seq []cop
		var ks []uint64
		for k := 0; k < nk; k++ {
			ks = append(ks, uint64(k))
		}
		var puts, gets []int
		for len(seq) < n {
			k := ks[rng.Intn(nk)]
			if rng.Intn(100) < getPct {
				seq = append(seq, cop{key: k})
				gets = append(gets, len(seq))
				continue
			}
			b := entry
			switch rng.Intn(12) {
			case 0:
				b = int(capacity) - 200 - rng.Intn(entry) // rare near-capacity entry
				if i >= nLong {
					b = entry * (2 + rng.Intn(20)) // large populations: an entry that displaces a few dozen others
				}
			case 1:
				b = int(capacity)/2 + rng.Intn(entry)
				if i >= nLong {
					b = entry * (2 + rng.Intn(8))
				}
			case 2:
				b = 20 + rng.Intn(entry/2)
			}
			seq = append(seq, cop{put: true, key: k, bytes: b, runs: rng.Intn(4) == 0})
			puts = append(puts, len(seq))
		}
		var pos []int
		rng.Shuffle(len(puts), func(a, b int) { puts[a], puts[b] = puts[b], puts[a] })
		rng.Shuffle(len(gets), func(a, b int) { gets[a], gets[b] = gets[b], gets[a] })
		pos = append(pos, puts[:min(len(puts), 50)]...)
		pos = append(pos, gets[:min(len(gets), 10)]...)
		sort.Ints(pos)
		addLong(id, longCase{capacity, seq, ks, pos, "random long sequence"})
	}
	r.ForEach(lids, 16, func(id string) {
		c := longCases[id]
		var st lruStats
		at, law := checkAt(c.capacity, c.seq, c.keys, c.positions, &st)
		if law != "" {
			s := opsString(c.seq[:at])
			if len(s) > 4000 {
				s = s[:2000] + " … " + s[len(s)-1500:]
			}
			r.Violation(id, "law", map[string]any{"capacity": c.capacity, "family": c.family, "failing_position": at - 1, "sequence_up_to_it": s, "law": law,
				"legend": "Bk.n = Put(key k, bitmap of <= n bytes in array containers); Uk.n = the same in run containers; Gk = Get(key k)"})
		}
		r.Eval(len(c.positions))
		r.Distinct(id)
		r.Count("long_sequences", 1)
		r.Count("long_sequence_positions_checked", int64(len(c.positions)))
		r.Max("long_sequence_length", int64(len(c.seq)))
		r.Max("long_sequence_keys", int64(len(c.keys)))
		r.Count("evictions_observed", st.evictions)
		r.Count("evictions_observed_in_long_sequences", st.evictions)
		r.Count("evictions_where_a_get_hit_changed_the_victim", st.getChangedVictim)
		r.Count("puts_too_large_to_stay", st.selfEvictions)
		r.Cover("long_families", c.family)
	})
	r.Floor("long sequences evicted something", r.GetCount("evictions_observed_in_long_sequences") > 0)
	c07FitConsistency(r)
	// many entries in an ample cache: nothing may be evicted, every key must hit with its own bitmap, counters exact
	if r.Want("bulk") {
		r.Guard("bulk", func() {
			n := r.Pick(70000, 300000)
			var g, p, h, m ix.Counter
			c := updog.NewLRUCache([]uint64{1 << 31, 1<<64 - 1}[int(r.Seed)%2], updog.WithCacheMetrics(&updog.CacheMetrics{CacheHit: &h, CacheMiss: &m, GetCall: &g, PutCall: &p}))
			shared := mkbm(1, 424242) // one bitmap object stored under several keys
			for k := 0; k < n; k++ {
				if k%1000 == 7 {
					c.Put(uint64(k)*2654435761, shared)
				} else {
					c.Put(uint64(k)*2654435761, mkbm(0, uint32(k)))
				}
			}
			bad := ""
			for k := 0; k < n && bad == ""; k++ {
				bm, ok := c.Get(uint64(k) * 2654435761)
				switch {
				case !ok:
					bad = fmt.Sprintf("L5: key #%d of %d was evicted from a 2 GiB cache", k, n)
				case k%1000 == 7 && bm != shared:
					bad = fmt.Sprintf("L1: key #%d does not return the (shared) bitmap stored under it", k)
				case k%1000 != 7 && !bm.Contains(idBase+uint32(k)):
					bad = fmt.Sprintf("L1: key #%d returns a bitmap stored under another key", k)
				}
			}
			if bad == "" && (g.N != int64(n) || p.N != int64(n) || h.N != int64(n) || m.N != 0) {
				bad = fmt.Sprintf("L6: counters get=%d put=%d hit=%d miss=%d after %d puts and %d hits", g.N, p.N, h.N, m.N, n, n)
			}
			r.Eval(2 * n)
			r.Count("bulk_entries", int64(n))
			r.Distinct("bulk")
			if bad != "" {
				r.Violation("bulk", "law", map[string]any{"law": bad, "entries": n})
			}
		})
	}
	r.Sample("exhaustive-node", map[string]any{"capacity": 400, "sequence": "P1.1/P2.1/G1/P3.1", "meaning": "with capacity 400 two class-1 entries fit; the Get of key 1 makes key 2 the victim of the third Put"})
	r.Floor("eviction where a Get hit changed the victim", r.GetCount("evictions_where_a_get_hit_changed_the_victim") > 0)
	r.Floor("growing overwrite of a resident key", r.GetCount("growing_overwrites_of_resident_key") > 0)
	r.Floor("capacity 0 exercised", r.HasCover("capacities", "0"))
}

func randomLRUSeq(rng *rand.Rand, capacity uint64, keys []uint64, n int) []cop {
	sizes := []int{0, 1, 2, 10, 200, 1000, 3000, 9000}
	// bias sizes to the neighbourhood of the capacity (values cost ~2 bytes each)
	if capacity > 0 && capacity < 1<<21 {
		c := int(capacity)
		sizes = append(sizes, c/8+10, c/4+10, c/2+10, c*2+10)
	}
	sort.Ints(sizes)
	var seq []cop
	for len(seq) < n {
		k := keys[rng.Intn(len(keys))]
		switch rng.Intn(10) {
		case 0, 1, 2:
			seq = append(seq, cop{key: k})
		case 3:
			// overwrite-with-larger pattern
			seq = append(seq, cop{put: true, key: k, size: sizes[rng.Intn(3)]}, cop{put: true, key: k, size: sizes[len(sizes)-1-rng.Intn(3)]})
		case 5:
			// the same object changed and stored again (grown, or emptied)
			seq = append(seq, cop{reput: true, key: k, size: []int{-1, 5, 500, 5000, sizes[len(sizes)-1]}[rng.Intn(5)]})
		case 4:
			// get-then-evict pattern: touch the oldest key, then insert a new one
			seq = append(seq, cop{key: keys[0]}, cop{put: true, key: keys[len(keys)-1], size: sizes[rng.Intn(len(sizes))]})
		default:
			seq = append(seq, cop{put: true, key: k, size: sizes[rng.Intn(len(sizes))]})
		}
	}
	return seq[:n]
}
