package main

import (
	"context"
	"encoding/json"
	"fmt"
	"math/rand"
	"net"
	"os"
	"path/filepath"
	"reflect"
	"runtime"
	"sort"
	"strings"
	"sync"
	"sync/atomic"
	"syscall"
	"time"

	"github.com/RoaringBitmap/roaring"
	"github.com/akrennmair/updog"
	pb "github.com/akrennmair/updog/proto/updog/v1"
	"github.com/akrennmair/updog/verifharness/gen"
	"github.com/akrennmair/updog/verifharness/ix"
	"github.com/akrennmair/updog/verifharness/mon"
	"github.com/akrennmair/updog/verifharness/oracle"
	"github.com/akrennmair/updog/verifharness/vf"
	"github.com/anishathalye/porcupine"
	"google.golang.org/grpc"
	"google.golang.org/grpc/codes"
	"google.golang.org/grpc/credentials/insecure"
	"google.golang.org/grpc/status"
)

func init() {
	register("C04", "exploration", runC04)
	workers["c04-index"] = workerC04Index
	workers["c04-cache"] = workerC04Cache
}

// ---------------------------------------------------------------------------
// shared spec / result types (JSON between orchestrator and race child)

type c04Query struct {
	E    *oracle.Expr  `json:"e"`
	GB   []string      `json:"gb"`
	Want oracle.Answer `json:"want"`
	// Hole: the query is sent as AND(E, <empty expression>): structurally incomplete, the library rejects it
	Hole bool `json:"hole,omitempty"`
	// HoleKind (with Hole): 0 an operand that is an empty expression message, 1 a NOT without operand below an OR, 2 no
	// expression at all (the query's expr field is not set)
	HoleKind int `json:"hole_kind,omitempty"`
}

// proto renders the query's expression for the wire.
func (q c04Query) proto() *pb.Query_Expression {
	if !q.Hole {
		return q.E.ToProto()
	}
	switch q.HoleKind {
	case 1:
		return &pb.Query_Expression{Value: &pb.Query_Expression_Or_{Or: &pb.Query_Expression_Or{Exprs: []*pb.Query_Expression{q.E.ToProto(), {Value: &pb.Query_Expression_Not_{Not: &pb.Query_Expression_Not{}}}}}}}
	case 2:
		return nil
	}
	return &pb.Query_Expression{Value: &pb.Query_Expression_And_{And: &pb.Query_Expression_And{Exprs: []*pb.Query_Expression{q.E.ToProto(), {}}}}}
}

type c04Config struct {
	Name       string `json:"name"`
	Goroutines int    `json:"goroutines"`
	Cache      string `json:"cache"` // none | tiny | ample
	Mode       string `json:"mode"`
	PerG       int    `json:"per_g"`
	// Repeat > 1: the configuration is run that many times, each time on a freshly opened index, and every goroutine's
	// first call is a group-by query or a schema read: the first overlapping uses of a fresh index are where lazily
	// initialised shared state (sorted value lists, decoded bitmaps, memoised schema) is raced.
	Repeat int `json:"repeat,omitempty"`
	// WideOnly: the goroutines draw from the last WideQueries entries of the pool only (operators of eight operands that
	// are operators of four to six operands themselves)
	WideOnly bool `json:"wide_only,omitempty"`
}

type c04Spec struct {
	WideQueries int          `json:"wide_queries"` // that many entries at the end of Queries are the wide nested ones
	Index       string       `json:"index"`
	Queries     []c04Query   `json:"queries"`
	Schema      []oracle.Row `json:"schema_rows"` // rows to derive the expected schema from (small projection)
	Configs     []c04Config  `json:"configs"`
	Seed        int64        `json:"seed"`
}

type c04ConfigResult struct {
	Name             string   `json:"name"`
	Executions       int64    `json:"executions"`
	SchemaReads      int64    `json:"schema_reads"`
	SharedQueryExecs int64    `json:"shared_query_execs"`
	SchemasScrambled int64    `json:"schemas_scrambled"`
	Mismatches       []string `json:"mismatches"`
	Panics           []string `json:"panics"`
	OverlapPairs     int64    `json:"overlap_pairs"`
	MaxInFlight      int      `json:"max_in_flight"`
	Hits             int64    `json:"hits"`
	Misses           int64    `json:"misses"`
	Puts             int64    `json:"puts"`
	OrderSignature   string   `json:"order_signature"`
	DistinctShapes   int      `json:"distinct_shapes"`
	EvictedAtLeast   int64    `json:"evicted_at_least"`
	GoroutinesActive int      `json:"goroutines_active"`
	FreshOpens       int      `json:"fresh_opens"`
}

type span struct{ call, ret int64 }

// evictionSpy counts Get misses on keys that were stored before (= evictions
// seen by queries while other operations are in flight). It must not serialise
// the cache calls, or it would hide the very races it rides along with: it only
// uses an insert-only lock-free key set, touched BEFORE the inner Put and AFTER
// the inner Get, so that it orders no pair of inner operations.
type evictionSpy struct {
	inner        updog.Cache
	slots        [1 << 16]atomic.Uint64
	missAfterPut int64
}

func (s *evictionSpy) add(key uint64) {
	if key == 0 {
		key = 1
	}
	for i := key % uint64(len(s.slots)); ; i = (i + 1) % uint64(len(s.slots)) {
		cur := s.slots[i].Load()
		if cur == key {
			return
		}
		if cur == 0 && s.slots[i].CompareAndSwap(0, key) {
			return
		}
	}
}

func (s *evictionSpy) has(key uint64) bool {
	if key == 0 {
		key = 1
	}
	for i := key % uint64(len(s.slots)); ; i = (i + 1) % uint64(len(s.slots)) {
		cur := s.slots[i].Load()
		if cur == key {
			return true
		}
		if cur == 0 {
			return false
		}
	}
}

func (s *evictionSpy) Put(key uint64, bm *roaring.Bitmap) {
	s.add(key)
	s.inner.Put(key, bm)
}

func (s *evictionSpy) Get(key uint64) (*roaring.Bitmap, bool) {
	bm, ok := s.inner.Get(key)
	if !ok && s.has(key) {
		atomic.AddInt64(&s.missAfterPut, 1)
	}
	return bm, ok
}

func overlapStats(spans []span) (pairs int64, maxInFlight int) {
	type ev struct {
		t    int64
		kind int // 0 = return, 1 = call (returns first at equal times: no overlap claimed)
	}
	evs := make([]ev, 0, 2*len(spans))
	for _, s := range spans {
		evs = append(evs, ev{s.call, 1}, ev{s.ret, 0})
	}
	sort.Slice(evs, func(i, j int) bool {
		if evs[i].t != evs[j].t {
			return evs[i].t < evs[j].t
		}
		return evs[i].kind < evs[j].kind
	})
	active := 0
	for _, e := range evs {
		if e.kind == 1 {
			pairs += int64(active)
			active++
			if active > maxInFlight {
				maxInFlight = active
			}
		} else {
			active--
		}
	}
	return
}

// ---------------------------------------------------------------------------
// child: concurrent Execute/GetSchema on one index (built with -race)

// c04Progress counts completed calls of the index child; its watchdog turns "nothing has completed for 100 seconds" into
// a goroutine dump on stderr and exit status 97 (a deadlock among the calls would otherwise cost the child's whole
// time budget; the verdict is made by the supervisor from the dump, not from the elapsed time).
var c04Progress atomic.Int64

func workerC04Index(args []string) int {
	go func() {
		last, since := int64(-1), time.Now()
		for {
			time.Sleep(2 * time.Second)
			if n := c04Progress.Load(); n != last {
				last, since = n, time.Now()
			} else if time.Since(since) > 100*time.Second {
				buf := make([]byte, 8<<20)
				buf = buf[:runtime.Stack(buf, true)]
				fmt.Fprintf(os.Stderr, "\nC04-NO-PROGRESS: no call has completed for 100 s; goroutine dump follows\n\n%s\n", buf)
				os.Exit(97)
			}
		}
	}()
	var spec c04Spec
	if err := readSpec(args[0], &spec); err != nil {
		fmt.Fprintln(os.Stderr, err)
		return 3
	}
	var results []c04ConfigResult
	for _, cfg := range spec.Configs {
		fmt.Fprintf(os.Stderr, "c04-index: starting config %s\n", cfg.Name)
		res := c04RunConfig(&spec, cfg)
		for rep := 1; rep < cfg.Repeat; rep++ {
			more := c04RunConfig(&spec, cfg)
			res.Executions += more.Executions
			res.SchemaReads += more.SchemaReads
			res.SharedQueryExecs += more.SharedQueryExecs
			res.SchemasScrambled += more.SchemasScrambled
			res.Mismatches = append(res.Mismatches, more.Mismatches...)
			res.Panics = append(res.Panics, more.Panics...)
			res.OverlapPairs += more.OverlapPairs
			res.Hits += more.Hits
			res.Misses += more.Misses
			res.EvictedAtLeast += more.EvictedAtLeast
			res.FreshOpens++
		}
		res.FreshOpens++
		results = append(results, res)
	}
	out, _ := json.Marshal(results)
	fmt.Println(string(out))
	return 0
}

func c04RunConfig(spec *c04Spec, cfg c04Config) c04ConfigResult {
	res := c04ConfigResult{Name: cfg.Name}
	var hit, miss, put ix.Counter
	var cache updog.Cache
	var lru *updog.LRUCache
	switch cfg.Cache {
	case "tiny":
		lru = updog.NewLRUCache(3000, updog.WithCacheMetrics(&updog.CacheMetrics{CacheHit: &hit, CacheMiss: &miss, PutCall: &put}))
	case "ample":
		lru = updog.NewLRUCache(1<<30, updog.WithCacheMetrics(&updog.CacheMetrics{CacheHit: &hit, CacheMiss: &miss, PutCall: &put}))
	}
	var spy *evictionSpy
	if lru != nil {
		spy = &evictionSpy{inner: lru}
		cache = spy
	}
	idx, err := ix.Open(spec.Index, cfg.Mode, cache)
	if err != nil {
		res.Mismatches = append(res.Mismatches, "open: "+err.Error())
		return res
	}
	defer idx.Close()
	start := time.Now()
	var wg, ready sync.WaitGroup
	gate := make(chan struct{})
	spans := make([][]span, cfg.Goroutines)
	orders := make([][]int64, cfg.Goroutines)
	var mu sync.Mutex
	var seq int64
	shapes := map[string]bool{}
	// Query objects shared by all goroutines (the same pointer executed by several goroutines at once): Execute only
	// reads its query
	shared := make([]*updog.Query, len(spec.Queries))
	for i, q := range spec.Queries {
		shared[i] = &updog.Query{Expr: q.E.ToUpdog(), GroupBy: append([]string{}, q.GB...)}
	}
	var sharedExecs, scrambled int64
	for g := 0; g < cfg.Goroutines; g++ {
		wg.Add(1)
		ready.Add(1)
		go func(g int) {
			defer wg.Done()
			rng := rand.New(rand.NewSource(spec.Seed*1000 + int64(g)*7919 + int64(len(cfg.Name))))
			localShapes := map[string]bool{}
			var localMis, localPanics []string
			var execs, schemas int64
			ready.Done()
			<-gate
			for i := 0; i < cfg.PerG; i++ {
				if i%17 == 3 {
					var sch *updog.Schema
					t0 := time.Since(start).Nanoseconds()
					p, msg, _ := vf.Try(func() { sch = idx.GetSchema() })
					spans[g] = append(spans[g], span{t0, time.Since(start).Nanoseconds()})
					schemas++
					if p {
						localPanics = append(localPanics, "GetSchema: "+msg)
					} else if d := oracle.CompareSchema(sch, spec.Schema); d != "" && len(localMis) < 3 {
						localMis = append(localMis, "GetSchema: "+d)
					} else if sch != nil {
						// the caller owns what it was given: reorder and overwrite it; nobody else may notice
						for ci := range sch.Columns {
							vs := sch.Columns[ci].Values
							for a, b := 0, len(vs)-1; a < b; a, b = a+1, b-1 {
								vs[a], vs[b] = vs[b], vs[a]
							}
							if len(vs) > 0 {
								vs[0].Value = "overwritten by the caller"
							}
							sch.Columns[ci].Name = "renamed by the caller"
						}
						for a, b := 0, len(sch.Columns)-1; a < b; a, b = a+1, b-1 {
							sch.Columns[a], sch.Columns[b] = sch.Columns[b], sch.Columns[a]
						}
						atomic.AddInt64(&scrambled, 1)
					}
					continue
				}
				qi := rng.Intn(len(spec.Queries) - spec.WideQueries)
				if cfg.WideOnly && spec.WideQueries > 0 {
					qi = len(spec.Queries) - 1 - rng.Intn(spec.WideQueries)
				}
				q := spec.Queries[qi]
				if cfg.Repeat > 1 && i == 0 {
					// first call on the fresh index: a group-by query (all goroutines pick among the same few)
					for try := 0; try < 50 && len(q.GB) == 0; try++ {
						qi = rng.Intn(len(spec.Queries) - spec.WideQueries)
						q = spec.Queries[qi]
					}
				}
				// a Query value of its own, or the object all goroutines share, or a shallow copy of that object
				var uq *updog.Query
				switch rng.Intn(6) {
				case 0, 1:
					uq = shared[qi]
					atomic.AddInt64(&sharedExecs, 1)
				case 2:
					cq := *shared[qi]
					uq = &cq
					atomic.AddInt64(&sharedExecs, 1)
				default:
					uq = &updog.Query{Expr: q.E.ToUpdog(), GroupBy: append([]string{}, q.GB...)}
				}
				var r *updog.Result
				var err error
				t0 := time.Since(start).Nanoseconds()
				p, msg, stack := vf.Try(func() { r, err = idx.Execute(uq) })
				t1 := time.Since(start).Nanoseconds()
				spans[g] = append(spans[g], span{t0, t1})
				c04Progress.Add(1)
				orders[g] = append(orders[g], atomic.AddInt64(&seq, 1))
				execs++
				localShapes[q.E.Shape()] = true
				if p {
					if len(localPanics) < 3 {
						localPanics = append(localPanics, fmt.Sprintf("Execute(%s ; %q): %s\n%s", q.E.String(), q.GB, msg, head(stack, 2500)))
					}
					continue
				}
				if d := oracle.CompareResult(r, err, q.Want, q.GB); d != "" && len(localMis) < 3 {
					localMis = append(localMis, fmt.Sprintf("goroutine %d op %d: %s ; %q: %s", g, i, q.E.String(), q.GB, d))
				}
			}
			mu.Lock()
			res.Executions += execs
			res.SchemaReads += schemas
			res.Mismatches = append(res.Mismatches, localMis...)
			res.Panics = append(res.Panics, localPanics...)
			for s := range localShapes {
				shapes[s] = true
			}
			mu.Unlock()
		}(g)
	}
	ready.Wait()
	close(gate)
	wg.Wait()
	var all []span
	active := 0
	for _, s := range spans {
		all = append(all, s...)
		if len(s) > 0 {
			active++
		}
	}
	res.GoroutinesActive = active
	res.SharedQueryExecs, res.SchemasScrambled = sharedExecs, scrambled
	res.OverlapPairs, res.MaxInFlight = overlapStats(all)
	res.Hits, res.Misses, res.Puts = hit.N, miss.N, put.N
	res.DistinctShapes = len(shapes)
	// completion-order signature: which goroutine finished its k-th execution when (first 64 completions)
	type oc struct {
		seq int64
		g   int
	}
	var ocs []oc
	for g, o := range orders {
		for _, s := range o {
			if s <= 64 {
				ocs = append(ocs, oc{s, g})
			}
		}
	}
	sort.Slice(ocs, func(i, j int) bool { return ocs[i].seq < ocs[j].seq })
	var sb strings.Builder
	for _, o := range ocs {
		fmt.Fprintf(&sb, "%x", o.g%36)
	}
	res.OrderSignature = sb.String()
	if spy != nil {
		res.EvictedAtLeast = atomic.LoadInt64(&spy.missAfterPut)
	}
	return res
}

// ---------------------------------------------------------------------------
// child: LRUCache used directly from many goroutines, history recorded at the caller

type cacheOp struct {
	G      int    `json:"g"`
	Put    bool   `json:"put"`
	Key    uint64 `json:"key"`
	ID     uint32 `json:"id"`  // Put: id stored; Get hit: id found (0 = none)
	Hit    bool   `json:"hit"` // Get only
	Call   int64  `json:"call"`
	Return int64  `json:"ret"`
	Alien  bool   `json:"alien"` // Get hit whose bitmap carries no recognisable id or more than one
}

type cacheRound struct {
	Capacity   uint64    `json:"capacity"`
	Ops        []cacheOp `json:"ops"`
	FinalBytes uint64    `json:"final_bytes"`
	Panics     []string  `json:"panics"`
}

func workerC04Cache(args []string) int {
	var rounds, goroutines, perG, keys int
	var seed int64
	fmt.Sscan(args[0], &rounds)
	fmt.Sscan(args[1], &goroutines)
	fmt.Sscan(args[2], &perG)
	fmt.Sscan(args[3], &keys)
	fmt.Sscan(args[4], &seed)
	out, err := os.Create(args[5])
	if err != nil {
		fmt.Fprintln(os.Stderr, err)
		return 3
	}
	defer out.Close()
	enc := json.NewEncoder(out)
	for round := 0; round < rounds; round++ {
		capacity := []uint64{250, 600, 1 << 24}[round%3]
		c := updog.NewLRUCache(capacity)
		start := time.Now()
		var wg, ready sync.WaitGroup
		gate := make(chan struct{})
		opsPer := make([][]cacheOp, goroutines)
		panics := make([][]string, goroutines)
		for g := 0; g < goroutines; g++ {
			wg.Add(1)
			ready.Add(1)
			go func(g int) {
				defer wg.Done()
				rng := rand.New(rand.NewSource(seed + int64(round)*131 + int64(g)*7))
				ready.Done()
				<-gate
				for i := 0; i < perG; i++ {
					key := uint64(1 + rng.Intn(keys))
					op := cacheOp{G: g, Key: key}
					if rng.Intn(2) == 0 {
						op.Put = true
						op.ID = uint32(round%1000)<<20 | uint32(g)<<12 | uint32(i) + 1
						bm := roaring.New()
						n := []int{0, 3, 40}[rng.Intn(3)]
						for k := 0; k < n; k++ {
							bm.Add(uint32(100 + k*2))
						}
						bm.Add(idBase + op.ID)
						op.Call = time.Since(start).Nanoseconds()
						p, msg, _ := vf.Try(func() { c.Put(key, bm) })
						op.Return = time.Since(start).Nanoseconds()
						if p {
							panics[g] = append(panics[g], "Put: "+msg)
						}
					} else {
						var bm *roaring.Bitmap
						var ok bool
						op.Call = time.Since(start).Nanoseconds()
						p, msg, _ := vf.Try(func() { bm, ok = c.Get(key) })
						op.Return = time.Since(start).Nanoseconds()
						if p {
							panics[g] = append(panics[g], "Get: "+msg)
						}
						op.Hit = ok
						if ok && bm != nil {
							// read the id out of the bitmap handed out
							it := bm.Iterator()
							it.AdvanceIfNeeded(idBase)
							cnt := 0
							for it.HasNext() {
								op.ID = it.Next() - idBase
								cnt++
							}
							op.Alien = cnt != 1
						} else if ok {
							op.Alien = true
						}
					}
					opsPer[g] = append(opsPer[g], op)
				}
			}(g)
		}
		ready.Wait()
		close(gate)
		wg.Wait()
		r := cacheRound{Capacity: capacity}
		for g := range opsPer {
			r.Ops = append(r.Ops, opsPer[g]...)
			r.Panics = append(r.Panics, panics[g]...)
		}
		for k := 1; k <= keys; k++ {
			if bm, ok := c.Get(uint64(k)); ok && bm != nil {
				r.FinalBytes += bm.GetSizeInBytes()
			}
		}
		if err := enc.Encode(r); err != nil {
			fmt.Fprintln(os.Stderr, err)
			return 3
		}
	}
	return 0
}

// register model per key: a hit must return the latest linearised Put; a miss is
// legal iff nothing was stored yet (ample capacity) or always (evicting capacity).
type regIn struct {
	put       bool
	id        uint32
	missLegal bool
}
type regOut struct {
	hit bool
	id  uint32
}

var registerModel = porcupine.Model{
	Init: func() interface{} { return uint32(0) },
	Step: func(state, input, output interface{}) (bool, interface{}) {
		st := state.(uint32)
		in := input.(regIn)
		if in.put {
			return true, in.id
		}
		out := output.(regOut)
		if !out.hit {
			return in.missLegal || st == 0, st
		}
		return st != 0 && out.id == st, st
	},
	DescribeOperation: func(input, output interface{}) string {
		in := input.(regIn)
		if in.put {
			return fmt.Sprintf("Put(id %d)", in.id)
		}
		out := output.(regOut)
		if out.hit {
			return fmt.Sprintf("Get -> hit id %d", out.id)
		}
		return "Get -> miss"
	},
}

func checkCacheRound(r *vf.Run, rid string, round cacheRound) {
	byKey := map[uint64][]porcupine.Operation{}
	var spans []span
	for _, op := range round.Ops {
		spans = append(spans, span{op.Call, op.Return})
		if op.Alien {
			r.Violation(rid, "cache-hit-unknown-bitmap", map[string]any{"op": op, "capacity": round.Capacity})
			return
		}
		in := regIn{put: op.Put, id: op.ID, missLegal: round.Capacity < 1<<20}
		if !op.Put {
			in.id = 0
		}
		byKey[op.Key] = append(byKey[op.Key], porcupine.Operation{ClientId: op.G, Input: in, Call: op.Call, Output: regOut{hit: op.Hit, id: op.ID}, Return: op.Return})
	}
	pairs, maxIn := overlapStats(spans)
	r.Count("cache_overlapping_pairs", pairs)
	r.Max("cache_in_flight", int64(maxIn))
	for _, p := range round.Panics {
		r.Violation(rid, "panic", map[string]any{"panic": p, "capacity": round.Capacity})
		return
	}
	for key, ops := range byKey {
		res, info := porcupine.CheckOperationsVerbose(registerModel, ops, 20*time.Second)
		r.Eval(1)
		r.Count("porcupine_partitions", 1)
		switch res {
		case porcupine.Ok:
			r.Count("porcupine_ok", 1)
		case porcupine.Unknown:
			r.Count("porcupine_unknown", 1)
		case porcupine.Illegal:
			_ = info
			sort.Slice(ops, func(i, j int) bool { return ops[i].Call < ops[j].Call })
			var hist []string
			for _, o := range ops {
				hist = append(hist, fmt.Sprintf("g%d [%d,%d] %s", o.ClientId, o.Call, o.Return, registerModel.DescribeOperation(o.Input, o.Output)))
			}
			r.Violation(fmt.Sprintf("%s/key%d", rid, key), "not-linearizable", map[string]any{"capacity": round.Capacity, "key": key, "history": hist,
				"model": "register per key: a hit returns the latest linearised Put; a miss is legal only before any Put (ample capacity) or always (evicting capacity)"})
		}
	}
	if round.FinalBytes > round.Capacity {
		r.Violation(rid, "byte-bound-after-concurrent-phase", map[string]any{"capacity": round.Capacity, "retrievable_bytes": round.FinalBytes})
	}
	r.Distinct(rid + fmt.Sprint(len(round.Ops)))
}

// ---------------------------------------------------------------------------
// orchestrator

func c04Dataset(rng *rand.Rand, rows int) *gen.Dataset {
	ds := &gen.Dataset{ID: "c04"}
	for i := 0; i < rows; i++ {
		r := oracle.Row{
			"run":    fmt.Sprint(i / 9000),        // run-shaped across the 65536 boundary
			"bin":    fmt.Sprint(rng.Intn(2)),     // dense bitmap containers
			"cat":    fmt.Sprint(rng.Intn(7)),     // bitmap/array containers
			"sparse": fmt.Sprint(i % 5000 / 4999), // arrays with few entries
		}
		if i%11 == 0 {
			delete(r, "cat")
		}
		if i%97 == 0 {
			r = oracle.Row{}
		}
		ds.Rows = append(ds.Rows, r)
	}
	ds.Index()
	return ds
}

func c04Pool(rng *rand.Rand, ds *gen.Dataset, n int, wideN ...int) []c04Query {
	wide := 0
	if len(wideN) > 0 {
		wide = wideN[0]
		n += wide
	}
	cols := ds.ColNames()
	// a small leaf alphabet so that sub-expressions, hits, misses and evictions overlap between goroutines
	var leaves []*oracle.Expr
	for i := 0; i < 10; i++ {
		leaves = append(leaves, gen.Leaf(rng, ds, cols))
	}
	pick := func() *oracle.Expr { return leaves[rng.Intn(len(leaves))] }
	var out []c04Query
	for len(out) < n {
		var e *oracle.Expr
		a, b, c := pick(), pick(), pick()
		switch rng.Intn(8) {
		case 0:
			e = a
		case 1:
			e = oracle.Not(a)
		case 2:
			e = oracle.And(a, b)
		case 3:
			e = oracle.Or(a, b, c)
		case 4:
			e = oracle.And(oracle.Or(a, b), oracle.Not(c))
		case 5:
			e = oracle.Or(oracle.And(a, b), oracle.And(b, c))
		case 6:
			e = oracle.Not(oracle.And(a, oracle.Not(b)))
		default:
			e = gen.Expr(rng, ds, cols, 3, 3)
		}
		if wide > 0 && len(out) >= n-wide {
			// wide nodes whose operands are wide nodes themselves: eight 4-6-operand operators under one operator (whatever
			// evaluates operands side by side meets nesting and many operands at once)
			top := &oracle.Expr{Op: []byte{'&', '|'}[rng.Intn(2)]}
			for k := 0; k < 8; k++ {
				inner := &oracle.Expr{Op: []byte{'&', '|'}[(k+len(out))%2]}
				for j := 0; j < 4+rng.Intn(3); j++ {
					l := pick()
					if rng.Intn(4) == 0 {
						l = oracle.Not(l)
					}
					inner.Kids = append(inner.Kids, l)
				}
				top.Kids = append(top.Kids, inner)
			}
			e = top
		}
		var gb []string
		if rng.Intn(4) == 0 {
			gb = gen.GroupBy(rng, ds, 1+rng.Intn(2), 200)
		}
		if rng.Intn(25) == 0 {
			e = gen.WithUnknown(rng, e, ds)
		}
		out = append(out, c04Query{E: e, GB: gb, Want: oracle.Eval(ds.Rows, ds.Cols, e, gb)})
	}
	return out
}

func runC04(r *vf.Run) {
	r.Rule("one evaluation = one Execute/GetSchema call made by one of N goroutines on a shared open index in a child process built with the Go race detector (result compared with the row oracle computed beforehand), " +
		"or one per-key partition of a recorded LRUCache Get/Put history checked with porcupine against a register model, or one gRPC request of 16 concurrent clients against the race-built server; " +
		"distinct_nontrivial = distinct (configuration, completion-order signature) pairs plus cache history rounds")
	r.Assume("each goroutine uses its own Query values (C08 covers reuse of one value)", "schedules are those the stress produced; they are counted, not enumerated")
	if !haveBin("vcheck.race") || !haveBin("updog.race") {
		r.Inconclusive("race-detector builds not available")
		return
	}
	if r.Want("index") {
		c04Index(r)
	}
	if r.Want("cache") {
		c04Cache(r)
	}
	if r.Want("server") {
		c04Server(r)
	}
	r.Floor(">= 1000 overlapping operation pairs on the shared index", r.GetCount("index_overlapping_pairs") >= 1000)
	r.Floor("evictions while operations were in flight", r.GetCount("evictions_during_concurrent_phase_at_least") >= 1)
	r.Floor("cache hits under concurrency", r.GetCount("index_cache_hits") >= 1)
	r.Floor("cache histories checked by porcupine", r.GetCount("porcupine_ok") >= 10)
	r.Floor("no porcupine timeouts", r.GetCount("porcupine_unknown") == 0)
}

func c04Index(r *vf.Run) {
	rng := r.RNG("index")
	ds := c04Dataset(rng, r.Pick(70000, 140000))
	dir := filepath.Join(r.Scratch, "index")
	mustMkdir(dir)
	path := filepath.Join(dir, "c04.updog")
	if err := ix.Build(ix.WriterMemFile, path, ds.Rows); err != nil {
		r.Violation("index", "build", err.Error())
		return
	}
	containerKinds(r, path)
	spec := c04Spec{Index: path, Queries: c04Pool(rng, ds, 150, 12), WideQueries: 12, Seed: r.Seed}
	// the schema oracle only needs one row per distinct (column,value)
	seen := map[string]bool{}
	for _, row := range ds.Rows {
		for c, v := range row {
			if !seen[c+"\x00"+v] {
				seen[c+"\x00"+v] = true
				spec.Schema = append(spec.Schema, oracle.Row{c: v})
			}
		}
	}
	gs := []int{2, 8, 32}
	if r.Thorough() {
		gs = []int{2, 4, 8, 16, 32}
	}
	for _, g := range gs {
		for _, cache := range []string{"none", "tiny", "ample"} {
			for _, mode := range ix.OpenModes {
				spec.Configs = append(spec.Configs, c04Config{Name: fmt.Sprintf("g%d/%s/%s", g, cache, mode), Goroutines: g, Cache: cache, Mode: mode, PerG: r.Pick(120, 500)})
			}
		}
	}
	for _, cache := range []string{"none", "ample"} {
		for _, mode := range ix.OpenModes {
			spec.Configs = append(spec.Configs, c04Config{Name: fmt.Sprintf("fresh-first-use/g16/%s/%s", cache, mode), Goroutines: 16, Cache: cache, Mode: mode, PerG: 3, Repeat: r.Pick(25, 120)})
		}
	}
	for _, cache := range []string{"none", "tiny"} {
		spec.Configs = append(spec.Configs, c04Config{Name: fmt.Sprintf("wide-nested/g32/%s/ondemand", cache), Goroutines: 32, Cache: cache, Mode: ix.OpenOnDemand, PerG: r.Pick(8, 40), WideOnly: true})
	}
	specPath := filepath.Join(dir, "spec.gob")
	if err := writeSpec(specPath, spec); err != nil {
		r.Inconclusive("cannot write the child's case specification: " + err.Error())
		return
	}
	rounds := r.Pick(1, 8)
	for round := 0; round < rounds; round++ {
		rid := fmt.Sprintf("index/round%d", round)
		r.Progress(rid)
		logp := filepath.Join(dir, fmt.Sprintf("race-%d.log", round))
		res := runChild(r, binPath("vcheck.race"), []string{"worker", "c04-index", specPath}, childOpts{Timeout: 30 * time.Minute, RaceLog: logp})
		if res.TimedOut {
			hangVerdict(r, rid, res, nil)
			continue
		}
		if res.Code == 97 && strings.Contains(res.Stderr, "C04-NO-PROGRESS") {
			if cause := mon.ClassifyStalledDump(res.Stderr); cause != "" {
				r.Violation(rid, "hang", map[string]any{"blocked": cause, "goroutine_dump": tail(res.Stderr, 30000),
					"explanation": "no Execute/GetSchema call of any goroutine completed for 100 seconds; the dump shows where they are parked"})
			} else {
				r.Inconclusive(rid + ": no call completed for 100 s, but no goroutine is parked inside updog/bbolt code")
			}
			continue
		}
		nraces := checkRaceLog(r, rid, logp)
		var results []c04ConfigResult
		perr := json.Unmarshal([]byte(res.Stdout), &results)
		if res.Code != 0 {
			if strings.Contains(res.Stderr, "panic:") || strings.Contains(res.Stderr, "fatal error:") || strings.Contains(res.Stderr, "checkptr") {
				r.Violation(rid, "crash", map[string]any{"exit_code": res.Code, "stderr": tail(res.Stderr, 12000)})
				continue
			} else if nraces == 0 && perr != nil {
				r.Inconclusive(fmt.Sprintf("%s: child exit %d: %s", rid, res.Code, tail(res.Stderr, 400)))
				continue
			}
			// a child that only ended with the race detector's exit status has still written its results: they are judged
		}
		if perr != nil {
			if nraces == 0 {
				r.Inconclusive(rid + ": child output unreadable: " + perr.Error())
			}
			continue
		}
		for _, cr := range results {
			cid := rid + "/" + cr.Name
			r.Eval(int(cr.Executions + cr.SchemaReads))
			r.Count("index_executions", cr.Executions)
			r.Count("index_schema_reads", cr.SchemaReads)
			r.Count("executions_of_query_objects_shared_between_goroutines", cr.SharedQueryExecs)
			r.Count("schemas_overwritten_by_their_caller", cr.SchemasScrambled)
			r.Count("index_overlapping_pairs", cr.OverlapPairs)
			r.Max("index_in_flight", int64(cr.MaxInFlight))
			r.Count("index_cache_hits", cr.Hits)
			r.Count("index_cache_misses", cr.Misses)
			r.Count("evictions_during_concurrent_phase_at_least", cr.EvictedAtLeast)
			if strings.HasPrefix(cr.Name, "fresh-first-use") {
				r.Count("fresh_index_concurrent_first_use_rounds", int64(cr.FreshOpens))
			}
			r.Cover("index_configurations", cr.Name)
			r.Distinct(cr.Name + "|" + cr.OrderSignature)
			r.Cover("completion_order_signatures", vf.Digest(cr.OrderSignature))
			for _, p := range cr.Panics {
				r.Violation(cid, "panic", map[string]any{"panic": p})
				break
			}
			for _, m := range cr.Mismatches {
				r.Violation(cid, "answer-under-concurrency", map[string]any{"difference": m, "config": cr.Name})
				break
			}
			if cr.GoroutinesActive < 2 {
				r.Inconclusive(cid + ": fewer than 2 goroutines executed anything")
			}
			if round == 0 && cr.Name == "g8/tiny/ondemand" {
				r.Sample("index-config", cr)
			}
		}
	}
}

func c04Cache(r *vf.Run) {
	dir := filepath.Join(r.Scratch, "cache")
	mustMkdir(dir)
	type cc struct{ goroutines, perG, keys, rounds int }
	cfgs := []cc{{8, 12, 3, r.Pick(150, 5000)}, {4, 20, 2, r.Pick(100, 4000)}, {16, 6, 4, r.Pick(60, 2500)}, {32, 4, 3, r.Pick(20, 1500)}}
	for i, c := range cfgs {
		rid := fmt.Sprintf("cache/cfg%d", i)
		if !r.Want(rid) {
			continue
		}
		r.Progress(rid)
		hist := filepath.Join(dir, fmt.Sprintf("hist-%d.jsonl", i))
		logp := filepath.Join(dir, fmt.Sprintf("race-cache-%d.log", i))
		res := runChild(r, binPath("vcheck.race"), []string{"worker", "c04-cache", fmt.Sprint(c.rounds), fmt.Sprint(c.goroutines), fmt.Sprint(c.perG), fmt.Sprint(c.keys), fmt.Sprint(r.Seed*100 + int64(i)), hist}, childOpts{Timeout: 20 * time.Minute, RaceLog: logp})
		if res.TimedOut {
			hangVerdict(r, rid, res, nil)
			continue
		}
		nraces := checkRaceLog(r, rid, logp)
		if res.Code != 0 {
			if strings.Contains(res.Stderr, "panic:") || strings.Contains(res.Stderr, "fatal error:") {
				r.Violation(rid, "crash", map[string]any{"exit_code": res.Code, "stderr": tail(res.Stderr, 12000)})
			} else if nraces == 0 {
				r.Inconclusive(fmt.Sprintf("%s: child exit %d: %s", rid, res.Code, tail(res.Stderr, 400)))
			}
			continue
		}
		f, err := os.Open(hist)
		if err != nil {
			r.Inconclusive(rid + ": no history file")
			continue
		}
		dec := json.NewDecoder(f)
		n := 0
		for dec.More() {
			var round cacheRound
			if err := dec.Decode(&round); err != nil {
				break
			}
			checkCacheRound(r, fmt.Sprintf("%s/round%d", rid, n), round)
			if n == 0 && i == 0 {
				var ops []string
				for k, o := range round.Ops {
					if k < 12 {
						ops = append(ops, fmt.Sprintf("g%d key%d put=%v id=%d hit=%v [%d,%d]", o.G, o.Key, o.Put, o.ID, o.Hit, o.Call, o.Return))
					}
				}
				r.Sample("cache-history", map[string]any{"capacity": round.Capacity, "goroutines": c.goroutines, "ops": len(round.Ops), "first_ops": ops})
			}
			n++
		}
		f.Close()
		r.Count("cache_history_rounds", int64(n))
	}
}

// ---------------------------------------------------------------------------
// the real server, race-built, default cache, 16 concurrent clients

func freePort() int {
	l, err := net.Listen("tcp", "127.0.0.1:0")
	if err != nil {
		return 0
	}
	defer l.Close()
	return l.Addr().(*net.TCPAddr).Port
}

type serverProc struct {
	addr    string
	pid     int
	logPath string
	stop    func() (exited bool, log string)
	alive   func() bool
}

// startServer launches `updog server` (given binary) and waits until it accepts connections.
func startServer(r *vf.Run, bin, index string, extra []string, env []string) (*serverProc, error) {
	return startServerWrapped(r, nil, bin, index, extra, env)
}

// startServerWrapped runs the server under a wrapper command (e.g. strace ...).
func startServerWrapped(r *vf.Run, wrap []string, bin, index string, extra []string, env []string) (*serverProc, error) {
	port := freePort()
	if port == 0 {
		return nil, fmt.Errorf("no free port")
	}
	addr := fmt.Sprintf("127.0.0.1:%d", port)
	logPath := filepath.Join(r.Scratch, fmt.Sprintf("server-%d.log", port))
	lf, err := os.Create(logPath)
	if err != nil {
		return nil, err
	}
	args := append([]string{"server", "-l", addr, "-d", "127.0.0.1:0", "-f", index}, extra...)
	if len(wrap) > 0 {
		args = append(append(append([]string{}, wrap[1:]...), bin), args...)
		bin = wrap[0]
	}
	cmd := newCmd(bin, args, env, lf)
	if err := cmd.Start(); err != nil {
		lf.Close()
		return nil, err
	}
	exited := make(chan struct{})
	go func() { _ = cmd.Wait(); close(exited) }()
	sp := &serverProc{addr: addr, logPath: logPath, pid: cmd.Process.Pid}
	sp.alive = func() bool {
		select {
		case <-exited:
			return false
		default:
			return true
		}
	}
	sp.stop = func() (bool, string) {
		was := !sp.alive()
		if !was {
			_ = syscall.Kill(-cmd.Process.Pid, syscall.SIGKILL)
			_ = cmd.Process.Kill()
			<-exited
		}
		lf.Close()
		b, _ := os.ReadFile(logPath)
		return was, string(b)
	}
	deadline := time.Now().Add(60 * time.Second)
	for time.Now().Before(deadline) {
		if !sp.alive() {
			_, log := sp.stop()
			return nil, fmt.Errorf("server exited during start: %s", tail(log, 2000))
		}
		c, err := net.DialTimeout("tcp", addr, 200*time.Millisecond)
		if err == nil {
			c.Close()
			return sp, nil
		}
		time.Sleep(50 * time.Millisecond)
	}
	_, log := sp.stop()
	return nil, fmt.Errorf("server did not start listening within 60s: %s", tail(log, 2000))
}

func c04Server(r *vf.Run) {
	rng := r.RNG("server")
	ds := identDataset(rng, "srv", r.Pick(20000, 70000), false)
	for len(ds.Cols) < 2 {
		ds = identDataset(rng, "srv", r.Pick(20000, 70000), false)
	}
	dir := filepath.Join(r.Scratch, "server")
	mustMkdir(dir)
	path := filepath.Join(dir, "srv.updog")
	if err := ix.Build(ix.WriterBig, path, ds.Rows); err != nil {
		r.Violation("server", "build", err.Error())
		return
	}
	pool := c04Pool(rng, ds, 120)
	logp := filepath.Join(dir, "race-server.log")
	sp, err := startServer(r, binPath("updog.race"), path, nil, []string{"GORACE=halt_on_error=0 log_path=" + logp})
	if err != nil {
		r.Inconclusive("server: " + err.Error())
		return
	}
	const clients = 16
	perClient := r.Pick(60, 400)
	var wg sync.WaitGroup
	var mu sync.Mutex
	var mismatches, rpcErrs []string
	var spansAll []span
	var stuck, rejected int64
	start := time.Now()
	gate := make(chan struct{})
	for c := 0; c < clients; c++ {
		wg.Add(1)
		go func(c int) {
			defer wg.Done()
			conn, err := grpc.NewClient(sp.addr, grpc.WithTransportCredentials(insecure.NewCredentials()))
			if err != nil {
				mu.Lock()
				rpcErrs = append(rpcErrs, err.Error())
				mu.Unlock()
				return
			}
			defer conn.Close()
			cl := pb.NewQueryServiceClient(conn)
			lr := rand.New(rand.NewSource(r.Seed*31 + int64(c)))
			<-gate
			for i := 0; i < perClient && atomic.LoadInt64(&stuck) == 0; i++ {
				if i%5 == 3 {
					// (round 7) a request the library rejects, next to everybody else's valid ones: it gets its error, and the
					// server goes on answering the others
					bad := &pb.QueryRequest{Queries: []*pb.Query{{Expr: oracle.Eq(fmt.Sprintf("no_such_column_%d_%d", c, i), "x").ToProto()}}}
					if i%10 == 3 {
						bad = &pb.QueryRequest{Queries: []*pb.Query{{Expr: pool[lr.Intn(len(pool))].E.ToProto(), GroupBy: []string{"no_such_group_by_column"}}}}
					}
					ctx, cancel := context.WithTimeout(context.Background(), 60*time.Second)
					_, err := cl.Query(ctx, bad)
					cancel()
					atomic.AddInt64(&rejected, 1)
					if status.Code(err) == codes.DeadlineExceeded {
						atomic.StoreInt64(&stuck, 1)
						mu.Lock()
						rpcErrs = append(rpcErrs, "a request with an unknown column got no answer within 60 s: "+err.Error())
						mu.Unlock()
					}
					continue
				}
				n := 1 + lr.Intn(4)
				req := &pb.QueryRequest{}
				var qs []c04Query
				for k := 0; k < n; k++ {
					q := pool[lr.Intn(len(pool))]
					for q.Want.Err {
						q = pool[lr.Intn(len(pool))]
					}
					qs = append(qs, q)
					req.Queries = append(req.Queries, &pb.Query{Expr: q.proto(), GroupBy: q.GB})
				}
				ctx, cancel := context.WithTimeout(context.Background(), 120*time.Second)
				t0 := time.Since(start).Nanoseconds()
				resp, err := cl.Query(ctx, req)
				t1 := time.Since(start).Nanoseconds()
				cancel()
				mu.Lock()
				spansAll = append(spansAll, span{t0, t1})
				mu.Unlock()
				if status.Code(err) == codes.DeadlineExceeded {
					atomic.StoreInt64(&stuck, 1) // the others stop as well: every further request would wait out its deadline
				}
				if err != nil {
					mu.Lock()
					if len(rpcErrs) < 5 {
						rpcErrs = append(rpcErrs, err.Error())
					}
					mu.Unlock()
					continue
				}
				if d := compareBatch(resp, qs, nil); d != "" {
					mu.Lock()
					if len(mismatches) < 5 {
						mismatches = append(mismatches, d)
					}
					mu.Unlock()
				}
			}
		}(c)
	}
	close(gate)
	wg.Wait()
	alive := sp.alive()
	_, log := sp.stop()
	pairs, maxIn := overlapStats(spansAll)
	r.Eval(len(spansAll))
	r.Count("server_requests", int64(len(spansAll)))
	r.Count("server_overlapping_request_pairs", pairs)
	r.Count("server_requests_the_library_rejects", atomic.LoadInt64(&rejected))
	r.Max("server_requests_in_flight", int64(maxIn))
	r.Distinct(fmt.Sprintf("server|%d|%d", len(spansAll), pairs))
	if !alive {
		r.Violation("server", "server-died", map[string]any{"log": tail(log, 12000)})
	}
	checkRaceLog(r, "server", logp)
	if strings.Contains(log, "panic:") || strings.Contains(log, "fatal error:") {
		r.Violation("server", "server-panic", map[string]any{"log": tail(log, 12000)})
	}
	for _, m := range mismatches {
		r.Violation("server", "answer-under-concurrency", map[string]any{"difference": m})
		break
	}
	if len(rpcErrs) > 0 && alive {
		r.Violation("server", "rpc-error-on-valid-request", map[string]any{"errors": rpcErrs})
	}
	r.Sample("server-load", map[string]any{"clients": clients, "requests": len(spansAll), "overlapping_pairs": pairs, "max_in_flight": maxIn})
}

// compareBatch compares a response with the expected answers of the batch; ids
// are the explicit ids or the 1-based positions.
func compareBatch(resp *pb.QueryResponse, qs []c04Query, ids []int32) string {
	if len(resp.Results) != len(qs) {
		return fmt.Sprintf("%d results for %d queries", len(resp.Results), len(qs))
	}
	for i, res := range resp.Results {
		wantID := int32(i + 1)
		if ids != nil && ids[i] != 0 {
			wantID = ids[i]
		}
		if res.QueryId != wantID {
			return fmt.Sprintf("result %d carries id %d, want %d", i, res.QueryId, wantID)
		}
		lib := &updog.Result{Count: res.TotalCount}
		for _, g := range res.Groups {
			rg := updog.ResultGroup{Count: g.Count}
			for _, f := range g.Fields {
				rg.Fields = append(rg.Fields, updog.ResultField{Column: f.Column, Value: f.Value})
			}
			lib.Groups = append(lib.Groups, rg)
		}
		if d := oracle.CompareResult(lib, nil, qs[i].Want, qs[i].GB); d != "" {
			return fmt.Sprintf("result %d (%s ; %q): %s", i, qs[i].E.String(), qs[i].GB, d)
		}
	}
	return ""
}

var _ = reflect.DeepEqual
