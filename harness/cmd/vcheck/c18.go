package main

import (
	"encoding/json"
	"fmt"
	"math/rand"
	"os"
	"path/filepath"
	"runtime"
	"sort"
	"strings"
	"sync"
	"sync/atomic"
	"time"

	"github.com/akrennmair/updog"
	"github.com/akrennmair/updog/verifharness/gen"
	"github.com/akrennmair/updog/verifharness/ix"
	"github.com/akrennmair/updog/verifharness/oracle"
	"github.com/akrennmair/updog/verifharness/vf"
	"github.com/anishathalye/porcupine"
	"go.etcd.io/bbolt"
)

func init() {
	register("C18", "exploration", runC18)
	workers["c18-addrow"] = workerC18
}

type c18Job struct {
	ID         string `json:"id"`
	Writer     string `json:"writer"` // mem | big
	Goroutines int    `json:"goroutines"`
	Total      int    `json:"total"`
	Yield      bool   `json:"yield"`
	Out        string `json:"out"`
	// Dup: rows carry no unique tag, only a few low-cardinality values, so that after the first few calls no row
	// introduces a new (column,value) pair (the ordinary use of a count index)
	Dup bool `json:"dup"`
	// Ticket: the goroutines draw row numbers from one shared counter until Total is reached, so that all of them are
	// still calling AddRow when the last rows are added (with fixed shares the tail belongs to the slowest goroutine alone)
	Ticket bool `json:"ticket"`
	// Reuse: every goroutine fills ONE map object again and again (what a CSV ingestion loop does): a writer that
	// keeps a reference to the caller's map beyond the call sees the next row's values
	Reuse bool `json:"reuse"`
	// Wide: every row carries that many additional low-cardinality columns (w000, w001, ...): one AddRow call then does
	// hundreds of insertions, long enough for whatever it does between its first and last one to be observed
	Wide int `json:"wide,omitempty"`
	// TagLen: the unique tags are padded on the left to this length (tags then differ in their last bytes only)
	TagLen int `json:"tag_len,omitempty"`
}

type c18Op struct {
	G    int    `json:"g"`
	I    int    `json:"i"`
	ID   uint32 `json:"id"`
	Err  string `json:"err,omitempty"`
	Call int64  `json:"call"`
	Ret  int64  `json:"ret"`
}

type c18Result struct {
	ID       string   `json:"id"`
	Ops      []c18Op  `json:"ops"`
	FlushErr string   `json:"flush_err,omitempty"`
	Panics   []string `json:"panics,omitempty"`
}

// c18Row is the row goroutine g adds as its i-th: a unique tag plus 2-4 values
// derived from it, so that the orchestrator can rebuild every row.
func c18Row(g, i int, dup bool, wide ...int) oracle.Row {
	if len(wide) > 1 && wide[1] > 0 {
		r := c18Row(g, i, dup, wide[0])
		if t, ok := r["tag"]; ok && len(t) < wide[1] {
			r["tag"] = strings.Repeat("p", wide[1]-len(t)) + t
		}
		return r
	}
	if len(wide) > 0 && wide[0] > 0 {
		r := c18Row(g, i, dup)
		for k := 0; k < wide[0]; k++ {
			r[fmt.Sprintf("w%03d", k)] = fmt.Sprint((g + 7*i + k) % 3)
		}
		return r
	}
	if dup {
		r := oracle.Row{"a": fmt.Sprint(i % 3), "b": fmt.Sprint((g + i) % 5), "c": "x"}
		if i%4 == 0 {
			delete(r, "b")
		}
		return r
	}
	r := oracle.Row{"tag": fmt.Sprintf("t%d-%d", g, i), "g": fmt.Sprint(g), "m": fmt.Sprint((g*31 + i) % 7)}
	if (g+i)%2 == 0 {
		r["e"] = fmt.Sprint(i % 3)
	}
	if (g+i)%5 == 0 {
		r["f"] = "x"
	}
	return r
}

func workerC18(args []string) int {
	b, err := os.ReadFile(args[0])
	if err != nil {
		fmt.Fprintln(os.Stderr, err)
		return 3
	}
	var jobs []c18Job
	if err := json.Unmarshal(b, &jobs); err != nil {
		fmt.Fprintln(os.Stderr, err)
		return 3
	}
	enc := json.NewEncoder(os.Stdout)
	var encMu sync.Mutex
	together := len(args) > 1 && args[1] == "together"
	one := func(job c18Job) int {
		fmt.Fprintf(os.Stderr, "c18: starting %s\n", job.ID)
		res := c18Result{ID: job.ID}
		type rowWriter interface {
			AddRow(map[string]string) (uint32, error)
			Flush() error
		}
		var w rowWriter
		var cleanup func()
		if job.Writer == "mem" {
			w = updog.NewIndexWriter(job.Out)
			cleanup = func() {}
		} else {
			db, err := bbolt.Open(job.Out, 0o644, &bbolt.Options{Timeout: 10 * time.Second})
			if err != nil {
				fmt.Fprintln(os.Stderr, err)
				return 3
			}
			tdb, err := bbolt.Open(job.Out+".tmp", 0o600, &bbolt.Options{Timeout: 10 * time.Second, NoSync: true})
			if err != nil {
				fmt.Fprintln(os.Stderr, err)
				return 3
			}
			bw, err := updog.NewBigIndexWriter(db, tdb)
			if err != nil {
				fmt.Fprintln(os.Stderr, err)
				return 3
			}
			w = bw
			cleanup = func() { db.Close(); tdb.Close(); os.Remove(job.Out + ".tmp") }
		}
		if job.Yield && !together {
			var n int64
			updog.VerifSetHook(func(site string) {
				// inside the writer's critical section: yield so that the other goroutines queue up at the lock
				k := atomic.AddInt64(&n, 1)
				if strings.HasSuffix(site, ".addrow") && k%3 == 0 {
					runtime.Gosched()
				}
				if site == "big.temp-commit" {
					time.Sleep(200 * time.Microsecond)
				}
			})
		}
		start := time.Now()
		var ticket int64
		per := make([][]c18Op, job.Goroutines)
		panics := make([][]string, job.Goroutines)
		var wg, ready sync.WaitGroup
		gate := make(chan struct{})
		for g := 0; g < job.Goroutines; g++ {
			wg.Add(1)
			ready.Add(1)
			go func(g int) {
				defer wg.Done()
				n := job.Total / job.Goroutines
				if g < job.Total%job.Goroutines {
					n++
				}
				if job.Ticket {
					n = job.Total
				}
				ready.Done()
				<-gate
				own := map[string]string{}
				for i := 0; i < n; i++ {
					if job.Ticket {
						if i = int(atomic.AddInt64(&ticket, 1)) - 1; i >= job.Total {
							break
						}
					}
					row := c18Row(g, i, job.Dup, job.Wide, job.TagLen)
					if job.Reuse {
						clear(own)
						for k, v := range row {
							own[k] = v
						}
						row = own
					}
					op := c18Op{G: g, I: i}
					var id uint32
					var err error
					op.Call = time.Since(start).Nanoseconds()
					p, msg, _ := vf.Try(func() { id, err = w.AddRow(row) })
					op.Ret = time.Since(start).Nanoseconds()
					op.ID = id
					if err != nil {
						op.Err = err.Error()
					}
					if p {
						panics[g] = append(panics[g], msg)
						op.Err = "panic: " + msg
					}
					per[g] = append(per[g], op)
				}
			}(g)
		}
		ready.Wait()
		close(gate)
		wg.Wait()
		if !together {
			updog.VerifSetHook(nil)
		}
		for g := range per {
			res.Ops = append(res.Ops, per[g]...)
			res.Panics = append(res.Panics, panics[g]...)
		}
		if p, msg, _ := vf.Try(func() {
			if err := w.Flush(); err != nil {
				res.FlushErr = err.Error()
			}
		}); p {
			res.FlushErr = "panic: " + msg
		}
		cleanup()
		encMu.Lock()
		defer encMu.Unlock()
		if err := enc.Encode(res); err != nil {
			return 3
		}
		return 0
	}
	if together {
		// all jobs of the chunk at the same time: several writer objects are inside AddRow at once in one process
		codes := make([]int, len(jobs))
		var wg sync.WaitGroup
		for i := range jobs {
			wg.Add(1)
			go func(i int) { defer wg.Done(); codes[i] = one(jobs[i]) }(i)
		}
		wg.Wait()
		for _, c := range codes {
			if c != 0 {
				return c
			}
		}
		return 0
	}
	for _, job := range jobs {
		if c := one(job); c != 0 {
			return c
		}
	}
	return 0
}

var counterModel = porcupine.Model{
	Init: func() interface{} { return uint32(0) },
	Step: func(state, input, output interface{}) (bool, interface{}) {
		st := state.(uint32)
		return output.(uint32) == st, st + 1
	},
	DescribeOperation: func(input, output interface{}) string { return fmt.Sprintf("AddRow -> id %d", output.(uint32)) },
}

func runC18(r *vf.Run) {
	r.Rule("one evaluation = one concurrent AddRow history (2-32 goroutines, barrier start, child built with the race detector, optional yields injected through the verif hook inside AddRow and at the big writer's temp commit) followed by Flush; " +
		"checked: returned ids are exactly 0..n-1, real-time order (a call that returned before another began has the smaller id; porcupine counter model on the small histories), " +
		"and the flushed index equals the one a sequential insertion in id order produces (per-tag count 1, per-value membership, universe size, full probe set); " +
		"tiny histories: tens of thousands of histories of 4-16 goroutines x 2-5 rows (plain build) each followed by Flush at once and verified completely (every tag on one row of its own); " +
		"distinct_nontrivial = distinct interleavings (sequence of goroutine numbers in row-id order)")
	r.Assume("schedules are those the stress produced; distinct interleavings are counted")
	if !haveBin("vcheck.race") {
		r.Inconclusive("race-detector build of the harness not available")
		return
	}
	dir := filepath.Join(r.Scratch, "c18")
	mustMkdir(dir)
	rng := r.RNG("jobs")
	var jobs []c18Job
	// 5000 and 9000: values of the rows without tags reach 4096 and 8192 rows; 16000 (thorough also 32000): sixteen and more
	// goroutines add a thousand rows each while the big writer commits
	totals := []int{2, 17, 64, 999, 1000, 1001, 1003, 2000, 2001, 2500, 5000, 9000, 16000}
	if r.Thorough() {
		totals = append(totals, 32000)
	}
	gs := []int{2, 3, 8, 16, 32}
	k := 0
	for _, w := range []string{"mem", "big"} {
		for _, total := range totals {
			reps := 1
			if total <= 64 {
				reps = r.Pick(20, 300)
			} else if r.Thorough() {
				reps = 24
			} else if total >= 5000 {
				reps = 2
			} else if total%1000 <= 3 || total%1000 == 999 {
				reps = 4 // around the big writer's commit boundary the tail of the history matters
			}
			for rep := 0; rep < reps; rep++ {
				g := gs[rng.Intn(len(gs))]
				if g > total {
					g = 2
				}
				if total >= 5000 {
					g = []int{16, 32, 8}[(rep+k)%3] // many goroutines for the long histories
				}
				id := fmt.Sprintf("job%03d-%s-n%d-g%d", k, w, total, g)
				jobs = append(jobs, c18Job{ID: id, Writer: w, Goroutines: g, Total: total, Yield: k%3 != 2, Ticket: rep%2 == 1 || (total > 64 && k%2 == 0), Reuse: k%3 == 1, Out: filepath.Join(dir, id+".updog")})
				k++
				if total >= 999 || rep%4 == 0 {
					did := fmt.Sprintf("job%03d-%s-dup-n%d-g%d", k, w, total, g)
					jobs = append(jobs, c18Job{ID: did, Writer: w, Goroutines: g, Total: total, Yield: k%2 == 0, Dup: true, Ticket: k%4 < 2, Reuse: k%3 == 0, Out: filepath.Join(dir, did+".updog")})
					k++
				}
			}
		}
	}
	// (round 7) wide rows: 257..700 additional columns per row, few rows, many goroutines, both writers
	for wi, wide := range []int{257, 300, 700, 256, 1001} {
		for _, w := range []string{"mem", "big"} {
			g := []int{8, 16, 4}[(wi+k)%3]
			total := []int{64, 64, 24, 64, 16}[wi] // (cells per job stay below 20 000: the race-detector build of the big writer does about a thousand a second)
			id := fmt.Sprintf("job%03d-%s-wide%d-n%d-g%d", k, w, wide, total, g)
			jobs = append(jobs, c18Job{ID: id, Writer: w, Goroutines: g, Total: total, Yield: k%2 == 0, Ticket: true, Reuse: k%3 == 1, Wide: wide, Out: filepath.Join(dir, id+".updog")})
			k++
		}
	}
	// (round 7) tags of one length per job, 119..133 and around 256: rows whose tags differ in the last bytes only
	for ti, tl := range []int{119, 120, 121, 122, 123, 124, 125, 126, 127, 128, 129, 130, 131, 132, 133, 252, 253, 254, 255, 256, 257} {
		w := []string{"mem", "big"}[ti%2]
		id := fmt.Sprintf("job%03d-%s-taglen%d-n120-g8", k, w, tl)
		jobs = append(jobs, c18Job{ID: id, Writer: w, Goroutines: 8, Total: 120, Yield: ti%3 == 0, Ticket: ti%2 == 0, TagLen: tl, Out: filepath.Join(dir, id+".updog")})
		k++
	}
	// (round 8) a chunk whose jobs run AT THE SAME TIME in one process: three in-memory and three big writers, each fed
	// by four goroutines with rows whose values are new to the writer most of the time
	var togetherJobs []c18Job
	for i := 0; i < 6; i++ {
		w := []string{"mem", "big"}[i%2]
		id := fmt.Sprintf("job%03d-%s-together-n%d-g4", k, w, 1500+100*i)
		togetherJobs = append(togetherJobs, c18Job{ID: id, Writer: w, Goroutines: 4, Total: 1500 + 100*i, Ticket: true, Out: filepath.Join(dir, id+".updog")})
		k++
	}
	// children: chunks of jobs
	const per = 8
	var ids []string
	chunks := map[string][]c18Job{}
	for i := 0; i < len(jobs); i += per {
		id := fmt.Sprintf("chunk%02d", i/per)
		ids = append(ids, id)
		chunks[id] = jobs[i:min(i+per, len(jobs))]
	}
	ids = append(ids, "chunk-together")
	chunks["chunk-together"] = togetherJobs
	r.ForEach(ids, 8, func(cid string) {
		var todo []c18Job
		for _, j := range chunks[cid] {
			if r.Want(cid+"/"+j.ID) || r.Only == cid+"/all" || strings.HasPrefix(r.Only, cid+"/all/") {
				todo = append(todo, j)
			}
		}
		if len(todo) == 0 {
			return
		}
		b, _ := json.Marshal(todo)
		specPath := filepath.Join(dir, cid+".json")
		_ = os.WriteFile(specPath, b, 0o644)
		logp := filepath.Join(dir, cid+"-race.log")
		wargs := []string{"worker", "c18-addrow", specPath}
		if cid == "chunk-together" {
			wargs = append(wargs, "together")
		}
		res := runChild(r, binPath("vcheck.race"), wargs, childOpts{Timeout: 10 * time.Minute, RaceLog: logp})
		nraces := checkRaceLog(r, cid+"/all", logp) // replaying "<chunk>/all" runs every job of the chunk
		if res.TimedOut {
			hangVerdict(r, cid, res, nil)
			return
		}
		if res.Code != 0 {
			if strings.Contains(res.Stderr, "panic:") || strings.Contains(res.Stderr, "fatal error:") {
				r.Violation(cid, "crash", map[string]any{"stderr": tail(res.Stderr, 8000)})
			} else if nraces == 0 {
				r.Inconclusive(fmt.Sprintf("%s: child exit %d: %s", cid, res.Code, tail(res.Stderr, 300)))
			}
		}
		dec := json.NewDecoder(strings.NewReader(res.Stdout))
		byID := map[string]c18Job{}
		for _, j := range todo {
			byID[j.ID] = j
		}
		for dec.More() {
			var jr c18Result
			if err := dec.Decode(&jr); err != nil {
				break
			}
			c18Check(r, cid+"/"+jr.ID, byID[jr.ID], jr)
		}
	})
	c18Tiny(r, dir)
	r.Floor("totals on both sides of the big writer's 1000-row commit", r.HasCover("totals", "999") && r.HasCover("totals", "1001") && r.HasCover("totals", "2001"))
	r.Floor("both writers", r.Covered("writers") == 2)
	r.Floor("histories whose rows carry no unique tag", r.GetCount("histories_without_unique_tags") > 0)
	r.Floor("goroutines interleaved in at least half of the histories", r.GetCount("histories_with_interleaved_goroutines")*2 >= r.GetCount("histories"))
	r.Floor("porcupine checked small histories", r.GetCount("porcupine_ok") >= 4)
	r.Floor("no porcupine timeouts", r.GetCount("porcupine_unknown") == 0)
}

func c18Check(r *vf.Run, cid string, job c18Job, jr c18Result) {
	r.Eval(1)
	r.Count("histories", 1)
	r.Count("rows_added", int64(len(jr.Ops)))
	r.Cover("writers", job.Writer)
	r.Cover("totals", fmt.Sprint(job.Total))
	r.Cover("goroutine_counts", fmt.Sprint(job.Goroutines))
	if job.Ticket {
		r.Count("histories_with_shared_row_counter", 1)
	}
	if job.Reuse {
		r.Count("histories_with_one_reused_map_per_goroutine", 1)
	}
	w := func(extra map[string]any) map[string]any {
		m := map[string]any{"writer": job.Writer, "goroutines": job.Goroutines, "rows": job.Total, "yield_injection": job.Yield, "shared_row_counter": job.Ticket, "one_map_object_reused_per_goroutine": job.Reuse}
		for k, v := range extra {
			m[k] = v
		}
		return m
	}
	for _, p := range jr.Panics {
		r.Violation(cid, "panic", w(map[string]any{"panic": p}))
		return
	}
	if jr.FlushErr != "" {
		r.Violation(cid, "flush", w(map[string]any{"error": jr.FlushErr}))
		return
	}
	n := len(jr.Ops)
	if n != job.Total {
		r.Violation(cid, "ops-missing", w(map[string]any{"recorded": n}))
		return
	}
	// ids exactly 0..n-1
	seen := make([]int, n)
	for _, op := range jr.Ops {
		if op.Err != "" {
			r.Violation(cid, "addrow-error", w(map[string]any{"op": op}))
			return
		}
		if int(op.ID) >= n {
			r.Violation(cid, "id-out-of-range", w(map[string]any{"op": op}))
			return
		}
		seen[op.ID]++
	}
	for id, c := range seen {
		if c != 1 {
			var who []c18Op
			for _, op := range jr.Ops {
				if int(op.ID) == id {
					who = append(who, op)
				}
			}
			r.Violation(cid, "ids-not-a-permutation", w(map[string]any{"id": id, "times_returned": c, "ops": who}))
			return
		}
	}
	// real-time order: sorted by id, no op may have returned before an op with a smaller id was called
	ops := append([]c18Op{}, jr.Ops...)
	sort.Slice(ops, func(i, j int) bool { return ops[i].ID < ops[j].ID })
	var maxCall int64 = -1
	var maxOp c18Op
	for _, op := range ops {
		if op.Ret < maxCall {
			r.Violation(cid, "ids-contradict-real-time-order", w(map[string]any{"later_id_returned_first": op, "smaller_id_called_after": maxOp}))
			return
		}
		if op.Call > maxCall {
			maxCall, maxOp = op.Call, op
		}
	}
	// per-goroutine program order
	lastID := map[int]int64{}
	for _, op := range jr.Ops {
		if prev, ok := lastID[op.G]; ok && int64(op.ID) <= prev {
			r.Violation(cid, "ids-contradict-program-order", w(map[string]any{"op": op, "previous_id_of_goroutine": prev}))
			return
		}
		lastID[op.G] = int64(op.ID)
	}
	if n <= 64 {
		var pops []porcupine.Operation
		for _, op := range jr.Ops {
			pops = append(pops, porcupine.Operation{ClientId: op.G, Input: nil, Call: op.Call, Output: op.ID, Return: op.Ret})
		}
		switch res := porcupine.CheckOperationsTimeout(counterModel, pops, 30*time.Second); res {
		case porcupine.Ok:
			r.Count("porcupine_ok", 1)
		case porcupine.Unknown:
			r.Count("porcupine_unknown", 1)
		default:
			r.Violation(cid, "not-linearizable", w(map[string]any{"ops": jr.Ops, "model": "counter: each AddRow returns the current value and increments it"}))
			return
		}
	}
	// interleaving signature and overlap
	var sig strings.Builder
	switches := 0
	for i, op := range ops {
		fmt.Fprintf(&sig, "%x.", op.G)
		if i > 0 && ops[i-1].G != op.G {
			switches++
		}
	}
	r.Distinct(sig.String())
	r.Count("goroutine_switches_in_id_order", int64(switches))
	var spans []span
	for _, op := range jr.Ops {
		spans = append(spans, span{op.Call, op.Ret})
	}
	pairs, maxIn := overlapStats(spans)
	r.Count("overlapping_call_pairs", pairs)
	r.Max("calls_in_flight", int64(maxIn))
	if switches >= job.Goroutines {
		r.Count("histories_with_interleaved_goroutines", 1)
	} else {
		r.Count("histories_without_interleaving", 1) // e.g. two goroutines that happened to run back to back; judged in aggregate below
	}
	// the flushed index = sequential insertion in id order
	rows := make([]oracle.Row, n)
	for _, op := range jr.Ops {
		rows[op.ID] = c18Row(op.G, op.I, job.Dup, job.Wide, job.TagLen)
	}
	ds := &gen.Dataset{ID: job.ID, Rows: rows, Unique: "tag"}
	if job.Dup {
		ds.Unique = ""
		r.Count("histories_without_unique_tags", 1)
	}
	ds.Index()
	idx, err := ix.Open(job.Out, ix.OpenOnDemand, nil)
	if err != nil {
		r.Violation(cid, "open-flushed-index", w(map[string]any{"error": err.Error()}))
		return
	}
	defer func() { idx.Close(); os.Remove(job.Out) }()
	if d := oracle.CompareSchema(idx.GetSchema(), rows); d != "" {
		r.Violation(cid, "schema", w(map[string]any{"difference": d}))
		return
	}
	// per-row integrity
	check := func(e *oracle.Expr, want uint64, what string) bool {
		res, err := ix.Exec(idx, e, nil)
		if err != nil || res.Count != want {
			r.Violation(cid, "row-integrity", w(map[string]any{"probe": e.String(), "what": what, "want": want, "got": fmt.Sprint(res, err)}))
			return false
		}
		return true
	}
	step := 1
	if n > 600 {
		step = n / 300
	}
	for id := 0; id < n && !job.Dup; id++ {
		row := rows[id]
		tag := oracle.Eq("tag", row["tag"])
		if !check(tag, 1, "every added row appears exactly once") { // every row, not a sample: a lost row is one row
			return
		}
		if id%step != 0 {
			continue
		}
		nc := 0
		for c, v := range row {
			if c != "tag" && !check(oracle.And(tag, oracle.Eq(c, v)), 1, "all values of a row sit on one single row") {
				return
			}
			// and no value of another row sits on this one (wide rows: a sample of their columns)
			if nc++; strings.HasPrefix(c, "w") && len(c) == 4 && nc <= 40 {
				other := fmt.Sprint((int(v[0]-'0') + 1) % 3)
				if !check(oracle.And(tag, oracle.Eq(c, other)), 0, "no value of another row sits on this row") {
					return
				}
			}
		}
	}
	l := oracle.Eq("c", "x")
	if !job.Dup {
		l = oracle.Eq("g", "0")
	}
	if !check(oracle.Or(l, oracle.Not(l)), uint64(n), "row universe = number of AddRow calls") {
		return
	}
	ps := probeSet(rand.New(rand.NewSource(int64(n))), ds, 200, 30)
	if pid, d := runProbes(idx, ps); d != "" {
		r.Violation(cid+"/"+pid, "differs-from-sequential-insertion", w(map[string]any{"difference": d}))
		return
	}
	if job.Total == 64 && job.Writer == "big" {
		r.Sample("history", map[string]any{"job": job.ID, "goroutines_in_row_id_order": head(sig.String(), 200), "overlapping_pairs": pairs})
	}
}
