package main

import (
	"fmt"
	"math/rand"
	"path/filepath"
	"reflect"

	"github.com/akrennmair/updog"
	"github.com/akrennmair/updog/verifharness/gen"
	"github.com/akrennmair/updog/verifharness/ix"
	"github.com/akrennmair/updog/verifharness/oracle"
	"github.com/akrennmair/updog/verifharness/vf"
)

func init() { register("C08", "exploration", runC08) }

func runC08(r *vf.Run) {
	r.Rule("one evaluation = one execution of a Query VALUE that was executed before (or is about to be executed again), compared with the row oracle for (query, index) and with a freshly constructed equal query on the same index; " +
		"after every execution the exported fields (expression tree, group-by list) are compared with a deep copy taken before the first execution; " +
		"distinct_nontrivial = distinct (dataset pair, query, history) triples with >= 2 executions")
	r.Assume("a Query value is not shared between goroutines (C04 covers concurrency)")
	n := r.Pick(60, 1500)
	var ids []string
	for i := 0; i < n; i++ {
		ids = append(ids, fmt.Sprintf("pair%03d", i))
	}
	ids = append(ids, "regress-twice")
	r.ForEach(ids, 12, func(id string) {
		rng := r.RNG(id)
		var A, B *gen.Dataset
		if id == "regress-twice" {
			A = &gen.Dataset{ID: "A"}
			for i := 0; i < 12; i++ {
				A.Rows = append(A.Rows, oracle.Row{"x": string(rune('a' + i%3)), "y": fmt.Sprint(i % 2), "z": fmt.Sprint(i % 4)})
			}
			A.Index()
			B = &gen.Dataset{ID: "B", Rows: []oracle.Row{{"x": "a", "y": "1"}, {"x": "q", "y": "1"}, {"y": "0", "w": "5"}}}
			B.Index()
		} else {
			A = gen.MakeDataset(rng, "A", gen.DatasetOpts{Rows: 1 + rng.Intn(r.Pick(3000, 20000)), MaxCols: 5, HostileVals: rng.Intn(2) == 0, HostileCols: rng.Intn(3) == 0, EmptyRows: true, MaxCard: 1100})
			// B shares some column names with A (different values/cardinalities) and lacks others
			B = gen.MakeDataset(rng, "B", gen.DatasetOpts{Rows: 1 + rng.Intn(2000), MaxCols: 5, HostileVals: rng.Intn(2) == 0, EmptyRows: true, MaxCard: 1100})
			if len(A.Cols) > 0 && rng.Intn(2) == 0 {
				// graft one of A's columns into B with other values
				c := A.ColNames()[rng.Intn(len(A.Cols))]
				for i, row := range B.Rows {
					if i%3 != 0 {
						row[c] = fmt.Sprintf("b%d", i%5)
					}
				}
				B.Index()
			}
		}
		if len(A.Cols) == 0 {
			return
		}
		dir := filepath.Join(r.Scratch, id)
		mustMkdir(dir)
		pa, pb := filepath.Join(dir, "a.updog"), filepath.Join(dir, "b.updog")
		if err := ix.Build(ix.Writers[rng.Intn(3)], pa, A.Rows); err != nil {
			r.Violation(id, "build", err.Error())
			return
		}
		if err := ix.Build(ix.Writers[rng.Intn(3)], pb, B.Rows); err != nil {
			r.Violation(id, "build", err.Error())
			return
		}
		type target struct {
			name string
			ds   *gen.Dataset
			idx  *updog.Index
		}
		var targets []target
		open := func(name, path string, ds *gen.Dataset, mode string, cache updog.Cache) bool {
			idx, err := ix.Open(path, mode, cache)
			if err != nil {
				r.Violation(id, "open", err.Error())
				return false
			}
			targets = append(targets, target{name, ds, idx})
			return true
		}
		ok := open("A/ondemand", pa, A, ix.OpenOnDemand, nil) &&
			open("A/preloaded+cache", pa, A, ix.OpenPreloaded, updog.NewLRUCache(1<<20)) &&
			open("B/ondemand+tinycache", pb, B, ix.OpenOnDemand, updog.NewLRUCache(300)) &&
			open("B/preloaded", pb, B, ix.OpenPreloaded, nil)
		defer func() {
			for _, t := range targets {
				t.idx.Close()
			}
		}()
		if !ok {
			return
		}
		nq := r.Pick(40, 80)
		for qi := 0; qi < nq; qi++ {
			qid := fmt.Sprintf("%s/q%d", id, qi)
			if !r.Want(qid) {
				continue
			}
			rng := r.RNG(qid) // a stream of its own per query value, so that a replay of this case alone draws the same choices
			var e *oracle.Expr
			var gb []string
			if id == "regress-twice" && qi == 0 {
				e, gb = oracle.Eq("y", "1"), []string{"x"}
			} else {
				e = gen.Expr(rng, A, A.ColNames(), rng.Intn(4), 3)
				gb = gen.GroupBy(rng, A, rng.Intn(5), 5000)
				// the same list is executed on B, whose equally named columns have other cardinalities
				for len(gb) > 0 && gbWork(B, gb) > 60000 {
					gb = gb[:len(gb)-1]
				}
			}
			if qi%7 == 3 && len(gb) > 0 {
				// (round 8) a group-by entry spelled in another case than the column: unknown to the library; whatever a
				// lenient lookup makes of it, the caller's list stays as the caller wrote it
				k := rng.Intn(len(gb))
				if v := swapCase(gb[k]); v != gb[k] && !A.Cols[v] && !B.Cols[v] {
					gb = append([]string{}, gb...)
					gb[k] = v
					r.Count("queries_with_a_column_spelled_in_another_case", 1)
				}
			}
			if qi%7 == 5 {
				l := gen.Leaf(rng, A, A.ColNames())
				if v := swapCase(l.Col); v != l.Col && !A.Cols[v] && !B.Cols[v] {
					e = oracle.And(e, oracle.Eq(v, l.Val))
					r.Count("queries_with_a_column_spelled_in_another_case", 1)
				}
			}
			e = e.Clone() // no shared nodes: the in-place edits below must hit exactly one place in both trees
			// the Query value under test, with spare capacity in the group-by slice
			gbv := make([]string, len(gb), len(gb)+4)
			copy(gbv, gb)
			if len(gb) == 0 && rng.Intn(2) == 0 {
				gbv = nil
			}
			q := &updog.Query{Expr: e.ToUpdog(), GroupBy: gbv}
			snapE := oracle.FromUpdog(q.Expr)
			snapGB := append([]string{}, q.GroupBy...)
			snapNil := q.GroupBy == nil
			steps := 2 + rng.Intn(4)
			var history []string
			// results handed out earlier must stay what they were when later executions run
			type kept struct {
				res  *updog.Result
				copy *updog.Result
				step int
			}
			var earlier []kept
			for s := 0; s < steps; s++ {
				if s > 0 && qi%3 == 1 && rng.Intn(2) == 0 {
					// the caller edits its Query value in place between two executions (e.g. loops over values with one
					// query object): the next execution must answer the query as it is NOW
					what := editInPlace(rng, e, q, A, B)
					gb = append([]string{}, q.GroupBy...)
					snapE = oracle.FromUpdog(q.Expr)
					snapGB = append([]string{}, q.GroupBy...)
					snapNil = q.GroupBy == nil
					history = append(history, "EDIT:"+what)
					r.Count("in_place_edits_between_executions", 1)
				}
				var t target
				switch rng.Intn(3) {
				case 0:
					t = targets[rng.Intn(2)] // stay on A
				case 1:
					t = targets[2+rng.Intn(2)] // B: other schema, may lack a group-by column
				default:
					t = targets[rng.Intn(len(targets))]
				}
				history = append(history, t.name)
				want := oracle.Eval(t.ds.Rows, t.ds.Cols, e, gb)
				res, err := t.idx.Execute(q)
				r.Eval(1)
				if want.Err {
					r.Count("executions_expected_to_fail_in_between", 1)
				}
				diff := oracle.CompareResult(res, err, want, gb)
				if diff == "" {
					// the formulation of the property: same as a freshly constructed equal query
					fres, ferr := ix.Exec(t.idx, e, gb)
					if (ferr == nil) != (err == nil) || (ferr == nil && !reflect.DeepEqual(fres, res)) {
						diff = fmt.Sprintf("differs from a freshly constructed equal query: %v/%v vs %v/%v", res, err, fres, ferr)
					}
				}
				for _, k := range earlier {
					if !reflect.DeepEqual(k.res, k.copy) {
						r.Violation(qid, "earlier-result-changed", map[string]any{"result_of_execution": k.step + 1, "changed_after_execution": s + 1, "was": fmt.Sprintf("%+v", k.copy), "is_now": fmt.Sprintf("%+v", k.res), "history": history})
						diff = "x"
						break
					}
				}
				if diff == "x" {
					break
				}
				if res != nil && err == nil {
					earlier = append(earlier, kept{res, deepCopyResult(res), s})
				}
				if diff != "" {
					r.Violation(qid, "answer", map[string]any{"difference": diff, "expr": e.String(), "group_by": fmt.Sprintf("%q", gb), "execution_number": s + 1, "history": history,
						"rows_A": witnessRows(A, 15), "rows_B": witnessRows(B, 15)})
					break
				}
				if !oracle.Equal(snapE, oracle.FromUpdog(q.Expr)) {
					r.Violation(qid, "expr-field-changed", map[string]any{"before": snapE.String(), "after": oracle.FromUpdog(q.Expr).String(), "history": history})
					break
				}
				if !reflect.DeepEqual(snapGB, append([]string{}, q.GroupBy...)) || (q.GroupBy == nil) != snapNil {
					r.Violation(qid, "groupby-field-changed", map[string]any{"before": fmt.Sprintf("%q", snapGB), "after": fmt.Sprintf("%q", q.GroupBy), "history": history})
					break
				}
			}
			if len(gb) > 0 && steps >= 3 {
				r.Count("grouped_queries_executed_3plus_times", 1)
			}
			r.Cover("groupby_lengths", fmt.Sprint(len(gb)))
			r.Max("executions_of_one_query_value", int64(steps))
			r.Distinct(qid + "|" + e.Shape() + fmt.Sprint(history))
			if id == "pair000" && qi == 1 {
				r.Sample("history", map[string]any{"expr": e.String(), "group_by": fmt.Sprintf("%q", gb), "executed_on": history})
			}
		}
		var ts []c08Target
		for _, t := range targets {
			ts = append(ts, c08Target{t.name, t.ds, t.idx})
		}
		if p, msg, stack := vf.Try(func() { c08SharedParts(r, id, r.RNG(id+"/shared-parts"), A, B, ts) }); p {
			r.Violation(id+"/shared-parts", "panic", map[string]any{"panic": msg, "stack": head(stack, 3000)})
		}
		c08Holes(r, id, r.RNG(id+"/holes"), A, ts)
		c08Rebuilt(r, id, r.RNG(id+"/rebuilt"), A, B, dir)
		r.Count("dataset_pairs", 1)
	})
	racePass(r)
	r.Floor("query values edited in place between executions", r.GetCount("in_place_edits_between_executions") > 0)
	r.Floor("grouped query executed >= 3 times across two indexes", r.GetCount("grouped_queries_executed_3plus_times") > 0)
	r.Floor("an execution in between failed (index lacks a column)", r.GetCount("executions_expected_to_fail_in_between") > 0)
}

// editInPlace applies one random edit to the library query IN PLACE and the same edit to the reference tree (both
// have the same shape by construction): another value or column in a leaf, an operand appended to / replaced in /
// removed from an AND/OR, the operand of a NOT replaced, a group-by column replaced or appended.
func editInPlace(rng *rand.Rand, e *oracle.Expr, q *updog.Query, ds *gen.Dataset, other ...*gen.Dataset) string {
	var other0 *gen.Dataset
	if len(other) > 0 {
		other0 = other[0]
	}
	cols := ds.ColNames()
	if len(q.GroupBy) > 1 && rng.Intn(3) == 0 {
		// the same columns in another order: swapped in place, rotated in place, or a reordered NEW slice assigned
		switch rng.Intn(3) {
		case 0:
			i, j := rng.Intn(len(q.GroupBy)), rng.Intn(len(q.GroupBy))
			q.GroupBy[i], q.GroupBy[j] = q.GroupBy[j], q.GroupBy[i]
		case 1:
			first := q.GroupBy[0]
			copy(q.GroupBy, q.GroupBy[1:])
			q.GroupBy[len(q.GroupBy)-1] = first
		default:
			n := append([]string{}, q.GroupBy...)
			for i, j := 0, len(n)-1; i < j; i, j = i+1, j-1 {
				n[i], n[j] = n[j], n[i]
			}
			q.GroupBy = n
		}
		return "group-by columns permuted"
	}
	if len(q.GroupBy) > 0 && rng.Intn(4) == 0 {
		c := cols[rng.Intn(len(cols))]
		if rng.Intn(2) == 0 && (len(q.GroupBy) == 1 || len(ds.Vals[c]) < 50) && (other0 == nil || len(other0.Vals[c]) < 50) {
			// (a wide column in the middle of a longer list would make the library's refinement work explode)
			q.GroupBy[rng.Intn(len(q.GroupBy))] = c
			return "group-by column replaced"
		}
		if len(q.GroupBy) < 4 && len(ds.Vals[c]) < 50 && (other0 == nil || len(other0.Vals[c]) < 50) {
			q.GroupBy = append(q.GroupBy, c)
			return "group-by column appended"
		}
	}
	type pair struct {
		o *oracle.Expr
		u updog.Expression
	}
	var nodes []pair
	var walk func(o *oracle.Expr, u updog.Expression)
	walk = func(o *oracle.Expr, u updog.Expression) {
		nodes = append(nodes, pair{o, u})
		switch v := u.(type) {
		case *updog.ExprNot:
			walk(o.Kids[0], v.Expr)
		case *updog.ExprAnd:
			for i := range v.Exprs {
				walk(o.Kids[i], v.Exprs[i])
			}
		case *updog.ExprOr:
			for i := range v.Exprs {
				walk(o.Kids[i], v.Exprs[i])
			}
		}
	}
	walk(e, q.Expr)
	n := nodes[rng.Intn(len(nodes))]
	leaf := func() (*oracle.Expr, updog.Expression) {
		l := gen.Leaf(rng, ds, cols)
		return l, &updog.ExprEqual{Column: l.Col, Value: l.Val}
	}
	switch u := n.u.(type) {
	case *updog.ExprEqual:
		l := gen.Leaf(rng, ds, cols)
		if rng.Intn(3) == 0 {
			n.o.Col, u.Column = l.Col, l.Col
		}
		n.o.Val, u.Value = l.Val, l.Val
		return "leaf value/column changed"
	case *updog.ExprNot:
		lo, lu := leaf()
		n.o.Kids[0], u.Expr = lo, lu
		return "operand of NOT replaced"
	case *updog.ExprAnd:
		lo, lu := leaf()
		switch k := rng.Intn(3); {
		case k == 0 && len(u.Exprs) > 1:
			n.o.Kids, u.Exprs = n.o.Kids[:len(n.o.Kids)-1], u.Exprs[:len(u.Exprs)-1]
			return "last AND operand removed"
		case k == 1:
			i := rng.Intn(len(u.Exprs))
			n.o.Kids[i], u.Exprs[i] = lo, lu
			return "AND operand replaced"
		default:
			n.o.Kids, u.Exprs = append(n.o.Kids, lo), append(u.Exprs, lu)
			return "AND operand appended"
		}
	case *updog.ExprOr:
		lo, lu := leaf()
		switch k := rng.Intn(3); {
		case k == 0 && len(u.Exprs) > 1:
			n.o.Kids, u.Exprs = n.o.Kids[:len(n.o.Kids)-1], u.Exprs[:len(u.Exprs)-1]
			return "last OR operand removed"
		case k == 1:
			i := rng.Intn(len(u.Exprs))
			n.o.Kids[i], u.Exprs[i] = lo, lu
			return "OR operand replaced"
		default:
			n.o.Kids, u.Exprs = append(n.o.Kids, lo), append(u.Exprs, lu)
			return "OR operand appended"
		}
	}
	return "none"
}

func deepCopyResult(r *updog.Result) *updog.Result {
	c := &updog.Result{Count: r.Count}
	if r.Groups != nil {
		c.Groups = make([]updog.ResultGroup, len(r.Groups))
		for i, g := range r.Groups {
			c.Groups[i].Count = g.Count
			if g.Fields != nil {
				c.Groups[i].Fields = append([]updog.ResultField{}, g.Fields...)
			}
		}
	}
	return c
}

// gbWork estimates the library's refinement work for a group-by list on a dataset (0 if a column is unknown there).
func gbWork(ds *gen.Dataset, gb []string) int {
	groups, work := 1, 0
	rows := len(ds.Rows)
	if rows < 1 {
		rows = 1
	}
	for _, c := range gb {
		if !ds.Cols[c] {
			return 0
		}
		k := len(ds.Vals[c])
		if k < 1 {
			k = 1
		}
		work += groups * k
		groups *= k
		if groups > rows {
			groups = rows
		}
	}
	return work
}

// swapCase flips the case of every ASCII letter.
func swapCase(s string) string {
	b := []byte(s)
	for i, c := range b {
		switch {
		case c >= 'a' && c <= 'z':
			b[i] = c - 32
		case c >= 'A' && c <= 'Z':
			b[i] = c + 32
		}
	}
	return string(b)
}
