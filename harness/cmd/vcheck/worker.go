package main

import (
	"fmt"
	"os"
)

var workers = map[string]func(args []string) int{}

func runWorker(args []string) int {
	if len(args) < 1 {
		fmt.Fprintln(os.Stderr, "usage: vcheck worker <name> ...")
		return 3
	}
	w, ok := workers[args[0]]
	if !ok {
		fmt.Fprintln(os.Stderr, "unknown worker", args[0])
		return 3
	}
	return w(args[1:])
}
