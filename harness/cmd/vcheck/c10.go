package main

import (
	"fmt"
	"google.golang.org/protobuf/proto"
	"math/rand"
	"strings"

	"github.com/akrennmair/updog/internal/queryparser"
	pb "github.com/akrennmair/updog/proto/updog/v1"
	"github.com/akrennmair/updog/verifharness/gen"
	"github.com/akrennmair/updog/verifharness/oracle"
	"github.com/akrennmair/updog/verifharness/vf"
)

func init() { register("C10", "exploration", runC10) }

// roundTrip checks one tree: format -> parse -> normal form equal, group-by
// equal, and the re-formatted text is a fixed point of parse∘format.
func roundTrip(t *oracle.Expr, gb []string) string {
	return roundTripProto(&pb.Query{Expr: t.ToProto(), GroupBy: gb}, t, gb)
}

// toProtoShared converts like Expr.ToProto, but an *oracle.Expr that occurs at several places of the tree becomes ONE
// protobuf node referenced from all of them (a filter kept in a variable and used twice).
func toProtoShared(e *oracle.Expr, memo map[*oracle.Expr]*pb.Query_Expression) *pb.Query_Expression {
	if p, ok := memo[e]; ok {
		return p
	}
	var p *pb.Query_Expression
	switch e.Op {
	case '=':
		p = e.ToProto()
	case '^':
		p = &pb.Query_Expression{Value: &pb.Query_Expression_Not_{Not: &pb.Query_Expression_Not{Expr: toProtoShared(e.Kids[0], memo)}}}
	case '&':
		x := &pb.Query_Expression_And{}
		for _, k := range e.Kids {
			x.Exprs = append(x.Exprs, toProtoShared(k, memo))
		}
		p = &pb.Query_Expression{Value: &pb.Query_Expression_And_{And: x}}
	default:
		x := &pb.Query_Expression_Or{}
		for _, k := range e.Kids {
			x.Exprs = append(x.Exprs, toProtoShared(k, memo))
		}
		p = &pb.Query_Expression{Value: &pb.Query_Expression_Or_{Or: x}}
	}
	memo[e] = p
	return p
}

func roundTripProto(q *pb.Query, t *oracle.Expr, gb []string) string {
	var s1 string
	before := proto.Clone(q)
	if p, msg, _ := vf.Try(func() { s1 = queryparser.QueryToString(q) }); p {
		return "QueryToString panicked: " + msg
	}
	if !proto.Equal(before, q) {
		return fmt.Sprintf("QueryToString changed the query it was given: before %s, after %s", head(queryparser.QueryToString(before.(*pb.Query)), 600), head(queryparser.QueryToString(q), 600))
	}
	var q1 *pb.Query
	var err error
	if p, msg, _ := vf.Try(func() { q1, err = queryparser.ParseQuery(s1) }); p {
		return fmt.Sprintf("ParseQuery panicked on formatted text %q: %s", head(s1, 500), msg)
	}
	if err != nil {
		return fmt.Sprintf("formatted text %q is rejected by the parser: %v", head(s1, 1000), err)
	}
	want := oracle.Normalize(t)
	got, ok := oracle.FromProto(q1.Expr)
	if !ok {
		return fmt.Sprintf("parse of %q returned an incomplete tree", head(s1, 500))
	}
	if n := oracle.Normalize(got); !oracle.Equal(n, want) {
		return fmt.Sprintf("meaning changed: text %q parses to %s, original normal form %s", head(s1, 1000), n.String(), want.String())
	}
	if strings.Join(q1.GroupBy, "\x00") != strings.Join(gb, "\x00") || len(q1.GroupBy) != len(gb) {
		return fmt.Sprintf("group-by list changed: %q -> %q (text %q)", gb, q1.GroupBy, head(s1, 500))
	}
	// independent of the implementation's parser: the reference grammar reads the same meaning
	re, rgb, rok := oracle.RefParse(s1)
	if !rok {
		return fmt.Sprintf("formatted text %q is not a sentence of the documented grammar", head(s1, 1000))
	}
	if !oracle.Equal(oracle.Normalize(re), want) || strings.Join(rgb, "\x00") != strings.Join(gb, "\x00") {
		return fmt.Sprintf("formatted text %q means %s ; %q under the documented grammar, original %s ; %q", head(s1, 1000), oracle.Normalize(re).String(), rgb, want.String(), gb)
	}
	s2 := queryparser.QueryToString(q1)
	q2, err := queryparser.ParseQuery(s2)
	if err != nil {
		return fmt.Sprintf("re-formatted text %q is rejected: %v", head(s2, 1000), err)
	}
	if s3 := queryparser.QueryToString(q2); s3 != s2 {
		return fmt.Sprintf("formatting is not stable: %q -> %q", head(s2, 1000), head(s3, 1000))
	}
	return ""
}

// contexts records which parenthesisation contexts a tree exercises.
func contexts(r *vf.Run, t *oracle.Expr) {
	var rec func(x *oracle.Expr)
	rec = func(x *oracle.Expr) {
		for _, k := range x.Kids {
			switch {
			case x.Op == '&' && k.Op == '|':
				r.Cover("contexts", "OR under AND")
			case x.Op == '|' && k.Op == '&':
				r.Cover("contexts", "AND under OR")
			case x.Op == '^' && (k.Op == '&' || k.Op == '|'):
				r.Cover("contexts", "AND/OR under NOT")
			case x.Op == '^' && k.Op == '^':
				r.Cover("contexts", "NOT under NOT")
			case x.Op == k.Op && (x.Op == '&' || x.Op == '|'):
				r.Cover("contexts", "same operator nested")
			case (x.Op == '&' || x.Op == '|') && k.Op == '^':
				r.Cover("contexts", "NOT under AND/OR")
			}
			if (k.Op == '&' || k.Op == '|') && len(k.Kids) == 1 {
				r.Cover("contexts", "single-operand wrapper as operand")
			}
			rec(k)
		}
	}
	if (t.Op == '&' || t.Op == '|') && len(t.Kids) == 1 {
		r.Cover("contexts", "single-operand wrapper at the root")
	}
	rec(t)
}

func enumTrees(leaves []*oracle.Expr, depth int) []*oracle.Expr {
	cur := append([]*oracle.Expr{}, leaves...)
	for d := 0; d < depth; d++ {
		next := append([]*oracle.Expr{}, leaves...)
		for _, x := range cur {
			next = append(next, oracle.Not(x), oracle.And(x), oracle.Or(x))
		}
		for _, x := range cur {
			for _, y := range cur {
				next = append(next, oracle.And(x, y), oracle.Or(x, y))
			}
		}
		cur = next
	}
	return cur
}

func randTree(rng *rand.Rand, depth, arity int) *oracle.Expr {
	if depth <= 0 || rng.Intn(5) == 0 {
		col := gen.IdentCols[rng.Intn(len(gen.IdentCols))]
		if rng.Intn(5) == 0 {
			ph := []int32{1, 2, 3, 10, 2147483647, int32(1 + rng.Intn(1<<30))}[rng.Intn(6)]
			return oracle.PhEq(col, ph)
		}
		var v string
		switch rng.Intn(4) {
		case 0:
			v = gen.Hostile[rng.Intn(len(gen.Hostile))]
		case 1:
			v = gen.RandBytes(rng, rng.Intn(12))
		case 2:
			v = strings.Repeat(`"`, rng.Intn(5)) + "x" + strings.Repeat(`"`, rng.Intn(5))
		default:
			v = fmt.Sprint(rng.Intn(100))
		}
		return oracle.Eq(col, v)
	}
	switch rng.Intn(3) {
	case 0:
		return oracle.Not(randTree(rng, depth-1, arity))
	default:
		e := &oracle.Expr{Op: []byte{'&', '|'}[rng.Intn(2)]}
		n := 1 + rng.Intn(arity)
		for i := 0; i < n; i++ {
			e.Kids = append(e.Kids, randTree(rng, depth-1, arity))
		}
		return e
	}
}

func runC10(r *vf.Run) {
	r.Rule("one evaluation = one query tree formatted with QueryToString, parsed back with ParseQuery and compared in normal form (flatten same-operator nesting, unwrap single-operand AND/OR) with the original, " +
		"plus the group-by list, plus the fixed-point check of the re-formatted text, plus an independent reading of the text by the reference grammar; " +
		"chains: every nesting depth 1..300 (thorough 3000) x {AND, OR, alternating, with NOT interleaved, NOT only} x {left-, right-nested}; exhaustive part: all trees up to the stated depth with arity <= 2 over the stated leaf alphabet (both operators, NOT anywhere, single-operand nodes); " +
		"distinct_nontrivial = distinct (normal form, group-by) pairs among trees with at least one operator")
	r.Assume("column names are identifiers of the query language", "a comparison carries either a value or a placeholder, not both")
	leaves4 := []*oracle.Expr{oracle.Eq("a", "1"), oracle.Eq("B9_z", `x"y`), oracle.PhEq("c", 1), oracle.Eq("d", "")}
	leaves2 := []*oracle.Expr{oracle.Eq("a", `"`), oracle.PhEq("b", 2)}
	type part struct {
		id    string
		trees []*oracle.Expr
	}
	parts := []part{{"exh-d2-l4", enumTrees(leaves4, 2)}}
	if r.Thorough() {
		parts = append(parts, part{"exh-d3-l2", enumTrees(leaves2, 3)})
	} else {
		all := enumTrees(leaves2, 2)
		// depth 3 over two leaves: a PRNG sample in the quick tier
		rng := r.RNG("d3-sample")
		var sample []*oracle.Expr
		for i := 0; i < 60000; i++ {
			x, y := all[rng.Intn(len(all))], all[rng.Intn(len(all))]
			switch rng.Intn(5) {
			case 0:
				sample = append(sample, oracle.Not(x))
			case 1:
				sample = append(sample, &oracle.Expr{Op: []byte{'&', '|'}[rng.Intn(2)], Kids: []*oracle.Expr{x}})
			default:
				sample = append(sample, &oracle.Expr{Op: []byte{'&', '|'}[rng.Intn(2)], Kids: []*oracle.Expr{x, y}})
			}
		}
		parts = append(parts, part{"smp-d3-l2", sample})
	}
	for _, p := range parts {
		r.Extra("trees_"+p.id, len(p.trees))
		const chunk = 5000
		var ids []string
		for i := 0; i < len(p.trees); i += chunk {
			ids = append(ids, fmt.Sprintf("%s/chunk%04d", p.id, i/chunk))
		}
		trees := p.trees
		pid := p.id
		r.ForEach(ids, 16, func(id string) {
			var ci int
			fmt.Sscanf(id[len(pid)+len("/chunk"):], "%d", &ci)
			for i := ci * chunk; i < min((ci+1)*chunk, len(trees)); i++ {
				tid := fmt.Sprintf("%s/t%d", id, i)
				if !r.Want(tid) {
					continue
				}
				t := trees[i]
				var gb []string
				if i%5 == 0 {
					gb = []string{"a", "Zz"}[:1+i%2]
				}
				r.Eval(1)
				if d := roundTrip(t, gb); d != "" {
					r.Violation(tid, "roundtrip", map[string]any{"tree": t.String(), "group_by": fmt.Sprintf("%q", gb), "problem": d})
				}
				if t.HasOperator() {
					r.Distinct(oracle.Normalize(t).String() + fmt.Sprint(gb))
				}
				contexts(r, t)
			}
		})
	}
	if r.Thorough() && r.Violations() == 0 && !r.Replay() {
		r.Extra("exhaustive_parts", "all trees of depth<=2/arity<=2 over 4 leaves and depth<=3/arity<=2 over 2 leaves")
	}
	n := r.Pick(30000, 3000000)
	var ids []string
	const chunk = 2000
	for i := 0; i < n; i += chunk {
		ids = append(ids, fmt.Sprintf("rnd/chunk%04d", i/chunk))
	}
	r.ForEach(ids, 16, func(id string) {
		rng := r.RNG(id)
		for i := 0; i < chunk; i++ {
			tid := fmt.Sprintf("%s/t%d", id, i)
			t := randTree(rng, rng.Intn(11), 1+rng.Intn(6))
			var gb []string
			for k := rng.Intn(9); k > 0 && rng.Intn(3) != 0; k-- {
				gb = append(gb, gen.IdentCols[rng.Intn(len(gen.IdentCols))])
			}
			if !r.Want(tid) {
				continue
			}
			r.Eval(1)
			if t.Nodes() > 20000 {
				continue
			}
			if d := roundTrip(t, gb); d != "" {
				r.Violation(tid, "roundtrip", map[string]any{"tree": t.String(), "group_by": fmt.Sprintf("%q", gb), "problem": d})
			}
			if t.HasOperator() {
				r.Distinct(oracle.Normalize(t).String() + fmt.Sprint(gb))
			}
			contexts(r, t)
			r.Max("tree_depth", int64(t.Depth()))
			r.Max("group_by_length", int64(len(gb)))
			if id == "rnd/chunk0000" && i == 7 {
				r.Sample("random-tree", map[string]any{"tree": t.String(), "group_by": gb, "text": head(queryparser.QueryToString(&pb.Query{Expr: t.ToProto(), GroupBy: gb}), 600)})
			}
		}
	})
	// deep chains: one path of d nested operators (random trees stop at depth 10), left- and right-nested, one operator,
	// alternating operators, NOT interleaved, NOT only; every depth up to the bound
	maxChain := r.Pick(300, 3000)
	var cids []string
	for d := 1; d <= maxChain; d++ {
		cids = append(cids, fmt.Sprintf("chain/d%04d", d))
	}
	chainFamilies := []string{"and", "or", "alt", "alt-not", "not", "and-not"}
	r.ForEach(cids, 16, func(id string) {
		var d int
		fmt.Sscanf(id, "chain/d%d", &d)
		for _, fam := range chainFamilies {
			for _, left := range []bool{false, true} {
				tid := fmt.Sprintf("%s/%s/left=%v", id, fam, left)
				if !r.Want(tid) {
					continue
				}
				leaf := func(i int) *oracle.Expr {
					if i%7 == 3 {
						return oracle.PhEq("c", int32(1+i%5))
					}
					return oracle.Eq(gen.IdentCols[i%len(gen.IdentCols)], fmt.Sprint(i))
				}
				t := leaf(0)
				for i := 1; i <= d; i++ {
					op := byte('&')
					switch fam {
					case "or":
						op = '|'
					case "alt", "alt-not":
						op = []byte{'&', '|'}[i%2]
					}
					switch {
					case fam == "not" || ((fam == "alt-not" || fam == "and-not") && i%2 == 0):
						t = oracle.Not(t)
					case left:
						t = &oracle.Expr{Op: op, Kids: []*oracle.Expr{t, leaf(i)}}
					default:
						t = &oracle.Expr{Op: op, Kids: []*oracle.Expr{leaf(i), t}}
					}
				}
				var gb []string
				if d%3 != 0 {
					gb = []string{"a", "Zz"}[:1+d%2]
				}
				r.Eval(1)
				if p := roundTrip(t, gb); p != "" {
					r.Violation(tid, "roundtrip", map[string]any{"family": fam, "left_nested": left, "nested_operators": d, "group_by": fmt.Sprintf("%q", gb), "problem": head(p, 1500)})
				}
				r.Distinct(tid)
				r.Max("chain_depth", int64(d))
				r.Cover("chain_families", fam)
			}
		}
	})
	// identifiers: every short field and words that other languages reserve, as column of a leaf and as group-by entry
	idents := gen.ShortIdentifiers(r.Thorough())
	var iids []string
	const ichunk = 4000
	for i := 0; i < len(idents); i += ichunk {
		iids = append(iids, fmt.Sprintf("ident/chunk%03d", i/ichunk))
	}
	r.ForEach(iids, 16, func(id string) {
		var ci int
		fmt.Sscanf(id, "ident/chunk%d", &ci)
		for i := ci * ichunk; i < min((ci+1)*ichunk, len(idents)); i++ {
			w := idents[i]
			tid := fmt.Sprintf("%s/%s", id, w)
			if !r.Want(tid) {
				continue
			}
			var t *oracle.Expr
			var gb []string
			switch i % 4 {
			case 0:
				t, gb = oracle.Eq(w, "x"), []string{w}
			case 1:
				t, gb = oracle.And(oracle.Eq("a", "1"), oracle.Not(oracle.PhEq(w, 2))), []string{"a", w}
			case 2:
				t, gb = oracle.Or(oracle.Eq(w, w), oracle.And(oracle.Eq("b", "2"), oracle.Eq(w, ""))), nil
			default:
				t, gb = oracle.Not(oracle.Or(oracle.Eq(w, "1"), oracle.Eq(w+"_", "2"))), []string{w, w + "9", w}
			}
			r.Eval(1)
			if p := roundTrip(t, gb); p != "" {
				r.Violation(tid, "roundtrip", map[string]any{"identifier": w, "tree": t.String(), "group_by": fmt.Sprintf("%q", gb), "problem": head(p, 1200)})
			}
			r.Count("identifiers_round_tripped", 1)
		}
	})
	{
		long := strings.Repeat("q", 300) + "_" + strings.Repeat("9", 40)
		r.Eval(1)
		if p := roundTrip(oracle.And(oracle.Eq(long, "1"), oracle.Eq("a", long)), []string{long, "a", long}); p != "" && r.Want("ident/long") {
			r.Violation("ident/long", "roundtrip", map[string]any{"identifier_length": len(long), "problem": head(p, 1200)})
		}
	}
	// value classes, each in every leaf position of a small tree
	for i, v := range append(append([]string{}, gen.Hostile...), `"`, `""`, `"""`, `a"`, `"a`, `a""b`, "\"\n\"", "$1", `" & b = "2`) {
		tid := fmt.Sprintf("value%03d", i)
		if !r.Want(tid) {
			continue
		}
		r.Eval(1)
		t := oracle.And(oracle.Eq("a", v), oracle.Not(oracle.Or(oracle.Eq("b", v), oracle.Eq("c", v+v))))
		if d := roundTrip(t, []string{"a"}); d != "" {
			r.Violation(tid, "roundtrip", map[string]any{"value": fmt.Sprintf("%q", v), "problem": d})
		}
		r.Count("value_classes", 1)
	}
	// (round 7) tokens around the sizes of common read buffers: one value or field of 4 KiB .. 1 MiB anywhere in the tree
	// (with quotes to double, with multi-byte characters), and every doubled character the decoder might want to undo
	for i, n := range []int{4095, 4096, 4097, 32767, 32768, 65532, 65533, 65534, 65535, 65536, 65537, 70001, 131073, 300001, 1<<20 + 1} {
		tid := fmt.Sprintf("long-token/%d", n)
		if !r.Want(tid) {
			continue
		}
		var v string
		switch i % 3 {
		case 0:
			v = strings.Repeat("v", n)
		case 1:
			v = strings.Repeat(`x"`, n/2) + "y"
		default:
			v = strings.Repeat("é", n/2) + "z"
		}
		f := "f" + strings.Repeat("G9_", n/3)
		for k, t := range []*oracle.Expr{oracle.Eq("a", v), oracle.And(oracle.Eq("b", "2"), oracle.Not(oracle.Eq("a", v)), oracle.Eq("c", "3")), oracle.Or(oracle.Eq(f, "1"), oracle.Eq("a", "2"))} {
			r.Eval(1)
			gb := [][]string{nil, {"a"}, {f, "a"}}[k]
			if d := roundTrip(t, gb); d != "" {
				r.Violation(tid, "roundtrip", map[string]any{"token_bytes": n, "position": []string{"only comparison", "middle operand below NOT", "field and group-by entry"}[k], "problem": head(d, 600)})
				break
			}
		}
		r.Count("long_tokens_round_tripped", 1)
	}
	for i, ch := range []string{"'", "\\", "`", "$", "&", "|", "^", ";", ",", " ", "\n", "%", "é", "\x00", "\t", "=", "(", ")"} {
		tid := fmt.Sprintf("doubled/%d", i)
		if !r.Want(tid) {
			continue
		}
		for _, v := range []string{ch + ch, "it" + ch + ch + "s", ch + ch + ch, "a" + ch + "b" + ch + ch + "c", ch + ch + ch + ch, ch + `"` + ch, `"` + ch + ch + `"`} {
			r.Eval(1)
			t := oracle.Or(oracle.Eq("a", v), oracle.Not(oracle.Eq("b", v+"x")))
			if d := roundTrip(t, nil); d != "" {
				r.Violation(tid, "roundtrip", map[string]any{"value": fmt.Sprintf("%q", v), "problem": head(d, 600)})
				break
			}
		}
		r.Count("doubled_character_values", 1)
	}
	// (round 8) trees in which one node OBJECT occurs at several places (a leaf or a sub-tree kept in a variable)
	{
		a, b, c := oracle.Eq("a", "1"), oracle.Eq("b", `x"y`), oracle.PhEq("c", 2)
		s := oracle.And(a, b)
		n := oracle.Not(c)
		for i, t := range []*oracle.Expr{oracle.Or(a, a), oracle.And(a, oracle.Or(b, a)), oracle.And(a, oracle.Not(a)), oracle.Or(s, oracle.Not(s)), oracle.And(s, s, c), oracle.Or(n, oracle.And(n, a), n),
			oracle.And(oracle.Or(s, c), oracle.Or(s, c)), oracle.Not(oracle.Not(oracle.And(a, oracle.Not(oracle.Or(a, b, a)))))} {
			tid := fmt.Sprintf("shared-node/%d", i)
			if !r.Want(tid) {
				continue
			}
			r.Eval(1)
			q := &pb.Query{Expr: toProtoShared(t, map[*oracle.Expr]*pb.Query_Expression{}), GroupBy: []string{"a"}}
			if d := roundTripProto(q, t, []string{"a"}); d != "" {
				r.Violation(tid, "roundtrip", map[string]any{"tree": t.String(), "problem": head(d, 800), "note": "one node object occurs at several places of the tree"})
			}
			r.Count("trees_with_shared_node_objects", 1)
		}
	}
	for _, c := range []string{"OR under AND", "AND under OR", "AND/OR under NOT", "NOT under NOT", "single-operand wrapper as operand", "single-operand wrapper at the root", "same operator nested"} {
		r.Floor("context seen: "+c, r.HasCover("contexts", c))
	}
}
