package main

import (
	"bytes"
	"fmt"
	"math/rand"
	"os"
	"path/filepath"
	"sort"
	"strings"
	"time"

	"github.com/RoaringBitmap/roaring"
	"github.com/akrennmair/updog"
	"github.com/akrennmair/updog/verifharness/gen"
	"github.com/akrennmair/updog/verifharness/ix"
	"github.com/akrennmair/updog/verifharness/oracle"
	"github.com/akrennmair/updog/verifharness/vf"
	"go.etcd.io/bbolt"
)

// gbBudget bounds the estimated refinement work of one generated group-by list.
const gbBudget = 40000

var boundarySizes = []int{0, 1, 2, 999, 1000, 1001, 4095, 4096, 4097, 65535, 65536, 65537}

type cfgIndex struct {
	name string
	idx  *updog.Index
}

// openMatrix opens the 3 writers x 2 open modes configuration matrix.
func openMatrix(paths map[string]string) ([]cfgIndex, error) {
	var out []cfgIndex
	for _, w := range ix.Writers {
		for _, m := range ix.OpenModes {
			var idx *updog.Index
			var err error
			if w == ix.WriterMemBolt {
				// the caller-supplied-DB output is also read back through the DB-level constructor
				idx, err = ix.OpenViaBolt(paths[w], m, nil)
			} else {
				idx, err = ix.Open(paths[w], m, nil)
			}
			if err != nil {
				for _, c := range out {
					c.idx.Close()
				}
				return nil, fmt.Errorf("open %s/%s: %w", w, m, err)
			}
			out = append(out, cfgIndex{w + "/" + m, idx})
		}
	}
	return out, nil
}

func closeMatrix(m []cfgIndex) {
	for _, c := range m {
		c.idx.Close()
	}
}

// containerKinds tallies roaring container kinds in a flushed index (coverage only).
func containerKinds(r *vf.Run, path string) {
	db, err := bbolt.Open(path, 0o644, &bbolt.Options{ReadOnly: true, Timeout: 10 * time.Second})
	if err != nil {
		return
	}
	defer db.Close()
	_ = db.View(func(tx *bbolt.Tx) error {
		b := tx.Bucket([]byte("data"))
		if b == nil {
			return nil
		}
		c := b.Cursor()
		n := 0
		for k, v := c.Seek([]byte("V")); k != nil && bytes.HasPrefix(k, []byte("V")); k, v = c.Next() {
			n++
			if n > 3000 {
				break
			}
			bm := roaring.New()
			if _, err := bm.FromBuffer(append([]byte{}, v...)); err != nil {
				continue
			}
			st := bm.Stats()
			if st.ArrayContainers > 0 {
				r.Cover("container_kinds", "array")
			}
			if st.BitmapContainers > 0 {
				r.Cover("container_kinds", "bitmap")
			}
			if st.RunContainers > 0 {
				r.Cover("container_kinds", "run")
			}
		}
		return nil
	})
}

type diffCase struct {
	id   string
	rows int
	opts gen.DatasetOpts
}

// diffCases is the fixed, seed-determined dataset list shared by C01 and C02.
func diffCases(r *vf.Run, groupMode bool) []diffCase {
	var cases []diffCase
	rng := r.RNG("case-list")
	for _, n := range boundarySizes {
		if groupMode && n > 5000 && r.Quick() && n != 65536 {
			continue
		}
		cases = append(cases, diffCase{id: fmt.Sprintf("bnd%d", n), rows: n})
	}
	nr := r.Pick(20, 500)
	if groupMode {
		nr = r.Pick(30, 600)
	}
	for i := 0; i < nr; i++ {
		var n int
		switch rng.Intn(6) {
		case 0:
			n = rng.Intn(20)
		case 1, 2:
			n = rng.Intn(3000)
		case 3, 4:
			n = rng.Intn(r.Pick(12000, 70000))
		default:
			n = rng.Intn(r.Pick(20000, 150001))
		}
		cases = append(cases, diffCase{id: fmt.Sprintf("rnd%03d", i), rows: n})
	}
	if r.Thorough() && !groupMode {
		cases = append(cases, diffCase{id: "big150k", rows: 150000})
	}
	cases = append(cases, diffCase{id: "concat-small", rows: 60}, diffCase{id: "concat-1200", rows: 1200})
	cases = append(cases, diffCase{id: "wide-rows", rows: 60})
	if !groupMode && r.Thorough() {
		cases = append(cases, diffCase{id: "dense", rows: 150000})
	}
	if !groupMode {
		cases = append(cases, diffCase{id: "container-edges", rows: 131072})
		cases = append(cases, diffCase{id: "rare-values", rows: r.Pick(80000, 150000)})
	}
	if !groupMode {
		// the NOT universe when the row count is a multiple of the container size and the last rows carry no column
		cases = append(cases, diffCase{id: "trail65536", rows: 65536}, diffCase{id: "trail4096", rows: 4096})
		if r.Thorough() {
			cases = append(cases, diffCase{id: "trail131072", rows: 131072})
		}
	} else {
		cases = append(cases, diffCase{id: "manygroups", rows: r.Pick(9000, 30000)})
		cases = append(cases, diffCase{id: "gb-product", rows: 3000})
		if r.Thorough() {
			cases = append(cases, diffCase{id: "groups70000", rows: 70000})
		}
	}
	for i := range cases {
		c := &cases[i]
		c.opts = gen.DatasetOpts{Rows: c.rows, MaxCols: 6, HostileCols: i%3 == 1, HostileVals: i%2 == 1, EmptyRows: i%4 != 3}
		if strings.HasPrefix(c.id, "trail") {
			c.opts.EmptyRows, c.opts.TrailingEmpty = true, 3
		}
		if c.id == "groups70000" {
			c.opts = gen.DatasetOpts{Rows: c.rows, MaxCols: 1, Shapes: []gen.ValueShape{gen.ShapeUnique}, NoMissing: true}
		}
		if c.id == "manygroups" {
			c.opts = gen.DatasetOpts{Rows: c.rows, MaxCols: 2, MaxCard: 6000, Shapes: []gen.ValueShape{gen.ShapeManyDistinct, gen.ShapeRun}, HostileVals: true}
		}
		if c.id == "dense" {
			c.opts = gen.DatasetOpts{Rows: c.rows, Crafted: "dense"}
		}
		if c.id == "container-edges" || c.id == "wide-rows" || c.id == "gb-product" || c.id == "rare-values" {
			c.opts = gen.DatasetOpts{Rows: c.rows, Crafted: c.id}
		}
		if strings.HasPrefix(c.id, "concat") {
			c.opts.Concat = true
			c.opts.HostileCols, c.opts.HostileVals = false, false
		}
		if groupMode {
			// group-by needs moderate cardinalities and profits from several columns
			c.opts.MaxCard = 1200
			c.opts.WithUnique = c.rows <= 3000 && i%2 == 0
		}
	}
	return cases
}

type genQuery struct {
	id string
	e  *oracle.Expr
	gb []string
}

func genQueries(r *vf.Run, rng *rand.Rand, ds *gen.Dataset, n int, groupMode bool) []genQuery {
	cols := ds.ColNames()
	var qs []genQuery
	if len(cols) == 0 {
		// no column occurs in any row: every query must be rejected
		for i := 0; i < 3; i++ {
			qs = append(qs, genQuery{id: fmt.Sprintf("q%d", i), e: oracle.Eq(gen.UnknownCol(rng, ds), "x")})
		}
		qs = append(qs, genQuery{id: "q3", e: oracle.Not(oracle.Eq("a", "1")), gb: []string{"a"}})
		return qs
	}
	for i := 0; i < n; i++ {
		var e *oracle.Expr
		depth := rng.Intn(r.Pick(6, 9))
		arity := 1 + rng.Intn(5)
		e = gen.Expr(rng, ds, cols, depth, arity)
		q := genQuery{id: fmt.Sprintf("q%d", i), e: e}
		if groupMode {
			ln := i % 7 // lengths 0..6, biased below towards >= 4
			if rng.Intn(4) == 0 {
				ln = 4 + rng.Intn(3)
			}
			q.gb = gen.GroupBy(rng, ds, ln, gbBudget)
			if rng.Intn(12) == 0 && ln > 0 {
				q.gb[rng.Intn(len(q.gb))] = gen.UnknownCol(rng, ds)
			}
		}
		if rng.Intn(10) == 0 {
			q.e = gen.WithUnknown(rng, e, ds)
		}
		qs = append(qs, q)
	}
	if !groupMode {
		qs = append(qs,
			genQuery{id: "deep", e: gen.DeepChain(rng, ds, cols, 2000)},
			genQuery{id: "wide", e: gen.Wide(rng, ds, cols, 500)},
		)
		// NOT over a leaf of every column: the universe must include rows lacking the column and empty rows
		for i, c := range cols {
			if i >= 6 {
				break
			}
			qs = append(qs, genQuery{id: fmt.Sprintf("notleaf%d", i), e: oracle.Not(gen.Leaf(rng, ds, []string{c}))})
		}
		// every operand count from 1 to 70 (and a few around powers of two) once per dataset
		for _, n := range append(seqInts(1, 70), 127, 128, 129, 255, 256, 257) {
			if n > 70 && !r.Thorough() && n != 256 {
				continue
			}
			qs = append(qs, genQuery{id: fmt.Sprintf("arity%d", n), e: gen.Wide(rng, ds, cols, n)})
		}
		ul := gen.Leaf(rng, ds, cols[:1])
		qs = append(qs, genQuery{id: "universe", e: oracle.Or(ul, oracle.Not(ul))})
	} else {
		// every list length once over a trivially true expression, so that group membership is exact
		all := oracle.Or(oracle.Eq(cols[0], "x"), oracle.Not(oracle.Eq(cols[0], "x")))
		for ln := 0; ln <= 6; ln++ {
			qs = append(qs, genQuery{id: fmt.Sprintf("all-gb%d", ln), e: all, gb: gen.GroupBy(rng, ds, ln, gbBudget)})
		}
		// repeated columns: [c,c] and [c,c2,c]; the refinement work is quadratic in the
		// column's cardinality, so only moderately sized columns are used
		var small []string
		for _, c := range cols {
			if k := len(ds.Vals[c]); k*k <= 4*gbBudget {
				small = append(small, c)
			}
		}
		if ds.Cols["u"] && ds.Cols["t"] && ds.Cols["s"] && ds.Cols["m"] && ds.Unique == "u" {
			// the crafted product dataset: refinement steps of 66 000 to 120 000 (group, value) pairs, outside the work
			// budget of the generated lists
			notz := oracle.Not(oracle.Eq("kind", "z"))
			for i, gb := range [][]string{{"u", "t"}, {"t", "u"}, {"m", "s"}, {"s", "m"}, {"kind", "u", "t"}} {
				qs = append(qs, genQuery{id: fmt.Sprintf("product%d-all", i), e: all, gb: gb}, genQuery{id: fmt.Sprintf("product%d-notz", i), e: notz, gb: gb})
			}
		}
		if len(small) > 0 {
			c := small[rng.Intn(len(small))]
			qs = append(qs, genQuery{id: "rep2", e: all, gb: []string{c, c}})
			c2 := small[rng.Intn(len(small))]
			if k, k2 := len(ds.Vals[c]), len(ds.Vals[c2]); k*k2*k <= 8*gbBudget {
				qs = append(qs, genQuery{id: "rep3", e: all, gb: []string{c, c2, c}})
			}
		}
	}
	return qs
}

func witnessRows(ds *gen.Dataset, max int) []string {
	var out []string
	for i, r := range ds.Rows {
		if i >= max {
			out = append(out, fmt.Sprintf("… %d rows in total", len(ds.Rows)))
			break
		}
		var ks []string
		for k := range r {
			ks = append(ks, k)
		}
		sort.Strings(ks)
		s := "{"
		for j, k := range ks {
			if j > 0 {
				s += ","
			}
			s += fmt.Sprintf("%q:%q", k, r[k])
		}
		out = append(out, s+"}")
	}
	return out
}

func specStrings(ds *gen.Dataset) []string {
	var out []string
	for _, s := range ds.Specs {
		out = append(out, fmt.Sprintf("%q shape=%s card=%d missing=%.2f hostile=%v distinct=%d", s.Name, s.Shape, s.Card, s.Missing, s.Hostile, len(ds.Vals[s.Name])))
	}
	return out
}

// runDiff is the engine of C01 (counts) and C02 (groups): generated datasets x
// generated queries x the configuration matrix against the row oracle.
func runDiff(r *vf.Run, groupMode bool) {
	cases := diffCases(r, groupMode)
	var ids []string
	byID := map[string]diffCase{}
	for _, c := range cases {
		ids = append(ids, c.id)
		byID[c.id] = c
	}
	nq := r.Pick(60, 120)
	r.ForEach(ids, 12, func(id string) {
		c := byID[id]
		rng := r.RNG("ds/" + id)
		ds := gen.MakeDataset(rng, id, c.opts)
		dir := filepath.Join(r.Scratch, id)
		mustMkdir(dir)
		paths, err := ix.BuildAll(dir, "ds", ds.Rows)
		if err != nil {
			r.Violation(id, "build", map[string]any{"error": err.Error(), "rows": len(ds.Rows), "specs": specStrings(ds)})
			return
		}
		matrix, err := openMatrix(paths)
		if err != nil {
			r.Violation(id, "open", map[string]any{"error": err.Error(), "rows": len(ds.Rows), "specs": specStrings(ds)})
			return
		}
		defer closeMatrix(matrix)
		for _, p := range paths {
			containerKinds(r, p)
		}
		r.Count("datasets", 1)
		r.Count("rows_total", int64(len(ds.Rows)))
		r.Cover("row_counts_boundary", fmt.Sprint(boundaryOf(len(ds.Rows))))
		for _, s := range ds.Specs {
			r.Cover("value_shapes", s.Shape.String())
			if len(ds.Vals[s.Name]) > 1000 {
				r.Count("columns_over_1000_values", 1)
			}
		}
		qs := genQueries(r, rng, ds, nq, groupMode)
		for _, q := range qs {
			qid := id + "/" + q.id
			if !r.Want(qid) {
				continue
			}
			tq := time.Now()
			want := oracle.Eval(ds.Rows, ds.Cols, q.e, q.gb)
			tOracle := time.Since(tq)
			if want.Err {
				r.Count("error_expected_queries", 1)
			}
			if groupMode {
				r.Cover("groupby_lengths", fmt.Sprint(len(q.gb)))
				if hasRepeat(q.gb) {
					r.Count("groupby_with_repeated_column", 1)
				}
				if !want.Err {
					r.Max("groups", int64(len(want.Groups)))
					var sum uint64
					for _, g := range want.Groups {
						sum += g.Count
					}
					if len(q.gb) > 0 && sum < want.Count {
						r.Count("queries_with_rows_lacking_a_groupby_column", 1)
					}
					if len(q.gb) >= 4 && len(want.Groups) > 1 {
						r.Count("queries_4plus_columns_multiple_groups", 1)
					}
				}
			} else if q.e.Op == '^' && q.e.Kids[0].Op == '=' {
				r.Count("not_over_leaf_queries", 1)
			}
			for _, cfg := range matrix {
				r.Eval(1)
				r.Cover("matrix_cells", cfg.name)
				res, err := ix.Exec(cfg.idx, q.e, q.gb)
				var diff string
				if groupMode {
					diff = oracle.CompareResult(res, err, want, q.gb)
				} else {
					w := want
					w.Groups = nil
					diff = oracle.CompareResult(res, err, w, nil)
				}
				if diff != "" {
					r.Violation(qid, "answer", map[string]any{
						"config": cfg.name, "difference": diff, "expr": q.e.String(), "group_by": fmt.Sprintf("%q", q.gb),
						"rows": len(ds.Rows), "specs": specStrings(ds), "first_rows": witnessRows(ds, 40),
					})
					break
				}
			}
			if d := time.Since(tq); d > 2*time.Second && os.Getenv("VERIF_DEBUG") != "" {
				fmt.Fprintf(os.Stderr, "slow query %s: total %.1fs oracle %.1fs rows=%d gb=%q groups=%d nodes=%d specs=%v\n", qid, d.Seconds(), tOracle.Seconds(), len(ds.Rows), q.gb, len(want.Groups), q.e.Nodes(), specStrings(ds))
			}
			if q.e.HasOperator() || len(q.gb) > 0 {
				r.Distinct(fmt.Sprintf("%s|%s|%d|%d", id, q.e.Shape(), len(q.gb), q.e.Nodes()))
			}
			if q.id == "q1" && len(ds.Rows) >= 100 {
				r.Sample("query", map[string]any{"dataset": id, "rows": len(ds.Rows), "specs": specStrings(ds), "expr": q.e.String(), "group_by": fmt.Sprintf("%q", q.gb), "expected_count": want.Count, "expected_groups": len(want.Groups), "expected_error": want.Err})
			}
		}
		// every value of every column once, as a leaf and under NOT (counts from one pass over the rows): a defect tied
		// to particular values or row ids shows on exactly those
		if sid := id + "/leaf-sweep"; id == "rare-values" && !groupMode && r.Want(sid) {
			leafSweep(r, sid, ds, matrix)
		}
		// one query OBJECT reused for many values (a caller looping over the values of a column): every execution must
		// answer the expression as it is at that moment
		if rid := id + "/reused-object"; r.Want(rid) && len(ds.ColNames()) > 0 {
			reusedObjectLoop(r, rid, r.RNG(rid), ds, matrix, groupMode)
		}
		// (round 8) what GetSchema hands out belongs to the caller: every value list of every configuration's schema is
		// reversed and overwritten in place, then grouped queries are asked again
		if sid := id + "/schema-scrambled-by-caller"; r.Want(sid) && groupMode && len(qs) > 0 {
			for _, cfg := range matrix {
				sc := cfg.idx.GetSchema()
				if sc == nil {
					continue
				}
				for ci := range sc.Columns {
					vs := sc.Columns[ci].Values
					for i, j := 0, len(vs)-1; i < j; i, j = i+1, j-1 {
						vs[i], vs[j] = vs[j], vs[i]
					}
					for i := range vs {
						if i%2 == 0 {
							vs[i].Value = "overwritten by the caller"
						}
					}
					sc.Columns[ci].Name = "renamed by the caller"
				}
			}
			// and what GetSchema hands out NEXT is the schema of the data, not what the caller made of an earlier copy
			for _, cfg := range matrix {
				r.Eval(1)
				if d := oracle.CompareSchema(cfg.idx.GetSchema(), ds.Rows); d != "" {
					r.Violation(sid, "schema", map[string]any{"config": cfg.name, "difference": head(d, 600),
						"note": "GetSchema after the caller had reversed and overwritten the copy an earlier GetSchema call gave it"})
					break
				}
			}
			n := 0
			for _, q := range qs {
				if len(q.gb) == 0 {
					continue
				}
				if n++; n > 12 {
					break
				}
				want := oracle.Eval(ds.Rows, ds.Cols, q.e, q.gb)
				bad := false
				for _, cfg := range matrix {
					r.Eval(1)
					res, err := ix.Exec(cfg.idx, q.e, q.gb)
					if diff := oracle.CompareResult(res, err, want, q.gb); diff != "" {
						r.Violation(sid, "answer", map[string]any{"config": cfg.name, "difference": diff, "expr": q.e.String(), "group_by": fmt.Sprintf("%q", q.gb),
							"note": "the caller had reversed and overwritten the value lists of the schema it got from GetSchema"})
						bad = true
						break
					}
				}
				if bad {
					break
				}
			}
			r.Count("datasets_queried_after_the_caller_scrambled_its_schema_copy", 1)
		}
		// (round 7) the NAME of every index file comes to denote another, much smaller index (renamed over it, as a
		// nightly rebuild does) while the indexes opened from it stay open: they keep answering for the file they hold
		if pid := id + "/name-reused-while-open"; r.Want(pid) && len(ds.Rows) >= 20 && len(qs) > 0 {
			small := []oracle.Row{{"zz_other": "1"}, {"zz_other": "2"}}
			swapped := true
			for w, p := range paths {
				side := p + ".next"
				if err := ix.Build(w, side, small); err != nil || os.Rename(side, p) != nil {
					swapped = false
				}
			}
			if swapped {
				n := 0
				for _, q := range qs {
					if n >= 25 {
						break
					}
					n++
					want := oracle.Eval(ds.Rows, ds.Cols, q.e, q.gb)
					if !groupMode {
						want.Groups = nil
					}
					bad := false
					for _, cfg := range matrix {
						r.Eval(1)
						gb := q.gb
						if !groupMode {
							gb = nil
						}
						res, err := ix.Exec(cfg.idx, q.e, gb)
						if diff := oracle.CompareResult(res, err, want, gb); diff != "" {
							r.Violation(pid, "answer", map[string]any{"config": cfg.name, "difference": diff, "expr": q.e.String(), "group_by": fmt.Sprintf("%q", gb), "rows": len(ds.Rows),
								"note": "the index was opened before its file name was given to another, smaller index by rename; the open index must keep answering for the file it holds"})
							bad = true
							break
						}
					}
					if bad {
						break
					}
				}
				r.Count("datasets_queried_after_their_file_name_was_reused", 1)
			}
		}
	})
}

func hasRepeat(l []string) bool {
	m := map[string]bool{}
	for _, s := range l {
		if m[s] {
			return true
		}
		m[s] = true
	}
	return false
}

func boundaryOf(n int) int {
	for _, b := range boundarySizes {
		if n == b {
			return b
		}
	}
	return -1
}

// reusedObjectLoop executes ONE *updog.Query whose leaf is edited in place between executions.
func reusedObjectLoop(r *vf.Run, rid string, rng *rand.Rand, ds *gen.Dataset, matrix []cfgIndex, groupMode bool) {
	cols := ds.ColNames()
	for _, cfg := range matrix {
		leaf := &updog.ExprEqual{}
		other := gen.Leaf(rng, ds, cols)
		q := &updog.Query{Expr: &updog.ExprOr{Exprs: []updog.Expression{&updog.ExprNot{Expr: leaf}, &updog.ExprAnd{Exprs: []updog.Expression{leaf, other.ToUpdog()}}}}}
		var gb []string
		if groupMode {
			gb = gen.GroupBy(rng, ds, 1, 2000)
			q.GroupBy = append([]string{}, gb...)
		}
		for k := 0; k < 12; k++ {
			l := gen.Leaf(rng, ds, cols)
			leaf.Column, leaf.Value = l.Col, l.Val
			if groupMode && len(q.GroupBy) == 1 && k%2 == 1 {
				// the caller loops over the columns with ONE group-by slice: the element is overwritten in place
				if ngb := gen.GroupBy(rng, ds, 1, 2000); len(ngb) == 1 {
					q.GroupBy[0] = ngb[0]
					gb = []string{ngb[0]}
				}
			}
			want := oracle.Eval(ds.Rows, ds.Cols, oracle.Or(oracle.Not(l), oracle.And(l, other)), gb)
			res, err := cfg.idx.Execute(q)
			r.Eval(1)
			r.Count("executions_of_a_reused_query_object", 1)
			var diff string
			if groupMode {
				diff = oracle.CompareResult(res, err, want, gb)
			} else {
				want.Groups = nil
				diff = oracle.CompareResult(res, err, want, nil)
			}
			if diff != "" {
				r.Violation(rid, "answer", map[string]any{"config": cfg.name, "difference": diff, "execution": k + 1, "leaf_now": l.String(), "other_operand": other.String(),
					"group_by_now": fmt.Sprintf("%q", gb),
					"explanation":  "one query object; its leaf's Column/Value fields (and, in every other execution, the element of its group-by slice) are set anew before every execution", "specs": specStrings(ds)})
				return
			}
		}
	}
}

// leafSweep asks every (column, value) pair of the dataset on every configuration.
func leafSweep(r *vf.Run, sid string, ds *gen.Dataset, matrix []cfgIndex) {
	counts := map[string]map[string]uint64{}
	for _, row := range ds.Rows {
		for c, v := range row {
			if counts[c] == nil {
				counts[c] = map[string]uint64{}
			}
			counts[c][v]++
		}
	}
	total := uint64(len(ds.Rows))
	for _, cfg := range matrix {
		bad := 0
		for c, vs := range counts {
			i := 0
			for v, n := range vs {
				i++
				leaf := &updog.Query{Expr: &updog.ExprEqual{Column: c, Value: v}}
				res, err := cfg.idx.Execute(leaf)
				r.Eval(1)
				if err != nil || res.Count != n {
					bad++
					if bad <= 3 {
						r.Violation(sid, "answer", map[string]any{"config": cfg.name, "expr": fmt.Sprintf("(%s = %q)", c, v), "want": n, "got": fmt.Sprint(res, err), "rows": len(ds.Rows),
							"dataset": "every row id is the first row of a value that occurs on 1, 2 or 7 rows"})
					}
					continue
				}
				if i%4 == 0 {
					neg := &updog.Query{Expr: &updog.ExprNot{Expr: &updog.ExprEqual{Column: c, Value: v}}}
					res, err := cfg.idx.Execute(neg)
					r.Eval(1)
					if err != nil || res.Count != total-n {
						bad++
						if bad <= 3 {
							r.Violation(sid, "answer", map[string]any{"config": cfg.name, "expr": fmt.Sprintf("(NOT (%s = %q))", c, v), "want": total - n, "got": fmt.Sprint(res, err), "rows": len(ds.Rows)})
						}
					}
				}
			}
		}
		r.Count("leaf_sweep_values", int64(len(counts["id"])+len(counts["pair"])+len(counts["seven"])))
	}
	r.Distinct(sid)
}
