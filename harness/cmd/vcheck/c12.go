package main

import (
	"context"
	"database/sql"
	"fmt"
	"os"
	"path/filepath"
	"reflect"
	"strings"

	"github.com/akrennmair/updog/verifharness/gen"
	"github.com/akrennmair/updog/verifharness/ix"
	"github.com/akrennmair/updog/verifharness/oracle"
	"github.com/akrennmair/updog/verifharness/vf"
)

func init() { register("C12", "exploration", runC12) }

var dsnOptionSets = []struct{ name, opts string }{
	{"none", ""},
	{"preload", "?preload=true"},
	{"lrucache-0", "?lrucache=true&lrucachesize=0"},
	{"lrucache-small", "?lrucache=true&lrucachesize=500"},
	{"lrucache-large", "?lrucache=true&lrucachesize=100000000"},
	{"preload+lrucache", "?preload=true&lrucache=true&lrucachesize=20000"},
}

func runC12(r *vf.Run) {
	r.Rule("one evaluation = one query text run through database/sql on a file DSN with one option combination; Columns, ColumnTypes, row count, row order, values (scanned into `any`, so NULLs and mistyped cells are visible) and Err() are compared with the table derived from the row oracle; " +
		"queries the library rejects (unknown column, syntax error) must fail; distinct_nontrivial = distinct (dataset, query text, arguments) triples")
	r.Assume("column names are identifiers of the query language (others cannot be named in the text language)")
	n := r.Pick(50, 1500)
	var ids []string
	for i := 0; i < n; i++ {
		ids = append(ids, fmt.Sprintf("ds%03d", i))
	}
	ids = append(ids, "regress-nogroup")
	r.ForEach(ids, 12, func(id string) {
		rng := r.RNG(id)
		var ds *gen.Dataset
		if id == "regress-nogroup" {
			ds = &gen.Dataset{ID: id, Rows: []oracle.Row{{"x": "a", "y": "1"}, {"x": "b", "y": "2"}, {"x": "a"}}}
			ds.Index()
		} else {
			ds = identDataset(rng, id, rng.Intn(r.Pick(3000, 30000)), rng.Intn(2) == 0)
		}
		cols := ds.ColNames()
		if len(cols) == 0 {
			return
		}
		// (round 8) directory and file names with characters that mean something in a URL but not in a path ('+', ',',
		// '=', '@', '~', ';' -- no '%', '?' or '#', which the DSN syntax itself claims)
		dir := filepath.Join(r.Scratch, id+"+d,1=@~")
		mustMkdir(dir)
		path := filepath.Join(dir, "ds+v1,x=y;z.updog")
		if err := ix.Build(ix.Writers[rng.Intn(3)], path, ds.Rows); err != nil {
			r.Violation(id, "build", err.Error())
			return
		}
		dbs := map[string]*sql.DB{}
		for oi, o := range dsnOptionSets {
			// the same file under its three DSN spellings: file:/abs, file:///abs and file:relative
			dsnPath := "file:" + path
			switch oi % 3 {
			case 1:
				dsnPath = "file://" + path
			case 2:
				if wd, err := os.Getwd(); err == nil {
					if rel, err := filepath.Rel(wd, path); err == nil && !strings.HasPrefix(rel, "/") {
						dsnPath = "file:" + rel
					}
				}
			}
			r.Cover("dsn_spellings", []string{"file:/abs", "file:///abs", "file:relative"}[oi%3])
			db, err := sql.Open("updog", dsnPath+o.opts)
			if err != nil {
				r.Violation(id, "sql.Open", err.Error())
				return
			}
			dbs[o.name] = db
		}
		// a panic that crossed database/sql leaves its internal locks held: the handles must not be used or closed afterwards
		poisoned := false
		defer func() {
			if !poisoned {
				for _, db := range dbs {
					db.Close()
				}
			}
		}()
		nq := r.Pick(30, 70)
		closedEarly := map[string]bool{}
		for qi := 0; qi < nq; qi++ {
			if qi == nq/2 && !poisoned {
				// half of the handles are closed while the others stay in use on the same file
				for oi, o := range dsnOptionSets {
					if oi%2 == 1 {
						dbs[o.name].Close()
						closedEarly[o.name] = true
					}
				}
				r.Count("handles_closed_while_others_stay_in_use", int64(len(closedEarly)))
			}
			qid := fmt.Sprintf("%s/q%d", id, qi)
			if !r.Want(qid) {
				continue
			}
			rng := r.RNG(qid) // per-case stream: a replay of this case alone draws the same choices
			e := gen.Expr(rng, ds, cols, rng.Intn(5), 3)
			gb := gen.GroupBy(rng, ds, rng.Intn(5), 4000)
			switch {
			case id == "regress-nogroup" && qi == 0:
				e, gb = oracle.Eq("x", "zzz"), []string{"y"}
			case qi%9 == 1:
				e = oracle.Eq(cols[0], "value-that-matches-nothing") // grouped query without groups
				if len(gb) == 0 {
					gb = []string{cols[rng.Intn(len(cols))]}
				}
			case qi%9 == 2:
				l := gen.Leaf(rng, ds, cols)
				e = oracle.Or(l, oracle.Not(l)) // matches everything
			case qi%9 == 3:
				e = gen.WithUnknown(rng, e, ds)
				for !oracle.IsIdent(firstUnknown(e, ds)) {
					e = gen.WithUnknown(rng, gen.Expr(rng, ds, cols, 2, 2), ds)
				}
			case qi%9 == 4 && len(gb) > 0:
				gb[rng.Intn(len(gb))] = "nosuchcol"
			}
			tmpl, args, strArgs := withPlaceholders(rng, e)
			text := gen.FormatQuery(tmpl, gb)
			if qi%17 == 5 {
				text += " )" // syntax error: must be rejected
			}
			want := oracle.Eval(ds.Rows, ds.Cols, e, gb)
			_, _, syntaxOK := oracle.RefParse(text)
			r.Distinct(id + "|" + text + "|" + fmt.Sprintf("%q", strArgs))
			if len(gb) > 0 && !want.Err && len(want.Groups) == 0 && syntaxOK {
				r.Count("grouped_queries_without_groups", 1)
			}
			if want.Err || !syntaxOK {
				r.Count("queries_expected_to_be_rejected", 1)
			}
			r.Cover("groupby_lengths", fmt.Sprint(len(gb)))
			var first *sqlTable
			for _, o := range dsnOptionSets {
				if closedEarly[o.name] {
					continue
				}
				r.Eval(1)
				r.Cover("dsn_option_sets", o.name)
				var rows *sql.Rows
				var qerr error
				w := map[string]any{"text": fmt.Sprintf("%q", text), "args": fmt.Sprintf("%q", strArgs), "dsn_options": o.opts, "first_rows": witnessRows(ds, 15)}
				if p, msg, stack := vf.Try(func() { rows, qerr = dbs[o.name].Query(text, args...) }); p {
					w["panic"], w["stack"] = msg, head(stack, 3000)
					r.Violation(qid, "panic", w)
					poisoned = true
					return
				}
				if want.Err || !syntaxOK {
					if qerr == nil {
						t, rerr := readRows(rows)
						if rerr == nil {
							w["rows"] = fmtRows(t.Rows, 5)
							w["problem"] = "a query the library rejects returned rows without error"
							r.Violation(qid, "not-rejected", w)
						}
					}
					continue
				}
				if qerr != nil {
					w["error"] = qerr.Error()
					r.Violation(qid, "unexpected-error", w)
					break
				}
				got, rerr := readRows(rows)
				if rerr != nil {
					w["error"] = rerr.Error()
					r.Violation(qid, "rows", w)
					break
				}
				if d := compareTables(got, expectedTable(want, gb)); d != "" {
					w["difference"] = d
					r.Violation(qid, "rows", w)
					break
				}
				if first == nil {
					first = &got
				} else if !reflect.DeepEqual(first.Rows, got.Rows) {
					w["problem"] = "rows differ between DSN option sets"
					r.Violation(qid, "rows", w)
					break
				}
				r.Max("rows_in_one_result", int64(len(got.Rows)))
			}
			// the same text as a prepared statement executed twice, the first time read only partially: what a statement
			// or a connection remembers from one execution must not leak into the next
			if !want.Err && syntaxOK && qi%3 == 0 {
				if d := preparedTwice(dbs[openName(closedEarly, qi)], text, args, want, gb); d != "" {
					r.Violation(qid, "prepared-twice", map[string]any{"text": fmt.Sprintf("%q", text), "args": fmt.Sprintf("%q", strArgs), "problem": d})
				}
				r.Count("prepared_statements_executed_twice", 1)
			}
			// two results open at the same time on one connection, read row by row in turns; and the same inside a
			// transaction followed by a query after Commit
			if !want.Err && syntaxOK && qi%5 == 1 {
				if d := interleavedAndTx(dbs[openName(closedEarly, qi/5)], text, args, want, gb); d != "" {
					r.Violation(qid, "interleaved-or-transaction", map[string]any{"text": fmt.Sprintf("%q", text), "args": fmt.Sprintf("%q", strArgs), "problem": d})
				}
				r.Count("interleaved_and_transaction_histories", 1)
			}
			// typed scan of the same result: string..., int64
			if !want.Err && syntaxOK && qi%4 == 0 {
				if d := typedScan(dbs["none"], text, args, want, gb); d != "" {
					r.Violation(qid, "typed-scan", map[string]any{"text": fmt.Sprintf("%q", text), "args": fmt.Sprintf("%q", strArgs), "problem": d})
				}
			}
			if qi == 2 && id == "ds000" {
				r.Sample("query", map[string]any{"text": text, "args": fmt.Sprintf("%q", strArgs), "expected_rows": len(expectedTable(want, gb).Rows), "expected_error": want.Err || !syntaxOK})
			}
		}
	})
	c12GroupCounts(r)
	c12Whitespace(r)
	c12LargeTexts(r)
	c12SameTextConcurrently(r)
	racePass(r)
	r.Floor("every DSN option set used", r.Covered("dsn_option_sets") == len(dsnOptionSets))
	r.Floor("grouped query without matching group", r.GetCount("grouped_queries_without_groups") > 0)
	r.Floor("rejected queries", r.GetCount("queries_expected_to_be_rejected") > 0)
}

func firstUnknown(e *oracle.Expr, ds *gen.Dataset) string {
	m := map[string]bool{}
	e.Columns(m)
	for c := range m {
		if !ds.Cols[c] {
			return c
		}
	}
	return "x"
}

func typedScan(db *sql.DB, text string, args []any, want oracle.Answer, gb []string) string {
	rows, err := db.Query(text, args...)
	if err != nil {
		return "query failed: " + err.Error()
	}
	defer rows.Close()
	exp := expectedTable(want, gb)
	i := 0
	for rows.Next() {
		strs := make([]string, len(gb))
		var cnt int64
		ptrs := make([]any, 0, len(gb)+1)
		for k := range strs {
			ptrs = append(ptrs, &strs[k])
		}
		ptrs = append(ptrs, &cnt)
		if err := rows.Scan(ptrs...); err != nil {
			return fmt.Sprintf("row %d: Scan into (string..., int64) failed: %v", i, err)
		}
		if i >= len(exp.Rows) {
			return "more rows than expected"
		}
		for k := range strs {
			if strs[k] != exp.Rows[i][k].(string) {
				return fmt.Sprintf("row %d column %d: %q want %q", i, k, strs[k], exp.Rows[i][k])
			}
		}
		if cnt != exp.Rows[i][len(gb)].(int64) {
			return fmt.Sprintf("row %d count %d want %d", i, cnt, exp.Rows[i][len(gb)])
		}
		i++
	}
	if err := rows.Err(); err != nil {
		return "rows.Err: " + err.Error()
	}
	if i != len(exp.Rows) {
		return fmt.Sprintf("%d rows, want %d", i, len(exp.Rows))
	}
	return ""
}

func preparedTwice(db *sql.DB, text string, args []any, want oracle.Answer, gb []string) (problem string) {
	if p, msg, _ := vf.Try(func() {
		st, err := db.Prepare(text)
		if err != nil {
			problem = "Prepare failed: " + err.Error()
			return
		}
		defer st.Close()
		exp := expectedTable(want, gb)
		for round := 1; round <= 3; round++ {
			rows, err := st.Query(args...)
			if err != nil {
				problem = fmt.Sprintf("execution %d failed: %v", round, err)
				return
			}
			if round == 1 && len(exp.Rows) > 1 {
				// read one row only, then give the rows back early
				if rows.Next() {
					cols, _ := rows.Columns()
					if len(cols) != len(exp.Cols) {
						problem = fmt.Sprintf("execution 1: %d columns, want %d", len(cols), len(exp.Cols))
					}
				}
				rows.Close()
				if problem != "" {
					return
				}
				continue
			}
			got, rerr := readRows(rows)
			if rerr != nil {
				problem = fmt.Sprintf("execution %d: %v", round, rerr)
				return
			}
			if d := compareTables(got, exp); d != "" {
				problem = fmt.Sprintf("execution %d of the prepared statement: %s", round, d)
				return
			}
		}
	}); p {
		return "panic: " + msg
	}
	return problem
}

// interleavedAndTx: on ONE connection two result sets of the same query are read in turns; then the query runs
// inside a transaction, and again after Commit and after a Rollback.
func interleavedAndTx(db *sql.DB, text string, args []any, want oracle.Answer, gb []string) (problem string) {
	exp := expectedTable(want, gb)
	if p, msg, _ := vf.Try(func() {
		ctx := context.Background()
		conn, err := db.Conn(ctx)
		if err != nil {
			problem = "Conn: " + err.Error()
			return
		}
		defer conn.Close()
		// alternately: two one-shot queries, or ONE statement prepared on the connection and executed twice
		q1 := func() (*sql.Rows, error) { return conn.QueryContext(ctx, text, args...) }
		q2 := q1
		if len(text)%2 == 0 {
			st, err := conn.PrepareContext(ctx, text)
			if err != nil {
				problem = "PrepareContext: " + err.Error()
				return
			}
			defer st.Close()
			q1 = func() (*sql.Rows, error) { return st.QueryContext(ctx, args...) }
			q2 = q1
		}
		r1, err := q1()
		if err != nil {
			problem = "first query: " + err.Error()
			return
		}
		r2, err := q2()
		if err != nil {
			r1.Close()
			problem = "second query while the first result is open: " + err.Error()
			return
		}
		var t1, t2 sqlTable
		t1.Cols, _ = r1.Columns()
		t2.Cols, _ = r2.Columns()
		scan := func(rows *sql.Rows, t *sqlTable) bool {
			if !rows.Next() {
				return false
			}
			vals := make([]any, len(t.Cols))
			ptrs := make([]any, len(t.Cols))
			for i := range vals {
				ptrs[i] = &vals[i]
			}
			if err := rows.Scan(ptrs...); err != nil {
				problem = "Scan: " + err.Error()
				return false
			}
			t.Rows = append(t.Rows, vals)
			return true
		}
		for a, b := true, true; (a || b) && problem == ""; {
			if a {
				a = scan(r1, &t1)
			}
			if b {
				b = scan(r2, &t2)
			}
		}
		r1.Close()
		r2.Close()
		if problem != "" {
			return
		}
		t1.Types, t2.Types = exp.Types, exp.Types
		for i, t := range []sqlTable{t1, t2} {
			if d := compareTables(t, exp); d != "" {
				problem = fmt.Sprintf("result %d of two results read in turns on one connection: %s", i+1, d)
				return
			}
		}
		for _, end := range []string{"commit", "rollback"} {
			tx, err := db.BeginTx(ctx, nil)
			if err != nil {
				problem = "BeginTx: " + err.Error()
				return
			}
			rows, err := tx.QueryContext(ctx, text, args...)
			if err != nil {
				tx.Rollback()
				problem = "query inside a transaction: " + err.Error()
				return
			}
			got, rerr := readRows(rows)
			if end == "commit" {
				err = tx.Commit()
			} else {
				err = tx.Rollback()
			}
			if rerr != nil || err != nil {
				problem = fmt.Sprintf("transaction (%s): %v / %v", end, rerr, err)
				return
			}
			if d := compareTables(got, exp); d != "" {
				problem = "inside a transaction: " + d
				return
			}
			rows, err = db.QueryContext(ctx, text, args...)
			if err != nil {
				problem = "query after " + end + ": " + err.Error()
				return
			}
			got, rerr = readRows(rows)
			if rerr != nil {
				problem = "query after " + end + ": " + rerr.Error()
				return
			}
			if d := compareTables(got, exp); d != "" {
				problem = "after " + end + ": " + d
				return
			}
		}
	}); p {
		return "panic: " + msg
	}
	return problem
}

// openName picks a DSN option set whose handle is still open.
func openName(closed map[string]bool, k int) string {
	for i := 0; i < len(dsnOptionSets); i++ {
		if n := dsnOptionSets[(k+i)%len(dsnOptionSets)].name; !closed[n] {
			return n
		}
	}
	return dsnOptionSets[0].name
}
