package main

import (
	"context"
	"database/sql"
	"fmt"
	"math"
	"path/filepath"
	"reflect"
	"sort"
	"time"

	"github.com/akrennmair/updog/verifharness/gen"
	"github.com/akrennmair/updog/verifharness/ix"
	"github.com/akrennmair/updog/verifharness/oracle"
	"github.com/akrennmair/updog/verifharness/vf"
)

// c11Check reads the rows of one execution and compares them with the row oracle's table for the literal query.
func c11Check(ds *gen.Dataset, tmpl *oracle.Expr, gb []string, strArgs []string, rows *sql.Rows, qerr error) string {
	sub, enough := oracle.Substitute(tmpl, strArgs)
	if !enough {
		if qerr == nil {
			rows.Close()
			return "too few arguments were accepted"
		}
		return ""
	}
	want := oracle.Eval(ds.Rows, ds.Cols, sub, gb)
	if want.Err {
		if qerr == nil {
			rows.Close()
			return "a query on an unknown column returned rows"
		}
		return ""
	}
	if qerr != nil {
		return "unexpected error: " + qerr.Error()
	}
	got, rerr := readRows(rows)
	if rerr != nil {
		return "reading rows: " + rerr.Error()
	}
	if d := compareTables(got, expectedTable(want, gb)); d != "" {
		return d + " (literal query " + head(sub.String(), 300) + ")"
	}
	return ""
}

// c11Lifetimes: several statement handles for ONE query text alive at a time (prepared twice, prepared inside a
// transaction, re-prepared after Close) and one statement with several result sets open at once. Each handle must
// stay executable, with its own arguments, whatever happens to the others.
func c11Lifetimes(r *vf.Run) {
	n := r.Pick(40, 400)
	var ids []string
	for i := 0; i < n; i++ {
		ids = append(ids, fmt.Sprintf("life%03d", i))
	}
	r.ForEach(ids, 12, func(id string) {
		rng := r.RNG(id)
		ds := identDataset(rng, id, 1+rng.Intn(800), rng.Intn(2) == 0)
		cols := ds.ColNames()
		if len(cols) == 0 {
			return
		}
		dir := filepath.Join(r.Scratch, id)
		mustMkdir(dir)
		path := filepath.Join(dir, "ds.updog")
		if err := ix.Build(ix.Writers[rng.Intn(3)], path, ds.Rows); err != nil {
			r.Violation(id, "build", err.Error())
			return
		}
		db, err := sql.Open("updog", "file:"+path)
		if err != nil {
			r.Violation(id, "sql.Open", err.Error())
			return
		}
		poisoned := false
		defer func() {
			if !poisoned {
				db.Close()
			}
		}()
		// no limit on open connections: several result sets of one statement are open at once below
		db.SetMaxIdleConns([]int{0, 1, 2, 2, 5}[rng.Intn(5)])
		for qi := 0; qi < 6 && !poisoned; qi++ {
			qid := fmt.Sprintf("%s/q%d", id, qi)
			if !r.Want(qid) {
				continue
			}
			rng := r.RNG(qid)
			var tmpl *oracle.Expr
			var strArgs []string
			var gb []string
			for try := 0; try < 20; try++ {
				e := gen.Expr(rng, ds, cols, rng.Intn(3), 3)
				gb = gen.GroupBy(rng, ds, rng.Intn(3), 2000)
				tmpl, _, strArgs = withPlaceholders(rng, e)
				if len(strArgs) > 0 {
					break
				}
			}
			text := gen.FormatQuery(tmpl, gb)
			need := int(oracle.MaxPlaceholder(tmpl))
			strArgs = strArgs[:min(len(strArgs), need)]
			// other argument lists: values of the columns the placeholders compare with
			argsN := func() ([]any, []string) {
				a := make([]any, len(strArgs))
				s := make([]string, len(strArgs))
				for i := range strArgs {
					s[i] = strArgs[i]
					if col := columnOfPlaceholder(tmpl, int32(i+1)); col != "" && len(ds.Vals[col]) > 0 && rng.Intn(3) != 0 {
						s[i] = ds.Vals[col][rng.Intn(len(ds.Vals[col]))]
					}
					a[i] = s[i]
				}
				return a, s
			}
			scenario := []string{"prepared-twice-one-closed", "prepared-in-transaction", "several-open-result-sets", "closed-and-prepared-again", "tx-stmt-of-db-stmt"}[(qi+int(r.Seed))%5]
			r.Cover("lifetime_scenarios", scenario)
			r.Distinct(qid + "|" + scenario + "|" + text)
			fail := func(step, problem string) {
				r.Violation(qid, "statement-lifetime", map[string]any{"scenario": scenario, "step": step, "text": fmt.Sprintf("%q", text), "problem": problem})
			}
			exec := func(step string, q func(args ...any) (*sql.Rows, error)) bool {
				a, s := argsN()
				rows, qerr := q(a...)
				r.Eval(1)
				if p := c11Check(ds, tmpl, gb, s, rows, qerr); p != "" {
					fail(step, fmt.Sprintf("args %q: %s", s, p))
					return false
				}
				return true
			}
			panicked, msg, stack := vf.Try(func() {
				switch scenario {
				case "prepared-twice-one-closed":
					s1, err1 := db.Prepare(text)
					s2, err2 := db.Prepare(text)
					if err1 != nil || err2 != nil {
						fail("prepare", fmt.Sprint(err1, err2))
						return
					}
					defer s2.Close()
					if !exec("first handle", s1.Query) || !exec("second handle", s2.Query) {
						s1.Close()
						return
					}
					s1.Close()
					for k := 0; k < 3; k++ {
						if !exec("second handle after the first was closed", s2.Query) {
							return
						}
					}
				case "prepared-in-transaction", "tx-stmt-of-db-stmt":
					s, err := db.Prepare(text)
					if err != nil {
						fail("prepare", err.Error())
						return
					}
					defer s.Close()
					for _, end := range []string{"commit", "rollback"} {
						tx, err := db.Begin()
						if err != nil {
							fail("begin", err.Error())
							return
						}
						var ts *sql.Stmt
						if scenario == "tx-stmt-of-db-stmt" {
							ts = tx.Stmt(s)
						} else if ts, err = tx.Prepare(text); err != nil {
							tx.Rollback()
							fail("tx.Prepare", err.Error())
							return
						}
						ok := exec("statement of the transaction", ts.Query) && exec("handle-level statement during the transaction", s.Query)
						if end == "commit" {
							err = tx.Commit()
						} else {
							err = tx.Rollback()
						}
						if !ok {
							return
						}
						if err != nil {
							fail(end, err.Error())
							return
						}
						if !exec("handle-level statement after "+end, s.Query) || !exec("one-shot query after "+end, func(a ...any) (*sql.Rows, error) { return db.Query(text, a...) }) {
							return
						}
					}
				case "several-open-result-sets":
					s, err := db.Prepare(text)
					if err != nil {
						fail("prepare", err.Error())
						return
					}
					defer s.Close()
					k := 2 + rng.Intn(4)
					r.Max("result_sets_open_at_once", int64(k))
					type open struct {
						rows *sql.Rows
						err  error
						s    []string
					}
					var os []open
					for j := 0; j < k; j++ {
						a, ss := argsN()
						rows, qerr := s.Query(a...)
						os = append(os, open{rows, qerr, ss})
					}
					if rng.Intn(2) == 0 {
						for i, j := 0, len(os)-1; i < j; i, j = i+1, j-1 {
							os[i], os[j] = os[j], os[i]
						}
					}
					bad := false
					for j, o := range os {
						r.Eval(1)
						if bad {
							if o.err == nil {
								o.rows.Close()
							}
							continue
						}
						if p := c11Check(ds, tmpl, gb, o.s, o.rows, o.err); p != "" {
							fail(fmt.Sprintf("result set %d of %d open at once", j+1, k), fmt.Sprintf("args %q: %s", o.s, p))
							bad = true
						}
					}
					if bad {
						return
					}
					for j := 0; j < 2; j++ {
						if !exec("same statement after all result sets were closed", s.Query) {
							return
						}
					}
				case "closed-and-prepared-again":
					for k := 0; k < 3; k++ {
						s, err := db.Prepare(text)
						if err != nil {
							fail(fmt.Sprintf("prepare #%d", k+1), err.Error())
							return
						}
						ok := exec(fmt.Sprintf("statement #%d for the same text", k+1), s.Query)
						s.Close()
						if !ok {
							return
						}
					}
				}
			})
			if panicked {
				r.Violation(qid, "panic", map[string]any{"scenario": scenario, "text": fmt.Sprintf("%q", text), "panic": msg, "stack": head(stack, 3000)})
				poisoned = true
			}
		}
	})
	r.Floor("all statement-lifetime scenarios exercised", r.Covered("lifetime_scenarios") == 5 || r.Replay())
}

type c11MyUint uint64
type c11MyInt int16

// c11TypedIntegers: integer arguments of every Go integer type bind as their decimal text. The dataset holds the true
// text of each boundary value and the texts a wrap-around to int64 would give, each on a different number of rows.
func c11TypedIntegers(r *vf.Run) {
	if !r.Want("typed-integers") {
		return
	}
	type targ struct {
		v    any
		text string
	}
	targs := []targ{
		{int(-7), "-7"}, {int(math.MaxInt64), "9223372036854775807"}, {int8(-128), "-128"}, {int8(127), "127"}, {int16(-32768), "-32768"}, {int16(32767), "32767"},
		{int32(math.MinInt32), "-2147483648"}, {int32(math.MaxInt32), "2147483647"}, {int64(math.MinInt64), "-9223372036854775808"}, {int64(math.MaxInt64), "9223372036854775807"},
		{int64(-1), "-1"}, {int64(0), "0"}, {uint8(255), "255"}, {uint8(128), "128"}, {uint16(65535), "65535"}, {uint16(32768), "32768"}, {uint32(math.MaxUint32), "4294967295"},
		{uint32(1 << 31), "2147483648"}, {uint64(math.MaxInt64), "9223372036854775807"}, {uint64(1 << 63), "9223372036854775808"}, {uint64(math.MaxUint64), "18446744073709551615"},
		{uint64(1<<63 + 5), "9223372036854775813"}, {c11MyUint(math.MaxUint64 - 1), "18446744073709551614"}, {c11MyUint(12), "12"}, {c11MyInt(-3), "-3"}, {uint64(0), "0"}, {uint(77), "77"},
	}
	texts := map[string]bool{}
	for _, t := range targs {
		texts[t.text] = true
		rv := reflect.ValueOf(t.v)
		if rv.CanUint() {
			u := rv.Uint()
			texts[fmt.Sprint(int64(u))] = true // what a conversion to int64 would bind
			texts[fmt.Sprint(int32(u))] = true
			texts[fmt.Sprint(int8(u))] = true
		} else {
			texts[fmt.Sprint(uint64(rv.Int()))] = true
			texts[fmt.Sprint(uint32(rv.Int()))] = true
		}
	}
	var all []string
	for t := range texts {
		all = append(all, t)
	}
	sort.Strings(all)
	ds := &gen.Dataset{ID: "typed-integers"}
	for i, t := range all {
		for k := 0; k <= i; k++ {
			ds.Rows = append(ds.Rows, oracle.Row{"n": t, "m": fmt.Sprint(k % 3)})
		}
	}
	ds.Index()
	dir := filepath.Join(r.Scratch, "typed-integers")
	mustMkdir(dir)
	path := filepath.Join(dir, "ds.updog")
	if err := ix.Build(ix.Writers[int(r.Seed)%3], path, ds.Rows); err != nil {
		r.Violation("typed-integers", "build", err.Error())
		return
	}
	db, err := sql.Open("updog", "file:"+path)
	if err != nil {
		r.Violation("typed-integers", "sql.Open", err.Error())
		return
	}
	poisoned := false
	defer func() {
		if !poisoned {
			db.Close()
		}
	}()
	type shape struct {
		tmpl *oracle.Expr
		gb   []string
		pos  int // 0-based position of the integer among the arguments
		n    int
	}
	shapes := []shape{
		{oracle.PhEq("n", 1), nil, 0, 1},
		{oracle.And(oracle.PhEq("m", 1), oracle.PhEq("n", 2)), []string{"m"}, 1, 2},
		{oracle.Or(oracle.PhEq("n", 2), oracle.Not(oracle.PhEq("m", 1))), nil, 1, 2},
	}
	for ti, t := range targs {
		for si, sh := range shapes {
			for _, prepared := range []bool{false, true} {
				cid := fmt.Sprintf("typed-integers/%T/%s/shape%d/prepared=%v", t.v, t.text, si, prepared)
				if poisoned || !r.Want(cid) {
					continue
				}
				text := gen.FormatQuery(sh.tmpl, sh.gb)
				args := make([]any, sh.n)
				strs := make([]string, sh.n)
				for i := range args {
					args[i], strs[i] = "1", "1"
				}
				args[sh.pos], strs[sh.pos] = t.v, t.text
				var rows *sql.Rows
				var qerr error
				panicked, msg, stack := vf.Try(func() {
					if prepared {
						st, err := db.Prepare(text)
						if err != nil {
							qerr = err
							return
						}
						defer st.Close()
						rows, qerr = st.Query(args...)
					} else {
						rows, qerr = db.Query(text, args...)
					}
				})
				r.Eval(1)
				r.Distinct(cid)
				r.Count("typed_integer_bindings", 1)
				r.Cover("integer_argument_types", fmt.Sprintf("%T", t.v))
				w := map[string]any{"text": text, "argument": fmt.Sprintf("%T(%s) at position %d", t.v, t.text, sh.pos+1), "prepared": prepared}
				if panicked {
					w["panic"], w["stack"] = msg, head(stack, 2000)
					r.Violation(cid, "panic", w)
					poisoned = true
					continue
				}
				rv := reflect.ValueOf(t.v)
				if qerr != nil && rv.CanUint() && rv.Uint() > math.MaxInt64 {
					// database/sql's default converter refuses unsigned values above MaxInt64: an error is a correct outcome
					r.Count("unsigned_above_maxint64_refused", 1)
					continue
				}
				if p := c11Check(ds, sh.tmpl, sh.gb, strs, rows, qerr); p != "" {
					w["problem"] = p
					r.Violation(cid, "integer-argument", w)
				}
				_ = ti
			}
		}
	}
}

// c11Lookalikes: string LITERALS of the query text that look like placeholders ("$1", "x$2", `"$1"`) next to real
// placeholders, and argument values that look like placeholders or contain quotes; on the direct and on the prepared
// path. Binding must touch the placeholders only.
func c11Lookalikes(r *vf.Run) {
	if !r.Want("lookalikes") {
		return
	}
	look := []string{"$1", "$2", "$3", "$10", "$1$2", "x$1", "$1x", `"$1"`, "$", "$0", "$01", " $1 ", "a = $1", `x" | b = "y`, "$2147483647"}
	plain := []string{"", "y", "1", "z z"}
	ds := &gen.Dataset{ID: "lookalikes"}
	all := append(append([]string{}, look...), plain...)
	for i := 0; i < 4*len(all)*len(all); i++ {
		row := oracle.Row{"a": all[i%len(all)], "b": all[(i/len(all)+i/7)%len(all)]}
		if i%5 == 0 {
			row["c"] = all[(i*3)%len(all)]
		}
		ds.Rows = append(ds.Rows, row)
	}
	ds.Index()
	dir := filepath.Join(r.Scratch, "lookalikes")
	mustMkdir(dir)
	path := filepath.Join(dir, "ds.updog")
	if err := ix.Build(ix.Writers[int(r.Seed+1)%3], path, ds.Rows); err != nil {
		r.Violation("lookalikes", "build", err.Error())
		return
	}
	db, err := sql.Open("updog", "file:"+path)
	if err != nil {
		r.Violation("lookalikes", "sql.Open", err.Error())
		return
	}
	poisoned := false
	defer func() {
		if !poisoned {
			db.Close()
		}
	}()
	rng := r.RNG("lookalikes")
	n := 0
	for li, lit := range look {
		for _, arg := range all {
			type shape struct {
				tmpl *oracle.Expr
				gb   []string
				args []string
			}
			other := all[rng.Intn(len(all))]
			shapes := []shape{
				{oracle.Or(oracle.Eq("a", lit), oracle.PhEq("b", 1)), nil, []string{arg}},
				{oracle.And(oracle.Eq("a", lit), oracle.Not(oracle.PhEq("b", 2))), []string{"b"}, []string{other, arg}},
				{oracle.Or(oracle.PhEq("a", 2), oracle.And(oracle.Eq("b", lit), oracle.PhEq("a", 1))), []string{"a"}, []string{arg, other}},
			}
			sh := shapes[(li+n)%len(shapes)]
			n++
			for _, prepared := range []bool{false, true} {
				cid := fmt.Sprintf("lookalikes/%d/prepared=%v", n, prepared)
				if poisoned || !r.Want(cid) {
					continue
				}
				text := gen.FormatQuery(sh.tmpl, sh.gb)
				args := make([]any, len(sh.args))
				for i, a := range sh.args {
					args[i] = a
				}
				var rows *sql.Rows
				var qerr error
				panicked, msg, stack := vf.Try(func() {
					if prepared {
						st, err := db.Prepare(text)
						if err != nil {
							qerr = err
							return
						}
						defer st.Close()
						rows, qerr = st.Query(args...)
					} else {
						rows, qerr = db.Query(text, args...)
					}
				})
				r.Eval(1)
				r.Distinct(cid + "|" + text + "|" + fmt.Sprintf("%q", sh.args))
				r.Count("bindings_next_to_placeholder_lookalike_literals", 1)
				w := map[string]any{"text": fmt.Sprintf("%q", text), "args": fmt.Sprintf("%q", sh.args), "prepared": prepared}
				if panicked {
					w["panic"], w["stack"] = msg, head(stack, 2000)
					r.Violation(cid, "panic", w)
					poisoned = true
					continue
				}
				if p := c11Check(ds, sh.tmpl, sh.gb, sh.args, rows, qerr); p != "" {
					w["problem"] = p
					r.Violation(cid, "literal-or-argument-reinterpreted", w)
				}
			}
		}
	}
	// placeholder numbers beyond the 31-bit range with a short argument list: always an error (the number is not a
	// placeholder of the language, and even read modulo something there are fewer arguments than it asks for)
	for i, num := range []string{"2147483648", "4294967296", "4294967297", "4294967298", "8589934593", "1099511627777", "9223372036854775807", "18446744073709551617", "281474976710657"} {
		for si, text := range []string{`a = $` + num, `a = $1 & b = $` + num, `b = $` + num + ` | a = $2 ; a`} {
			for _, prepared := range []bool{false, true} {
				cid := fmt.Sprintf("huge-placeholder/%d/%d/prepared=%v", i, si, prepared)
				if poisoned || !r.Want(cid) {
					continue
				}
				args := []any{"y", "1"}[:1+si%2+si/2]
				var qerr error
				var got string
				panicked, msg, _ := vf.Try(func() {
					var rows *sql.Rows
					if prepared {
						st, err := db.Prepare(text)
						if err != nil {
							qerr = err
							return
						}
						defer st.Close()
						rows, qerr = st.Query(args...)
					} else {
						rows, qerr = db.Query(text, args...)
					}
					if qerr == nil {
						t, _ := readRows(rows)
						got = fmtRows(t.Rows, 3)
					}
				})
				r.Eval(1)
				r.Distinct(cid)
				r.Count("placeholder_numbers_beyond_31_bits", 1)
				w := map[string]any{"text": text, "arguments": len(args), "prepared": prepared}
				if panicked {
					w["panic"] = msg
					r.Violation(cid, "panic", w)
					poisoned = true
				} else if qerr == nil {
					w["rows"] = got
					w["explanation"] = "a placeholder number above 2147483647 was accepted and bound to one of the few arguments given"
					r.Violation(cid, "too-few-arguments-accepted", w)
				}
			}
		}
	}
}

// c11ManyPlaceholders: one operator over N comparisons, each with its own placeholder (N around powers of two up to
// 300), and mixed with literals; every argument must land in its own comparison.
func c11ManyPlaceholders(r *vf.Run) {
	if !r.Want("many-placeholders") {
		return
	}
	ds := &gen.Dataset{ID: "many-placeholders"}
	for i := 0; i < 700; i++ {
		ds.Rows = append(ds.Rows, oracle.Row{"a": fmt.Sprintf("v%d", i%350), "b": fmt.Sprint(i % 3)})
	}
	ds.Index()
	dir := filepath.Join(r.Scratch, "many-placeholders")
	mustMkdir(dir)
	path := filepath.Join(dir, "ds.updog")
	if err := ix.Build(ix.Writers[int(r.Seed+2)%3], path, ds.Rows); err != nil {
		r.Violation("many-placeholders", "build", err.Error())
		return
	}
	db, err := sql.Open("updog", "file:"+path)
	if err != nil {
		r.Violation("many-placeholders", "sql.Open", err.Error())
		return
	}
	poisoned := false
	defer func() {
		if !poisoned {
			db.Close()
		}
	}()
	for _, n := range []int{1, 2, 3, 7, 8, 9, 15, 16, 17, 18, 31, 32, 33, 63, 64, 65, 100, 128, 129, 255, 256, 257, 300} {
		for variant := 0; variant < 3; variant++ {
			tmpl := &oracle.Expr{Op: '|'}
			var strs []string
			for i := 0; i < n; i++ {
				if variant == 2 && i%3 == 1 {
					tmpl.Kids = append(tmpl.Kids, oracle.Eq("a", fmt.Sprintf("v%d", (i*7)%350))) // literals in between
					continue
				}
				strs = append(strs, fmt.Sprintf("v%d", (i*5+variant)%350))
				tmpl.Kids = append(tmpl.Kids, oracle.PhEq("a", int32(len(strs))))
			}
			if len(strs) == 0 {
				continue
			}
			var e *oracle.Expr = tmpl
			if variant == 1 {
				e = oracle.And(oracle.Not(oracle.PhEq("b", int32(len(strs)+1))), tmpl)
				strs = append(strs, "1")
			}
			gb := []string{"b"}
			for _, prepared := range []bool{false, true} {
				cid := fmt.Sprintf("many-placeholders/n%d/v%d/prepared=%v", n, variant, prepared)
				if poisoned || !r.Want(cid) {
					continue
				}
				text := gen.FormatQuery(e, gb)
				args := make([]any, len(strs))
				for i, a := range strs {
					args[i] = a
				}
				var rows *sql.Rows
				var qerr error
				panicked, msg, _ := vf.Try(func() {
					if prepared {
						st, err := db.Prepare(text)
						if err != nil {
							qerr = err
							return
						}
						defer st.Close()
						// twice with different arguments
						if rows, qerr = st.Query(args...); qerr == nil {
							rows.Close()
						}
						rows, qerr = st.Query(args...)
					} else {
						rows, qerr = db.Query(text, args...)
					}
				})
				r.Eval(1)
				r.Distinct(cid)
				r.Count("bindings_with_many_placeholders", 1)
				r.Max("placeholders_in_one_statement", int64(len(strs)))
				w := map[string]any{"comparisons": n, "placeholders": len(strs), "prepared": prepared, "text": head(text, 400)}
				if panicked {
					w["panic"] = msg
					r.Violation(cid, "panic", w)
					poisoned = true
					continue
				}
				if p := c11Check(ds, e, gb, strs, rows, qerr); p != "" {
					w["problem"] = head(p, 800)
					r.Violation(cid, "rows", w)
				}
			}
		}
	}
}

// c11Cancelled: an execution of a prepared statement abandoned by its context (deadline inside the evaluation) must not
// influence later executions of that statement with other arguments.
func c11Cancelled(r *vf.Run) {
	if !r.Want("cancelled-execution") {
		return
	}
	// a slow query: group-by over two columns of 1200 values each on the rows of k = "big"
	ds := &gen.Dataset{ID: "cancelled"}
	for i := 0; i < 2400; i++ {
		k := "big"
		if i%8 == 0 {
			k = fmt.Sprintf("small%d", i%5)
		}
		ds.Rows = append(ds.Rows, oracle.Row{"k": k, "u": fmt.Sprintf("u%d", i%1200), "v": fmt.Sprintf("v%d", (i*7)%1200)})
	}
	ds.Index()
	dir := filepath.Join(r.Scratch, "cancelled")
	mustMkdir(dir)
	path := filepath.Join(dir, "ds.updog")
	if err := ix.Build(ix.WriterMemFile, path, ds.Rows); err != nil {
		r.Violation("cancelled-execution", "build", err.Error())
		return
	}
	for _, opts := range []string{"", "?lrucache=true&lrucachesize=1000000"} {
		cid := "cancelled-execution/" + opts
		db, err := sql.Open("updog", "file:"+path+opts)
		if err != nil {
			r.Violation(cid, "sql.Open", err.Error())
			return
		}
		tmpl, gb := oracle.PhEq("k", 1), []string{"u", "v"}
		text := gen.FormatQuery(tmpl, gb)
		abandoned := 0
		panicked, msg, _ := vf.Try(func() {
			st, err := db.Prepare(text)
			if err != nil {
				r.Violation(cid, "prepare", err.Error())
				return
			}
			defer st.Close()
			for round := 0; round < 3; round++ {
				// the slow execution, abandoned after a few milliseconds
				ctx, cancel := context.WithTimeout(context.Background(), time.Duration(3+round*15)*time.Millisecond)
				rows, qerr := st.QueryContext(ctx, "big")
				if qerr != nil {
					abandoned++
				} else if p := c11Check(ds, tmpl, gb, []string{"big"}, rows, nil); p != "" && ctx.Err() == nil {
					r.Violation(cid, "rows", map[string]any{"execution": "the slow one, not abandoned", "problem": head(p, 600)})
				}
				cancel()
				// then quick executions with other arguments under a context that can be cancelled (but is not)
				for i := 0; i < 4; i++ {
					arg := fmt.Sprintf("small%d", (i+round)%5)
					ctx2, cancel2 := context.WithCancel(context.Background())
					rows, qerr := st.QueryContext(ctx2, arg)
					r.Eval(1)
					p := c11Check(ds, tmpl, gb, []string{arg}, rows, qerr)
					cancel2()
					if p != "" {
						r.Violation(cid, "execution-after-an-abandoned-one", map[string]any{"text": text, "argument": arg, "round": round, "executions_abandoned_so_far": abandoned, "problem": head(p, 800)})
						return
					}
				}
			}
		})
		if panicked {
			r.Violation(cid, "panic", map[string]any{"panic": msg})
			return // the handle may be poisoned: not closed
		}
		r.Count("executions_abandoned_by_their_context", int64(abandoned))
		r.Distinct(cid)
		// give an abandoned evaluation time to finish before the index goes away
		time.Sleep(1500 * time.Millisecond)
		db.Close()
	}
}
