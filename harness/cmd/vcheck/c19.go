package main

import (
	"fmt"
	"io"
	"os"
	"path/filepath"
	"strings"
	"sync/atomic"
	"syscall"
	"time"

	"github.com/akrennmair/updog/verifharness/gen"
	"github.com/akrennmair/updog/verifharness/ix"
	"github.com/akrennmair/updog/verifharness/mon"
	"github.com/akrennmair/updog/verifharness/oracle"
	"github.com/akrennmair/updog/verifharness/vf"
)

func init() { register("C19", "exploration", runC19) }

func runCreate(r *vf.Run, big bool, out, in string) childResult {
	return runCreateOpts(r, big, false, out, in)
}

func runCreateOpts(r *vf.Run, big, verbose bool, out, in string) childResult {
	args := []string{"create", "-o", out}
	if verbose {
		args = append([]string{"-v"}, args...)
	}
	if big {
		args = append(args, "-b")
	}
	if atomic.LoadInt64(&c19Hangs) >= 3 {
		// three classified hangs are witness enough; do not spend a watchdog period on each further one
		return childResult{Code: -2, Stderr: "skipped after three hangs"}
	}
	res := runChild(r, binPath("updog"), append(args, in), childOpts{Timeout: 90 * time.Second, TmpDir: pickTmp(r, out)})
	if res.TimedOut {
		atomic.AddInt64(&c19Hangs, 1)
	}
	return res
}

var c19Hangs int64

func runC19(r *vf.Run) {
	r.Rule("one evaluation = one run of the built `updog create` (normal or --big) on a generated CSV: exit status, then the produced index opened through the library and compared with the row oracle built from the CSV's records " +
		"(schema, probe set incl. exact row membership, row count), normal vs --big outputs compared bitmap by bitmap, `updog schema` run on the output; malformed CSVs and existing outputs must give a non-zero exit with the existing file untouched; " +
		"a command that does not exit is decided by classifying the goroutine dump; distinct_nontrivial = distinct (CSV, mode, output state) combinations")
	r.Assume("fields contain no CR (encoding/csv rewrites CRLF inside quoted fields)", "headers stay distinct after normalisation", "all fields are written quoted by the harness's CSV writer")
	if !haveBin("updog") {
		r.Inconclusive("updog binary not built")
		return
	}
	dir := filepath.Join(r.Scratch, "c19")
	mustMkdir(dir)
	// ---- well-formed CSVs
	type wf struct {
		id  string
		csv func() *gen.CSVFile
	}
	var cases []wf
	cases = append(cases,
		wf{"header-only", func() *gen.CSVFile { return gen.MakeCSV(r.RNG("ho"), 0, 3, true) }},
		wf{"one-record", func() *gen.CSVFile { return gen.MakeCSV(r.RNG("one"), 1, 4, true) }},
		wf{"r999", func() *gen.CSVFile { return gen.CSVWithValues(999, []int{999, 3}) }},
		wf{"r1000", func() *gen.CSVFile { return gen.CSVWithValues(1000, []int{1000}) }},
		wf{"r1001", func() *gen.CSVFile { return gen.CSVWithValues(1001, []int{1001, 2, 500}) }},
		wf{"r2001", func() *gen.CSVFile { return gen.CSVWithValues(2001, []int{1500, 7}) }},
		wf{"r20001-verbose", func() *gen.CSVFile { return gen.CSVWithValues(20001, []int{9000, 7, 2}) }},
		wf{"r70000-constant-column", func() *gen.CSVFile {
			// more than 65536 records with a constant and a three-valued column: single values on more rows than one bitmap
			// container or one 16-bit counter holds
			return gen.CSVWithValues(70000, []int{1, 3, 500})
		}},
		wf{"wide-40-columns", func() *gen.CSVFile {
			cards := make([]int, 40)
			for i := range cards {
				cards[i] = 2 + i%5
			}
			return gen.CSVWithValues(700, cards)
		}},
		wf{"bom-first", func() *gen.CSVFile {
			// the file starts with a UTF-8 byte order mark glued to the first (bare) header field: it is a character
			// outside a-z like any other, so the column is "_name"
			c := &gen.CSVFile{Header: []string{"\ufeffName", "City", " Zip"}, Columns: []string{"_name", "city", "_zip"}}
			for i := 0; i < 40; i++ {
				c.Records = append(c.Records, []string{fmt.Sprintf("n%d", i%7), fmt.Sprintf(" c%d", i%3), fmt.Sprintf("%d ", i%5)})
			}
			c.RenderStyle("minimal", "\n")
			return c
		}},
		wf{"prefix-related-headers", func() *gen.CSVFile {
			// (round 6) header names that are prefixes of each other after normalisation, with fields that complete one
			// name to the other: (tag,"s"+v) / (tags,v), (user,"_id"+v) / (user_id,v), and empty fields next to them. However
			// column and value are combined into a key, different (column, value) pairs must stay different.
			c := &gen.CSVFile{Header: []string{"Tag", "tags", "User", "user id", "t"}, Columns: []string{"tag", "tags", "user", "user_id", "t"}}
			for i := 0; i < 240; i++ {
				v := fmt.Sprint(i % 4)
				rec := []string{"s" + v, fmt.Sprint((i / 4) % 3), "_id" + fmt.Sprint(i%5), fmt.Sprint((i / 5) % 4), "ag" + fmt.Sprint(i%3)}
				switch i % 6 {
				case 1:
					rec[0], rec[1] = "s", ""
				case 2:
					rec[0], rec[1] = "", "s"
				case 3:
					rec[2], rec[3] = "_id", ""
				case 4:
					rec[4] = "ags" + fmt.Sprint(i%2)
				}
				c.Records = append(c.Records, rec)
			}
			c.Render()
			return c
		}},
		wf{"punctuation-in-bare-headers-1", func() *gen.CSVFile { return c19PunctHeaders([]string{"id", "price (eur;usd;gbp)"}) }},
		wf{"punctuation-in-bare-headers-2", func() *gen.CSVFile { return c19PunctHeaders([]string{"a;b;c", "d"}) }},
		wf{"punctuation-in-bare-headers-3", func() *gen.CSVFile { return c19PunctHeaders([]string{"size (w|h)"}) }},
		wf{"punctuation-in-bare-headers-4", func() *gen.CSVFile { return c19PunctHeaders([]string{"x\ty\tz", "k|l|m|n", "p"}) }},
		wf{"all-fields-empty", func() *gen.CSVFile {
			c := &gen.CSVFile{Header: []string{"a", "b", "c"}, Columns: []string{"a", "b", "c"}}
			for i := 0; i < 30; i++ {
				rec := []string{"", "", ""}
				if i%7 == 3 {
					rec = []string{"x", "", " y"}
				}
				c.Records = append(c.Records, rec)
			}
			c.Render()
			return c
		}},
	)
	lrng := r.RNG("list")
	for i := 0; i < r.Pick(50, 2000); i++ {
		id := fmt.Sprintf("rnd%03d", i)
		n := []int{lrng.Intn(30), lrng.Intn(1200), lrng.Intn(3001)}[lrng.Intn(3)]
		hostile := i%4 != 3
		style, eol := []string{"quoted", "minimal", "minimal", "quoted"}[i%4], []string{"\n", "\n", "\r\n", "\r\n"}[i%4]
		cases = append(cases, wf{id, func() *gen.CSVFile {
			c := gen.MakeCSV(r.RNG("csv/"+id), n, 6, hostile)
			c.RenderStyle(style, eol)
			return c
		}})
	}
	var ids []string
	byID := map[string]wf{}
	for _, c := range cases {
		ids = append(ids, "ok/"+c.id)
		byID["ok/"+c.id] = c
	}
	r.ForEach(ids, 10, func(id string) {
		c := byID[id]
		csv := c.csv()
		rows := csv.Rows()
		ds := &gen.Dataset{ID: c.id, Rows: rows}
		ds.Index()
		sub := filepath.Join(dir, c.id)
		mustMkdir(sub)
		in := filepath.Join(sub, "in.csv")
		_ = os.WriteFile(in, []byte(csv.Text), 0o644)
		ps := probeSet(r.RNG("probes/"+c.id), ds, r.Pick(400, 2000), 20)
		outs := map[string]string{}
		for _, big := range []bool{false, true} {
			mode := "normal"
			if big {
				mode = "big"
			}
			cid := id + "/" + mode
			out := filepath.Join(sub, mode+".updog")
			res := runCreateOpts(r, big, strings.HasSuffix(c.id, "-verbose") || len(c.id)%5 == 0, out, in)
			r.Eval(1)
			r.Cover("modes", mode)
			r.Cover("csv_styles", csvStyle(csv.Text))
			r.Distinct(cid + "|absent")
			w := map[string]any{"mode": mode, "records": len(csv.Records), "header": fmt.Sprintf("%q", csv.Header), "columns": csv.Columns, "first_records": fmt.Sprintf("%q", csv.Records[:min(3, len(csv.Records))])}
			if res.TimedOut {
				hangVerdict(r, cid, res, w)
				return
			}
			if res.Code != 0 {
				w["exit_code"], w["stderr"] = res.Code, head(res.Stderr, 1500)
				r.Violation(cid, "create-failed-on-well-formed-csv", w)
				return
			}
			idx, err := ix.Open(out, ix.OpenOnDemand, nil)
			if err != nil {
				w["error"] = err.Error()
				r.Violation(cid, "output-not-an-index", w)
				return
			}
			if d := oracle.CompareSchema(idx.GetSchema(), rows); d != "" {
				w["difference"] = d
				idx.Close()
				r.Violation(cid, "schema", w)
				return
			}
			pid, d := runProbes(idx, ps)
			idx.Close()
			if d != "" {
				w["difference"] = d
				r.Violation(cid+"/"+pid, "index-differs-from-csv", w)
				return
			}
			// `updog schema` on the output
			sres := runChild(r, binPath("updog"), []string{"schema", "-f", out}, childOpts{Timeout: 2 * time.Minute})
			if sres.TimedOut {
				hangVerdict(r, cid+"/schema", sres, w)
				return
			}
			if sres.Code != 0 {
				w["stderr"] = head(sres.Stderr, 800)
				r.Violation(cid, "schema-command-failed", w)
				return
			}
			outs[mode] = out
			r.Count("records_ingested", int64(len(csv.Records)))
		}
		// the same CSV arriving through a named pipe (zcat x.csv.gz | updog create ... /dev/stdin): nothing can be re-read
		// or seeked, the result must be the same index
		if idn := len(ids); (len(c.id)+idn)%3 == 0 || !strings.HasPrefix(c.id, "rnd") {
			big := len(c.id)%2 == 0
			mode := []string{"normal", "big"}[map[bool]int{false: 0, true: 1}[big]]
			fifo := filepath.Join(sub, "in.fifo")
			pout := filepath.Join(sub, "piped.updog")
			if err := syscall.Mkfifo(fifo, 0o600); err == nil {
				{
					done := make(chan struct{})
					go func() {
						defer close(done)
						// blocks until the command has opened the pipe for reading (what is written before a reader exists
						// and closed again is lost), so the write end is opened the ordinary, blocking way
						wf, err := os.OpenFile(fifo, os.O_WRONLY, 0)
						if err != nil {
							return
						}
						_, _ = wf.Write([]byte(csv.Text))
						wf.Close()
					}()
					res := runCreateOpts(r, big, false, pout, fifo)
					// a writer that never met its reader (the command failed before opening its input) is released
					if rf, err := os.OpenFile(fifo, os.O_RDONLY|syscall.O_NONBLOCK, 0); err == nil {
						go func() { _, _ = io.Copy(io.Discard, rf) }()
						<-done
						rf.Close()
					} else {
						<-done
					}
					r.Eval(1)
					r.Count("runs_with_input_from_a_pipe", 1)
					w := map[string]any{"mode": mode, "records": len(csv.Records), "input": "named pipe"}
					switch {
					case res.TimedOut:
						hangVerdict(r, id+"/pipe", res, w)
					case res.Code != 0:
						w["exit_code"], w["stderr"] = res.Code, head(res.Stderr, 800)
						r.Violation(id+"/pipe", "create-failed-on-well-formed-csv", w)
					default:
						if d := compareRaw(readRaw(outs[mode]), readRaw(pout)); d != "" {
							w["difference"] = d
							r.Violation(id+"/pipe", "index-differs-from-csv", w)
						}
					}
				}
			}
		}
		// normal and --big are observationally identical: same bitmaps, same counter
		r.Eval(1)
		if d := compareRaw(readRaw(outs["normal"]), readRaw(outs["big"])); d != "" {
			r.Violation(id, "normal-vs-big", map[string]any{"difference": d, "records": len(csv.Records), "header": fmt.Sprintf("%q", csv.Header)})
		}
		// an existing output (the index just written) makes both modes fail and stay untouched
		for _, big := range []bool{false, true} {
			mode := "normal"
			if big {
				mode = "big"
			}
			target := outs[[]string{"normal", "big"}[len(c.id)%2]]
			before := mon.StatFile(target)
			res := runCreateOpts(r, big, len(c.id)%2 == 0, target, in)
			r.Eval(1)
			r.Cover("output_states", "present-valid-index")
			r.Distinct(id + "/" + mode + "|present")
			if res.TimedOut {
				hangVerdict(r, id+"/"+mode+"/existing", res, nil)
				return
			}
			after := mon.StatFile(target)
			if res.Code == 0 {
				r.Violation(id+"/"+mode+"/existing", "existing-output-accepted", map[string]any{"mode": mode})
			}
			if !after.SameContent(before) {
				r.Violation(id+"/"+mode+"/existing", "existing-output-changed", map[string]any{"mode": mode, "before": before.String(), "after": after.String()})
			}
		}
		if c.id == "rnd000" {
			r.Sample("csv", map[string]any{"header": fmt.Sprintf("%q", csv.Header), "columns": csv.Columns, "records": len(csv.Records), "first_record": fmt.Sprintf("%q", csv.Records[:min(1, len(csv.Records))])})
		}
		os.RemoveAll(sub)
	})
	// ---- malformed CSVs
	base := gen.MakeCSV(r.RNG("malformed-base"), 1500, 3, false)
	lines := strings.SplitAfter(base.Text, "\n")
	ragged := func(at int, more bool) string {
		l := append([]string{}, lines...)
		if more {
			l[at] = strings.TrimSuffix(l[at], "\n") + `,"extra"` + "\n"
		} else {
			l[at] = `"only-one-field-here-zzzzzz"` + "\n"
			if len(base.Header) == 1 {
				l[at] = `"a","b"` + "\n"
			}
		}
		return strings.Join(l, "")
	}
	malformed := []struct{ kind, text string }{
		{"ragged-first-record", ragged(1, false)},
		{"ragged-middle-record", ragged(700, true)},
		{"ragged-record-after-1000", ragged(1200, false)},
		{"ragged-last-record", ragged(len(lines)-2, true)},
		{"bare-quote", strings.Join(lines[:5], "") + `a"b,c,d` + "\n" + strings.Join(lines[5:], "")},
		{"unterminated-quote", strings.Join(lines[:1300], "") + `"never closed,` + "\n"},
		{"unterminated-quote-in-header", `"a,b` + "\n"},
		{"empty-file", ""},
		{"quote-after-field", strings.Join(lines[:3], "") + `"x"y,"z","w"` + "\n"},
		{"blank-before-quoted-field", strings.Join(lines[:4], "") + blankBeforeQuote(len(base.Header)) + strings.Join(lines[4:], "")},
	}
	// a malformed record at chosen positions of a longer file (whatever reads ahead or in batches meets the error at the
	// start, in the middle or at the end of a batch)
	base2 := gen.MakeCSV(r.RNG("malformed-base2"), 4200, 3, false)
	lines2 := strings.SplitAfter(base2.Text, "\n")
	for _, pos := range []int{1, 2, 3, 63, 64, 65, 127, 128, 129, 255, 256, 257, 511, 512, 513, 999, 1000, 1001, 1023, 1024, 1025, 2047, 2048, 2049, 3071, 3072, 3073, 4095, 4096, 4097, 4200} {
		// data record number pos (the header is line 0; no field of this base spans lines)
		l := append([]string{}, lines2...)
		kind := "ragged"
		if pos%2 == 0 {
			l[pos] = strings.TrimSuffix(l[pos], "\n") + `,"one field too many"` + "\n"
		} else {
			l[pos] = `x"y,` + strings.TrimPrefix(l[pos], `"`)
			kind = "bare-quote"
		}
		malformed = append(malformed, struct{ kind, text string }{fmt.Sprintf("pos-%s-record-%04d", kind, pos), strings.Join(l, "")})
	}
	validOut, _ := os.ReadFile(func() string {
		p := filepath.Join(dir, "pre-valid.updog")
		_ = ix.Build(ix.WriterMemFile, p, []oracle.Row{{"k": "v"}})
		return p
	}())
	type badCase struct {
		kind, text, pre string
		big             bool
	}
	var badIDs []string
	badBy := map[string]badCase{}
	for _, m := range malformed {
		for _, big := range []bool{false, true} {
			for _, pre := range []string{"absent", "present-valid-index", "present-junk"} {
				mode := "normal"
				if big {
					mode = "big"
				}
				if strings.HasPrefix(m.kind, "pos-") && pre != "absent" && !(pre == "present-junk" && len(m.kind)%2 == 0 && big) {
					continue // the positional sweep mostly with an absent output
				}
				cid := fmt.Sprintf("bad/%s/%s/%s", m.kind, mode, pre)
				badIDs = append(badIDs, cid)
				badBy[cid] = badCase{m.kind, m.text, pre, big}
			}
		}
	}
	r.ForEach(badIDs, 10, func(cid string) {
		{
			{
				m, big, pre := badBy[cid], badBy[cid].big, badBy[cid].pre
				mode := "normal"
				if big {
					mode = "big"
				}
				func() {
					sub := filepath.Join(dir, vf.Digest(cid))
					mustMkdir(sub)
					defer os.RemoveAll(sub)
					in := filepath.Join(sub, "in.csv")
					_ = os.WriteFile(in, []byte(m.text), 0o644)
					out := filepath.Join(sub, "out.updog")
					switch pre {
					case "present-valid-index":
						_ = os.WriteFile(out, validOut, 0o644)
					case "present-junk":
						_ = os.WriteFile(out, []byte("junk, not an index\n"), 0o644)
					}
					before := mon.StatFile(out)
					verbose := len(cid)%3 == 0 // every third case with -v: flags must not change the outcome
					res := runCreateOpts(r, big, verbose, out, in)
					r.Eval(1)
					if verbose {
						r.Count("runs_with_verbose_flag", 1)
					}
					r.Cover("malformed_kinds", m.kind)
					r.Cover("output_states", pre)
					r.Cover("modes", mode)
					r.Distinct(cid)
					w := map[string]any{"malformed": m.kind, "mode": mode, "output_before": pre}
					if res.TimedOut {
						hangVerdict(r, cid, res, w)
						return
					}
					if res.Code == -2 {
						r.Count("runs_skipped_after_three_hangs", 1)
						return
					}
					w["exit_code"], w["stderr"] = res.Code, head(res.Stderr, 300)
					if res.Code == 0 {
						r.Violation(cid, "malformed-csv-accepted", w)
					}
					if pre != "absent" {
						if after := mon.StatFile(out); !after.SameContent(before) {
							w["before"], w["after"] = before.String(), after.String()
							r.Violation(cid, "existing-output-changed", w)
						}
					} else if _, err := os.Stat(out); err == nil {
						// a leftover from a failed run must never pass for an index of the CSV
						r.Count("leftover_outputs_after_failed_create", 1)
						if idx, err := ix.Open(out, ix.OpenOnDemand, nil); err == nil {
							idx.Close()
							r.Count("leftover_outputs_that_open", 1)
						}
					}
				}()
			}
		}
	})
	c19RetryAfterKill(r, dir)
	// a nonexistent input
	r.Guard("bad/no-input", func() {
		res := runCreate(r, false, filepath.Join(dir, "never.updog"), filepath.Join(dir, "does-not-exist.csv"))
		r.Eval(1)
		if res.Code == 0 {
			r.Violation("bad/no-input", "missing-input-accepted", nil)
		}
	})
	r.Floor("both modes", r.Covered("modes") == 2)
	r.Floor("output absent / valid index / junk", r.Covered("output_states") == 3)
	r.Floor("every malformed kind", r.Covered("malformed_kinds") == len(malformed))
}

// csvStyle names the rendering of a generated CSV for the coverage tally.
func csvStyle(text string) string {
	st := "quoted"
	if !strings.HasPrefix(text, `"`) {
		st = "minimal-quoting"
	}
	if strings.Contains(text, "\"\r\n") || strings.HasSuffix(text, "\r\n") {
		st += "+crlf"
	}
	return st
}

// c19RetryAfterKill: a `create` that was killed half-way (SIGKILL at a commit boundary, through the verif build's
// UPDOG_VERIF_KILL_AT), its partial output removed, and then a create with the same -o on ANOTHER CSV: whatever the
// killed run left behind (temporary files next to the output or in TMPDIR) must not leak into the new index.
func c19RetryAfterKill(r *vf.Run, dir string) {
	if !haveBin("updog.verif") {
		return
	}
	first := gen.CSVWithValues(2600, []int{50, 7})
	second := gen.CSVWithValues(1700, []int{30, 7, 3})
	for _, big := range []bool{false, true} {
		for _, killAt := range []int{1, 2, 3} {
			mode := "normal"
			if big {
				mode = "big"
			}
			cid := fmt.Sprintf("retry-after-kill/%s/kill%d", mode, killAt)
			if !r.Want(cid) {
				continue
			}
			r.Guard(cid, func() {
				sub := filepath.Join(dir, vf.Digest(cid))
				mustMkdir(sub)
				defer os.RemoveAll(sub)
				tmp := filepath.Join(sub, "tmp")
				mustMkdir(tmp)
				in1, in2, out := filepath.Join(sub, "first.csv"), filepath.Join(sub, "second.csv"), filepath.Join(sub, "out.updog")
				_ = os.WriteFile(in1, []byte(first.Text), 0o644)
				_ = os.WriteFile(in2, []byte(second.Text), 0o644)
				args := func(in string) []string {
					a := []string{"create", "-o", out}
					if big {
						a = append(a, "-b")
					}
					return append(a, in)
				}
				k := runChild(r, binPath("updog.verif"), args(in1), childOpts{Timeout: 2 * time.Minute, TmpDir: tmp, Env: []string{fmt.Sprintf("UPDOG_VERIF_KILL_AT=%d", killAt)}})
				if k.TimedOut {
					hangVerdict(r, cid, k, nil)
					return
				}
				if !k.Signaled {
					r.Count("retry_runs_where_the_first_create_was_not_killed", 1)
				}
				os.Remove(out) // the user cleans up the partial output and tries again with other data
				res := runChild(r, binPath("updog.verif"), args(in2), childOpts{Timeout: 2 * time.Minute, TmpDir: tmp})
				r.Eval(1)
				r.Count("retries_after_a_killed_create", 1)
				r.Distinct(cid)
				w := map[string]any{"mode": mode, "first_run_killed_at_commit_point": killAt, "first_csv_records": len(first.Records), "second_csv_records": len(second.Records)}
				if res.TimedOut {
					hangVerdict(r, cid, res, w)
					return
				}
				if res.Code != 0 {
					w["exit_code"], w["stderr"] = res.Code, head(res.Stderr, 800)
					r.Violation(cid, "create-failed-after-a-killed-run", w)
					return
				}
				rows := second.Rows()
				ds := &gen.Dataset{ID: cid, Rows: rows}
				ds.Index()
				idx, err := ix.Open(out, ix.OpenOnDemand, nil)
				if err != nil {
					w["error"] = err.Error()
					r.Violation(cid, "output-not-an-index", w)
					return
				}
				d := oracle.CompareSchema(idx.GetSchema(), rows)
				if d == "" {
					_, d = runProbes(idx, probeSet(r.RNG("probes/"+cid), ds, 400, 10))
				}
				idx.Close()
				if d != "" {
					w["difference"] = d
					r.Violation(cid, "index-differs-from-csv", w)
				}
			})
		}
	}
}

// blankBeforeQuote renders a record of n fields in which a quoted field is preceded by a blank (`a, "b"`): a bare
// quote inside an unquoted field, which encoding/csv rejects unless told to trim leading space.
func blankBeforeQuote(n int) string {
	f := make([]string, n)
	for i := range f {
		f[i] = fmt.Sprintf("v%d", i)
	}
	if n == 1 {
		return ` "v0"` + "\n"
	}
	f[1] = ` "quoted after a blank"`
	return strings.Join(f, ",") + "\n"
}

// c19PunctHeaders (round 8): header fields written bare (no quotes) that contain the characters other tools use as
// separators -- ';', '|', TAB -- more often than the line contains commas; records whose fields contain them too. The
// file is comma-separated like every input of this command, and each of those characters in a name becomes '_'.
func c19PunctHeaders(header []string) *gen.CSVFile {
	c := &gen.CSVFile{Header: header}
	for _, h := range header {
		c.Columns = append(c.Columns, gen.NormalizeHeader(h))
	}
	for i := 0; i < 60; i++ {
		var rec []string
		for k := range header {
			rec = append(rec, []string{fmt.Sprint(i % 7), fmt.Sprintf("%d;%d;%d", i%3, i%4, i%2), fmt.Sprintf("w|%d", i%5), "t\t" + fmt.Sprint(i%2)}[(i+k)%4])
		}
		c.Records = append(c.Records, rec)
	}
	c.RenderStyle("minimal", "\n")
	return c
}
