package main

import (
	"fmt"
	"math/rand"
	"os"
	"path/filepath"

	"github.com/akrennmair/updog"
	"github.com/akrennmair/updog/verifharness/gen"
	"github.com/akrennmair/updog/verifharness/ix"
	"github.com/akrennmair/updog/verifharness/oracle"
	"github.com/akrennmair/updog/verifharness/vf"
)

type c08Target struct {
	name string
	ds   *gen.Dataset
	idx  *updog.Index
}

// c08SharedParts (round 6): Query VALUES that share parts, the way callers build them.
//
//  1. drill-down: one list of dimensions, queries grouped by dims[:1], dims[:2], dims[:3] ... whose GroupBy slices
//     share one backing array (every shorter slice has the longer ones' elements in its spare capacity). Executing one
//     of them must not change any element of that array: the next query means what its caller wrote.
//  2. one filter object (an expression node) placed in several Query values -- as the whole expression, below an
//     operator, in a struct copy of another Query with a different group-by list -- executed in turns on DIFFERENT
//     indexes. Each execution answers for its own (query, index), whatever the nodes remember.
func c08SharedParts(r *vf.Run, id string, rng *rand.Rand, A, B *gen.Dataset, ts []c08Target) {
	cid := id + "/shared-parts"
	if !r.Want(cid) || len(ts) < 4 {
		return
	}
	cols := A.ColNames()
	// 1. drill-down over columns of modest cardinality
	var dims []string
	for _, c := range cols {
		if len(A.Vals[c]) <= 40 && len(B.Vals[c]) <= 40 {
			dims = append(dims, c)
		}
	}
	rng.Shuffle(len(dims), func(i, j int) { dims[i], dims[j] = dims[j], dims[i] })
	if len(dims) > 4 {
		dims = dims[:4]
	}
	if len(dims) >= 2 {
		e := gen.Expr(rng, A, cols, rng.Intn(3), 3)
		backing := append([]string{}, dims...)
		orig := append([]string{}, dims...)
		var qs []*updog.Query
		for k := 1; k <= len(backing); k++ {
			qs = append(qs, &updog.Query{Expr: e.ToUpdog(), GroupBy: backing[:k]})
		}
		order := rng.Perm(len(qs))
		for round := 0; round < 2; round++ {
			for _, k := range order {
				t := ts[rng.Intn(len(ts))]
				gb := orig[:k+1]
				want := oracle.Eval(t.ds.Rows, t.ds.Cols, e, gb)
				res, err := t.idx.Execute(qs[k])
				r.Eval(1)
				r.Count("drill_down_executions", 1)
				if fmt.Sprint(backing) != fmt.Sprint(orig) {
					r.Violation(cid, "groupby-backing-array-changed", map[string]any{"dimensions_before": fmt.Sprintf("%q", orig), "dimensions_after": fmt.Sprintf("%q", backing),
						"executed": fmt.Sprintf("group by %q (a prefix of the caller's dimension list) on %s", gb, t.name), "expr": e.String()})
					return
				}
				if d := oracle.CompareResult(res, err, want, gb); d != "" {
					r.Violation(cid, "answer", map[string]any{"difference": d, "expr": e.String(), "group_by": fmt.Sprintf("%q", gb), "index": t.name,
						"note": "drill-down: queries grouped by prefixes of one dimension list (GroupBy slices over one backing array), executed in turns"})
					return
				}
			}
		}
	}
	// 2. one filter object in several Query values, executed in turns on different indexes
	f := gen.Expr(rng, A, cols, 1+rng.Intn(3), 3)
	fu := f.ToUpdog() // THE shared object
	l := gen.Leaf(rng, A, cols)
	type qv struct {
		name string
		q    *updog.Query
		e    *oracle.Expr
		gb   []string
	}
	var gb1, gb2 []string
	if len(dims) > 0 {
		gb1 = []string{dims[0]}
	}
	if len(dims) > 1 {
		gb2 = []string{dims[1], dims[0]}
	}
	q1 := &updog.Query{Expr: fu, GroupBy: append([]string{}, gb1...)}
	q2 := &updog.Query{Expr: fu, GroupBy: append([]string{}, gb2...)}
	c := *q1 // a struct copy, as in `q := *base; q.GroupBy = ...`
	q3 := &c
	q3.GroupBy = nil
	q4 := &updog.Query{Expr: &updog.ExprAnd{Exprs: []updog.Expression{fu, &updog.ExprEqual{Column: l.Col, Value: l.Val}}}}
	q5 := &updog.Query{Expr: &updog.ExprNot{Expr: fu}, GroupBy: append([]string{}, gb1...)}
	vals := []qv{{"filter grouped by one column", q1, f, gb1}, {"same filter object, other group-by list", q2, f, gb2}, {"struct copy without group-by", q3, f, nil},
		{"filter object below AND", q4, oracle.And(f, l), nil}, {"filter object below NOT", q5, oracle.Not(f), gb1}}
	// every value is executed the same number of times so far when it meets an index it has not seen: round-robin over
	// the values, the index advancing by one per round, then random pairs
	steps := 0
	exec := func(v qv, t c08Target) bool {
		want := oracle.Eval(t.ds.Rows, t.ds.Cols, v.e, v.gb)
		res, err := t.idx.Execute(v.q)
		r.Eval(1)
		steps++
		if d := oracle.CompareResult(res, err, want, v.gb); d != "" {
			r.Violation(cid, "answer", map[string]any{"difference": d, "query_value": v.name, "expr": v.e.String(), "group_by": fmt.Sprintf("%q", v.gb), "index": t.name, "execution_number": steps,
				"note": "several Query values share one expression object and are executed in turns on different indexes"})
			return false
		}
		return true
	}
	for round := 0; round < 4; round++ {
		for vi, v := range vals {
			if !exec(v, ts[(vi+round*3)%len(ts)]) {
				return
			}
		}
	}
	for i := 0; i < 20; i++ {
		if !exec(vals[rng.Intn(len(vals))], ts[rng.Intn(len(ts))]) {
			return
		}
	}
	r.Count("shared_filter_object_executions", int64(steps))
	r.Distinct(cid)
}

// c08Holes (round 7): a Query value that is incomplete when it is first executed (an operand that is nil below AND, OR or
// NOT, at the root or three levels down) is rejected with an error; the caller then fills the hole in place and executes
// the SAME value again, punches the hole again, fills it with something else ... Every complete state answers like a
// freshly built equal query, every incomplete one is an error, on every index.
func c08Holes(r *vf.Run, id string, rng *rand.Rand, A *gen.Dataset, ts []c08Target) {
	cid := id + "/holes"
	if !r.Want(cid) || len(ts) == 0 {
		return
	}
	cols := A.ColNames()
	leafPair := func() (*oracle.Expr, updog.Expression) {
		l := gen.Leaf(rng, A, cols)
		return l, &updog.ExprEqual{Column: l.Col, Value: l.Val}
	}
	for shape := 0; shape < 6; shape++ {
		// the operator that has the hole, and where it hangs
		x1, u1 := leafPair()
		x2, u2 := leafPair()
		var holder updog.Expression
		var setHole func(u updog.Expression)
		var ref func(filled *oracle.Expr) *oracle.Expr
		switch shape % 3 {
		case 0:
			n := &updog.ExprAnd{Exprs: []updog.Expression{u1, nil, u2}}
			holder, setHole = n, func(u updog.Expression) { n.Exprs[1] = u }
			ref = func(f *oracle.Expr) *oracle.Expr { return oracle.And(x1, f, x2) }
		case 1:
			n := &updog.ExprOr{Exprs: []updog.Expression{nil, u1, u2}}
			holder, setHole = n, func(u updog.Expression) { n.Exprs[0] = u }
			ref = func(f *oracle.Expr) *oracle.Expr { return oracle.Or(f, x1, x2) }
		default:
			n := &updog.ExprNot{}
			holder, setHole = n, func(u updog.Expression) { n.Expr = u }
			ref = func(f *oracle.Expr) *oracle.Expr { return oracle.Not(f) }
		}
		root, wrap := holder, func(e *oracle.Expr) *oracle.Expr { return e }
		if shape >= 3 {
			y, uy := leafPair()
			root = &updog.ExprOr{Exprs: []updog.Expression{uy, &updog.ExprNot{Expr: &updog.ExprAnd{Exprs: []updog.Expression{holder, uy}}}}}
			wrap = func(e *oracle.Expr) *oracle.Expr { return oracle.Or(y, oracle.Not(oracle.And(e, y))) }
		}
		var gb []string
		if shape%2 == 1 {
			gb = gen.GroupBy(rng, A, 1, 200)
		}
		q := &updog.Query{Expr: root, GroupBy: append([]string{}, gb...)}
		var history []string
		for step := 0; step < 6; step++ {
			t := ts[rng.Intn(len(ts))]
			r.Eval(1)
			if step%2 == 0 {
				setHole(nil)
				history = append(history, "hole@"+t.name)
				var res *updog.Result
				var err error
				if p, msg, _ := vf.Try(func() { res, err = t.idx.Execute(q) }); p {
					r.Violation(cid, "panic", map[string]any{"panic": msg, "history": history, "note": "a Query value with a nil operand was executed"})
					return
				}
				if err == nil {
					r.Violation(cid, "incomplete-query-answered", map[string]any{"result": fmt.Sprintf("%+v", res), "history": history})
					return
				}
				r.Count("incomplete_query_values_rejected", 1)
				continue
			}
			f, uf := leafPair()
			if step == 3 {
				f2, uf2 := leafPair()
				f, uf = oracle.And(f, oracle.Not(f2)), &updog.ExprAnd{Exprs: []updog.Expression{uf, &updog.ExprNot{Expr: uf2}}}
			}
			setHole(uf)
			history = append(history, "filled@"+t.name)
			e := wrap(ref(f))
			want := oracle.Eval(t.ds.Rows, t.ds.Cols, e, gb)
			res, err := t.idx.Execute(q)
			if d := oracle.CompareResult(res, err, want, gb); d != "" {
				r.Violation(cid, "answer", map[string]any{"difference": d, "expr": e.String(), "group_by": fmt.Sprintf("%q", gb), "history": history,
					"note": "the Query value was rejected while it had a nil operand; the caller filled the operand in place and executed the same value again"})
				return
			}
			r.Count("query_values_completed_in_place_and_executed", 1)
		}
	}
	r.Distinct(cid)
}

// c08Rebuilt (round 7): the index FILE a Query value was executed on is replaced by another index under the same name --
// closed, removed and rebuilt, or renamed over while the old index is still open -- and the same Query value is executed
// on the index opened from that name now. It answers for the index it is given, not for the name it has seen before.
func c08Rebuilt(r *vf.Run, id string, rng *rand.Rand, A, B *gen.Dataset, dir string) {
	cid := id + "/rebuilt-at-same-path"
	if !r.Want(cid) {
		return
	}
	var shared []string
	for _, c := range A.ColNames() {
		if B.Cols[c] && len(A.Vals[c]) <= 60 && len(B.Vals[c]) <= 60 {
			shared = append(shared, c)
		}
	}
	if len(shared) == 0 {
		return
	}
	p := filepath.Join(dir, "same-name.updog")
	side := filepath.Join(dir, "same-name-next.updog")
	build := func(path string, ds *gen.Dataset) bool {
		os.Remove(path)
		if err := ix.Build(ix.Writers[rng.Intn(3)], path, ds.Rows); err != nil {
			r.Violation(cid, "build", err.Error())
			return false
		}
		return true
	}
	for _, mode := range []string{ix.OpenOnDemand, ix.OpenPreloaded} {
		gb := []string{shared[rng.Intn(len(shared))]}
		if len(shared) > 1 && rng.Intn(2) == 0 {
			gb = append(gb, shared[rng.Intn(len(shared))])
		}
		e := gen.Expr(rng, A, shared, rng.Intn(3), 3)
		q := &updog.Query{Expr: e.ToUpdog(), GroupBy: append([]string{}, gb...)}
		exec := func(idx *updog.Index, ds *gen.Dataset, step string) bool {
			want := oracle.Eval(ds.Rows, ds.Cols, e, gb)
			var res *updog.Result
			var err error
			if pn, msg, _ := vf.Try(func() { res, err = idx.Execute(q) }); pn {
				r.Violation(cid, "panic", map[string]any{"panic": msg, "step": step, "open_mode": mode})
				return false
			}
			r.Eval(1)
			if d := oracle.CompareResult(res, err, want, gb); d != "" {
				r.Violation(cid, "answer", map[string]any{"difference": d, "expr": e.String(), "group_by": fmt.Sprintf("%q", gb), "step": step, "open_mode": mode})
				return false
			}
			return true
		}
		if !build(p, A) {
			return
		}
		i1, err := ix.Open(p, mode, nil)
		if err != nil {
			r.Violation(cid, "open", err.Error())
			return
		}
		ok := exec(i1, A, "first index at the path")
		// route 1: close, remove, rebuild under the same name, open again
		i1.Close()
		if !ok || !build(p, B) {
			return
		}
		i2, err := ix.Open(p, mode, nil)
		if err != nil {
			r.Violation(cid, "open", err.Error())
			return
		}
		ok = exec(i2, B, "another index rebuilt under the same name after Close")
		// route 2: a third index renamed over the name while i2 is still open; both are open at once
		if ok && build(side, A) {
			if err := os.Rename(side, p); err == nil {
				i3, err := ix.Open(p, mode, nil)
				if err != nil {
					r.Violation(cid, "open", err.Error())
				} else {
					ok = exec(i3, A, "a third index renamed over the name while the second is still open") &&
						exec(i2, B, "the second index (still open, its file unlinked by the rename)") &&
						exec(i3, A, "the third index again")
					i3.Close()
				}
			}
		}
		i2.Close()
		if !ok {
			return
		}
		r.Count("query_values_executed_on_rebuilt_files", 1)
	}
	r.Distinct(cid)
}
