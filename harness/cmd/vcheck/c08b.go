package main

import (
	"fmt"
	"math/rand"

	"github.com/akrennmair/updog"
	"github.com/akrennmair/updog/verifharness/gen"
	"github.com/akrennmair/updog/verifharness/oracle"
	"github.com/akrennmair/updog/verifharness/vf"
)

type c08Target struct {
	name string
	ds   *gen.Dataset
	idx  *updog.Index
}

// c08SharedParts (round 6): Query VALUES that share parts, the way callers build them.
//
//  1. drill-down: one list of dimensions, queries grouped by dims[:1], dims[:2], dims[:3] ... whose GroupBy slices
//     share one backing array (every shorter slice has the longer ones' elements in its spare capacity). Executing one
//     of them must not change any element of that array: the next query means what its caller wrote.
//  2. one filter object (an expression node) placed in several Query values -- as the whole expression, below an
//     operator, in a struct copy of another Query with a different group-by list -- executed in turns on DIFFERENT
//     indexes. Each execution answers for its own (query, index), whatever the nodes remember.
func c08SharedParts(r *vf.Run, id string, rng *rand.Rand, A, B *gen.Dataset, ts []c08Target) {
	cid := id + "/shared-parts"
	if !r.Want(cid) || len(ts) < 4 {
		return
	}
	cols := A.ColNames()
	// 1. drill-down over columns of modest cardinality
	var dims []string
	for _, c := range cols {
		if len(A.Vals[c]) <= 40 && len(B.Vals[c]) <= 40 {
			dims = append(dims, c)
		}
	}
	rng.Shuffle(len(dims), func(i, j int) { dims[i], dims[j] = dims[j], dims[i] })
	if len(dims) > 4 {
		dims = dims[:4]
	}
	if len(dims) >= 2 {
		e := gen.Expr(rng, A, cols, rng.Intn(3), 3)
		backing := append([]string{}, dims...)
		orig := append([]string{}, dims...)
		var qs []*updog.Query
		for k := 1; k <= len(backing); k++ {
			qs = append(qs, &updog.Query{Expr: e.ToUpdog(), GroupBy: backing[:k]})
		}
		order := rng.Perm(len(qs))
		for round := 0; round < 2; round++ {
			for _, k := range order {
				t := ts[rng.Intn(len(ts))]
				gb := orig[:k+1]
				want := oracle.Eval(t.ds.Rows, t.ds.Cols, e, gb)
				res, err := t.idx.Execute(qs[k])
				r.Eval(1)
				r.Count("drill_down_executions", 1)
				if fmt.Sprint(backing) != fmt.Sprint(orig) {
					r.Violation(cid, "groupby-backing-array-changed", map[string]any{"dimensions_before": fmt.Sprintf("%q", orig), "dimensions_after": fmt.Sprintf("%q", backing),
						"executed": fmt.Sprintf("group by %q (a prefix of the caller's dimension list) on %s", gb, t.name), "expr": e.String()})
					return
				}
				if d := oracle.CompareResult(res, err, want, gb); d != "" {
					r.Violation(cid, "answer", map[string]any{"difference": d, "expr": e.String(), "group_by": fmt.Sprintf("%q", gb), "index": t.name,
						"note": "drill-down: queries grouped by prefixes of one dimension list (GroupBy slices over one backing array), executed in turns"})
					return
				}
			}
		}
	}
	// 2. one filter object in several Query values, executed in turns on different indexes
	f := gen.Expr(rng, A, cols, 1+rng.Intn(3), 3)
	fu := f.ToUpdog() // THE shared object
	l := gen.Leaf(rng, A, cols)
	type qv struct {
		name string
		q    *updog.Query
		e    *oracle.Expr
		gb   []string
	}
	var gb1, gb2 []string
	if len(dims) > 0 {
		gb1 = []string{dims[0]}
	}
	if len(dims) > 1 {
		gb2 = []string{dims[1], dims[0]}
	}
	q1 := &updog.Query{Expr: fu, GroupBy: append([]string{}, gb1...)}
	q2 := &updog.Query{Expr: fu, GroupBy: append([]string{}, gb2...)}
	c := *q1 // a struct copy, as in `q := *base; q.GroupBy = ...`
	q3 := &c
	q3.GroupBy = nil
	q4 := &updog.Query{Expr: &updog.ExprAnd{Exprs: []updog.Expression{fu, &updog.ExprEqual{Column: l.Col, Value: l.Val}}}}
	q5 := &updog.Query{Expr: &updog.ExprNot{Expr: fu}, GroupBy: append([]string{}, gb1...)}
	vals := []qv{{"filter grouped by one column", q1, f, gb1}, {"same filter object, other group-by list", q2, f, gb2}, {"struct copy without group-by", q3, f, nil},
		{"filter object below AND", q4, oracle.And(f, l), nil}, {"filter object below NOT", q5, oracle.Not(f), gb1}}
	// every value is executed the same number of times so far when it meets an index it has not seen: round-robin over
	// the values, the index advancing by one per round, then random pairs
	steps := 0
	exec := func(v qv, t c08Target) bool {
		want := oracle.Eval(t.ds.Rows, t.ds.Cols, v.e, v.gb)
		res, err := t.idx.Execute(v.q)
		r.Eval(1)
		steps++
		if d := oracle.CompareResult(res, err, want, v.gb); d != "" {
			r.Violation(cid, "answer", map[string]any{"difference": d, "query_value": v.name, "expr": v.e.String(), "group_by": fmt.Sprintf("%q", v.gb), "index": t.name, "execution_number": steps,
				"note": "several Query values share one expression object and are executed in turns on different indexes"})
			return false
		}
		return true
	}
	for round := 0; round < 4; round++ {
		for vi, v := range vals {
			if !exec(v, ts[(vi+round*3)%len(ts)]) {
				return
			}
		}
	}
	for i := 0; i < 20; i++ {
		if !exec(vals[rng.Intn(len(vals))], ts[rng.Intn(len(ts))]) {
			return
		}
	}
	r.Count("shared_filter_object_executions", int64(steps))
	r.Distinct(cid)
}
