package main

import (
	"context"
	"fmt"
	"math/rand"
	"os"
	"path/filepath"
	"sort"
	"strings"
	"sync"
	"sync/atomic"
	"time"

	"github.com/akrennmair/updog"
	"github.com/akrennmair/updog/internal/convert"
	pb "github.com/akrennmair/updog/proto/updog/v1"
	"github.com/akrennmair/updog/verifharness/gen"
	"github.com/akrennmair/updog/verifharness/ix"
	"github.com/akrennmair/updog/verifharness/mon"
	"github.com/akrennmair/updog/verifharness/oracle"
	"github.com/akrennmair/updog/verifharness/vf"
	"google.golang.org/grpc"
	"google.golang.org/grpc/codes"
	"google.golang.org/grpc/status"
	"google.golang.org/protobuf/encoding/protowire"
	"google.golang.org/protobuf/proto"
)

func init() { register("C14", "exploration", runC14) }

// rawCodec passes request bytes through untouched, so that exactly the bytes
// the harness chose reach the server's decoder.
type rawCodec struct{}

func (rawCodec) Marshal(v any) ([]byte, error) { return *(v.(*[]byte)), nil }
func (rawCodec) Unmarshal(d []byte, v any) error {
	*(v.(*[]byte)) = append([]byte(nil), d...)
	return nil
}
func (rawCodec) Name() string { return "proto" }

// positions lists every expression node of a query (pre-order).
func exprNodes(e *pb.Query_Expression, out *[]*pb.Query_Expression) {
	if e == nil {
		return
	}
	*out = append(*out, e)
	switch v := e.Value.(type) {
	case *pb.Query_Expression_Not_:
		if v.Not != nil {
			exprNodes(v.Not.Expr, out)
		}
	case *pb.Query_Expression_And_:
		if v.And != nil {
			for _, k := range v.And.Exprs {
				exprNodes(k, out)
			}
		}
	case *pb.Query_Expression_Or_:
		if v.Or != nil {
			for _, k := range v.Or.Exprs {
				exprNodes(k, out)
			}
		}
	}
}

// omissionKinds applicable to a node.
var omissionKinds = []string{"empty-expression", "operator-without-message", "no-operands", "empty-operand-appended", "nil-operand-message", "eq-empty-column", "eq-unresolved-placeholder", "eq-unknown-column"}

// omit applies the k-th omission to node n in place; false if not applicable.
func omit(n *pb.Query_Expression, kind string) bool {
	switch kind {
	case "empty-expression":
		n.Value = nil
		return true
	case "operator-without-message":
		switch v := n.Value.(type) {
		case *pb.Query_Expression_Not_:
			v.Not = nil
		case *pb.Query_Expression_And_:
			v.And = nil
		case *pb.Query_Expression_Or_:
			v.Or = nil
		case *pb.Query_Expression_Eq:
			v.Eq = nil
		default:
			return false
		}
		return true
	case "no-operands":
		switch v := n.Value.(type) {
		case *pb.Query_Expression_Not_:
			if v.Not == nil {
				return false
			}
			v.Not.Expr = nil
		case *pb.Query_Expression_And_:
			if v.And == nil {
				return false
			}
			v.And.Exprs = nil
		case *pb.Query_Expression_Or_:
			if v.Or == nil {
				return false
			}
			v.Or.Exprs = nil
		default:
			return false
		}
		return true
	case "empty-operand-appended":
		switch v := n.Value.(type) {
		case *pb.Query_Expression_And_:
			if v.And == nil {
				return false
			}
			v.And.Exprs = append(v.And.Exprs, &pb.Query_Expression{})
		case *pb.Query_Expression_Or_:
			if v.Or == nil {
				return false
			}
			v.Or.Exprs = append([]*pb.Query_Expression{{}}, v.Or.Exprs...)
		case *pb.Query_Expression_Not_:
			if v.Not == nil {
				return false
			}
			v.Not.Expr = &pb.Query_Expression{}
		default:
			return false
		}
		return true
	case "nil-operand-message":
		switch v := n.Value.(type) {
		case *pb.Query_Expression_And_:
			if v.And == nil || len(v.And.Exprs) == 0 {
				return false
			}
			v.And.Exprs[len(v.And.Exprs)-1] = &pb.Query_Expression{Value: &pb.Query_Expression_Not_{}}
		case *pb.Query_Expression_Or_:
			if v.Or == nil || len(v.Or.Exprs) == 0 {
				return false
			}
			v.Or.Exprs[0] = &pb.Query_Expression{Value: &pb.Query_Expression_And_{}}
		default:
			return false
		}
		return true
	case "eq-empty-column", "eq-unresolved-placeholder", "eq-unknown-column":
		v, ok := n.Value.(*pb.Query_Expression_Eq)
		if !ok || v.Eq == nil {
			return false
		}
		switch kind {
		case "eq-empty-column":
			v.Eq.Column = ""
		case "eq-unresolved-placeholder":
			v.Eq.Value, v.Eq.Placeholder = "", 3
		default:
			v.Eq.Column = "no_such_column"
		}
		return true
	}
	return false
}

// wireReachable marshals and unmarshals the request so that only shapes that can
// be decoded from the wire are used (e.g. a oneof wrapper with a nil message
// becomes an empty message).
func wireReachable(req *pb.QueryRequest) (*pb.QueryRequest, []byte, bool) {
	var b []byte
	var err error
	if p, _, _ := vf.Try(func() { b, err = proto.Marshal(req) }); p || err != nil {
		return nil, nil, false
	}
	var out pb.QueryRequest
	if err := proto.Unmarshal(b, &out); err != nil {
		return nil, nil, false
	}
	return &out, b, true
}

type c14Server struct {
	r       *vf.Run
	sp      *serverProc
	conn    *grpc.ClientConn
	probes  []c04Query // well-formed probe queries with known answers, used in rotation
	probeBs [][]byte
	nprobe  int
	reqLog  *os.File
	dead    bool
	codes   map[string]int
}

// send delivers raw request bytes, then a well-formed probe with a known answer.
// The request is written to disk before it is sent, so the killer is known.
func (s *c14Server) send(caseID, class string, req []byte) {
	if s.dead {
		return
	}
	r := s.r
	fmt.Fprintf(s.reqLog, "%s %s %x\n", caseID, class, req)
	ctx, cancel := context.WithTimeout(context.Background(), 60*time.Second)
	var resp []byte
	err := s.conn.Invoke(ctx, pb.QueryService_Query_FullMethodName, &req, &resp, grpc.ForceCodec(rawCodec{}))
	cancel()
	if status.Code(err) == codes.DeadlineExceeded && s.sp.alive() {
		// no answer within 60 s to a request of a kind that takes milliseconds to seconds: once more, alone, with three
		// minutes. "Answered with a response or an RPC error" is the property; a request the server chews on for ever
		// is neither.
		ctx, cancel = context.WithTimeout(context.Background(), 180*time.Second)
		err = s.conn.Invoke(ctx, pb.QueryService_Query_FullMethodName, &req, &resp, grpc.ForceCodec(rawCodec{}))
		cancel()
		if status.Code(err) == codes.DeadlineExceeded {
			_, log := s.sp.stop()
			s.dead = true
			r.Violation(caseID, "request-never-answered", map[string]any{"class": class, "request_hex": fmt.Sprintf("%x", headBytes(req, 4000)), "request_length": len(req),
				"explanation": "no response and no RPC error within 60 s and, sent again, within 180 s; the server process was alive", "server_log": tail(log, 3000)})
			return
		}
	}
	r.Eval(1)
	r.Count("requests_"+class, 1)
	code := status.Code(err).String()
	s.codes[code]++
	w := map[string]any{"class": class, "request_hex": fmt.Sprintf("%x", headBytes(req, 4000)), "request_length": len(req)}
	if err == nil {
		var qr pb.QueryResponse
		if uerr := proto.Unmarshal(resp, &qr); uerr != nil {
			w["problem"] = "response is not a QueryResponse: " + uerr.Error()
			r.Violation(caseID, "bad-response", w)
		}
	}
	// probe (answers take milliseconds; the deadline only bounds the wait when the server is wedged)
	ctx, cancel = context.WithTimeout(context.Background(), 25*time.Second)
	var presp []byte
	pi := s.nprobe % len(s.probes)
	if strings.HasPrefix(class, "wide-operator") && len(s.probes) >= 10 {
		// right after a request with wide operators: one of the two probes that have wide operators themselves
		pi = 8 + s.nprobe%2
	}
	s.nprobe++
	perr := s.conn.Invoke(ctx, pb.QueryService_Query_FullMethodName, &s.probeBs[pi], &presp, grpc.ForceCodec(rawCodec{}))
	cancel()
	r.Count("probes_sent", 1)
	if perr != nil {
		alive := s.sp.alive()
		time.Sleep(200 * time.Millisecond)
		alive = alive && s.sp.alive()
		w["probe_error"] = perr.Error()
		w["hostile_request_status"] = fmt.Sprint(err)
		w["server_process_alive"] = alive
		_, log := s.sp.stop()
		w["server_log"] = tail(log, 6000)
		s.dead = true
		if !alive || status.Code(perr) == codes.Unavailable {
			r.Violation(caseID, "server-crashed", w)
		} else {
			r.Violation(caseID, "probe-failed-after-request", w)
		}
		return
	}
	var pr pb.QueryResponse
	uerr := proto.Unmarshal(presp, &pr)
	pdiff := ""
	if uerr == nil {
		pdiff = compareBatch(&pr, s.probes[pi:pi+1], []int32{99})
	}
	if uerr != nil || pdiff != "" {
		w["probe_response"] = head(pr.String(), 1500)
		w["probe"] = fmt.Sprintf("%s ; %q", s.probes[pi].E.String(), s.probes[pi].GB)
		w["probe_difference"] = pdiff
		r.Violation(caseID, "wrong-probe-answer-after-request", w)
		return
	}
	r.Count("probes_answered_correctly", 1)
}

func headBytes(b []byte, n int) []byte {
	if len(b) > n {
		return b[:n]
	}
	return b
}

func runC14(r *vf.Run) {
	r.Rule("one evaluation = one request: (in process) a wire-reachable message given to convert.ToQuery + Index.Execute under recover, or (real server) raw request bytes delivered through a pass-through gRPC codec, " +
		"each followed by a well-formed probe request with a known answer; the server process must stay alive, keep answering and answer the probe correctly; " +
		"a concurrent phase sends the hostile requests mixed with well-formed queries of known answer from 16 clients at once (default and tiny cache); requests: every single and every pair of structural omissions at every position of valid seed trees, random field combinations, mutated wire encodings, nesting up to the decoder's limit, group-by lists of 7..130, 200 and 500 entries naming one or two low-cardinality columns, long names with multi-byte characters around byte counts 16..4096, slow requests (deep chain, 100 000 operands, 10 000 members) carrying a malformed member, operators of 4..40 operands with one to all operands failing; two of the ten probes are operators of eight and more operands side by side / nested; " +
		"distinct_nontrivial = distinct request byte strings")
	r.Assume("nesting <= protobuf-go's decode recursion limit (10000 messages)", "message size <= gRPC's 4 MiB default", "a response to a malformed-but-decodable query is not checked for content, only that it is a response or an RPC error")
	rng := r.RNG("c14")
	ds := identDataset(rng, "c14", 3000, false)
	for len(ds.Cols) < 2 {
		ds = identDataset(rng, "c14", 3000, false)
	}
	// two columns with few values, for the long group-by lists
	for i, row := range ds.Rows {
		if len(row) > 0 {
			row["lc3"], row["lc2"] = fmt.Sprint(i%3), fmt.Sprint(i%7%2)
		}
	}
	ds.Index()
	dir := filepath.Join(r.Scratch, "c14")
	mustMkdir(dir)
	path := filepath.Join(dir, "c14.updog")
	if err := ix.Build(ix.WriterMemFile, path, ds.Rows); err != nil {
		r.Violation("c14", "build", err.Error())
		return
	}
	cols := ds.ColNames()
	// gbc: the group-by column of the hostile requests. What it groups by is irrelevant to them, but a column with a
	// thousand values costs a thousand lookups per request (at some seeds the first column is such a column and the
	// quick tier took a quarter of an hour)
	gbc := "lc3"
	probeE := oracle.Eq(cols[0], ds.Vals[cols[0]][0])
	probeWant := oracle.Eval(ds.Rows, ds.Cols, probeE, nil).Count
	// well-formed probes with known answers (leaf, NOT, AND/OR, group-by), used in rotation after every hostile request
	var probes []c04Query
	var probeBs [][]byte
	wideProbe := func(nested bool) *oracle.Expr {
		// two operators of eight and more operands each, side by side or one inside the other, whose results are large and
		// different (conjunctions of negated comparisons; one of them narrowed by a positive comparison): if the two
		// nodes were mixed up, the count would change
		negs := func(n int) *oracle.Expr {
			x := &oracle.Expr{Op: '&'}
			for k := 0; k < n; k++ {
				x.Kids = append(x.Kids, oracle.Not(gen.Leaf(rng, ds, cols)))
			}
			return x
		}
		a1, a2 := negs(8), negs(10)
		a2.Kids[0] = oracle.Eq("lc3", "1")
		if nested {
			a1.Kids[3] = oracle.Not(a2)
			return a1
		}
		return oracle.Or(oracle.And(a1, oracle.Eq("lc2", "0")), a2)
	}
	for i := 0; i < 10; i++ {
		e := []*oracle.Expr{probeE, oracle.Not(probeE), gen.Expr(rng, ds, cols, 2, 3), gen.Expr(rng, ds, cols, 3, 2)}[i%4]
		var gb []string
		if i >= 4 {
			gb = gen.GroupBy(rng, ds, 1+i%2, 500)
		}
		if i >= 8 {
			e, gb = wideProbe(i == 9), nil
		}
		q := c04Query{E: e, GB: gb, Want: oracle.Eval(ds.Rows, ds.Cols, e, gb)}
		bts, _ := proto.Marshal(&pb.QueryRequest{Queries: []*pb.Query{{Id: 99, Expr: e.ToProto(), GroupBy: gb}}})
		probes, probeBs = append(probes, q), append(probeBs, bts)
	}
	_ = probeWant

	// seed trees
	var seeds []*oracle.Expr
	a, b, c := gen.Leaf(rng, ds, cols), gen.Leaf(rng, ds, cols), gen.Leaf(rng, ds, cols)
	seeds = append(seeds, a, oracle.Not(a), oracle.And(a, b), oracle.Or(a, b, c), oracle.Not(oracle.And(a, oracle.Or(b, oracle.Not(c)))), oracle.And(oracle.Or(a, b), oracle.Not(oracle.Not(c)), a))
	for i := 0; i < r.Pick(3, 10); i++ {
		seeds = append(seeds, gen.Expr(rng, ds, cols, 3, 3))
	}
	type hostile struct {
		id, class string
		req       *pb.QueryRequest
		raw       []byte
	}
	var reqs []hostile
	addMsg := func(id, class string, req *pb.QueryRequest) {
		if rr, raw, ok := wireReachable(req); ok {
			reqs = append(reqs, hostile{id, class, rr, raw})
		}
	}
	// 1. structural omission sweep: singles and pairs
	for si, seed := range seeds {
		base := &pb.Query{Expr: seed.ToProto(), GroupBy: []string{gbc}}
		var nodes []*pb.Query_Expression
		exprNodes(base.Expr, &nodes)
		addMsg(fmt.Sprintf("omit/s%d/no-expr", si), "omission-single", &pb.QueryRequest{Queries: []*pb.Query{{GroupBy: []string{gbc}}}})
		for p1 := range nodes {
			for _, k1 := range omissionKinds {
				q := proto.Clone(base).(*pb.Query)
				var ns []*pb.Query_Expression
				exprNodes(q.Expr, &ns)
				if !omit(ns[p1], k1) {
					continue
				}
				addMsg(fmt.Sprintf("omit/s%d/p%d-%s", si, p1, k1), "omission-single", &pb.QueryRequest{Queries: []*pb.Query{q}})
				r.Cover("omission_kinds", k1)
				r.Count("omission_positions_covered", 1)
				if len(nodes) > 12 && r.Quick() {
					continue // pairs only for the smaller seeds in the quick tier
				}
				for p2 := p1 + 1; p2 < len(nodes); p2++ {
					for _, k2 := range omissionKinds {
						q2 := proto.Clone(base).(*pb.Query)
						var ns2 []*pb.Query_Expression
						exprNodes(q2.Expr, &ns2)
						// apply the deeper one first so that the shallower omission does not remove it
						if !omit(ns2[p2], k2) || !omit(ns2[p1], k1) {
							continue
						}
						addMsg(fmt.Sprintf("omit/s%d/p%d-%s+p%d-%s", si, p1, k1, p2, k2), "omission-pair", &pb.QueryRequest{Queries: []*pb.Query{q2}})
					}
				}
			}
		}
	}
	// 2. random messages over every field combination (group-by lists over the two columns with the fewest values and over
	// the first column now and then: a list over two columns of a thousand values each costs a million intersections)
	gbCols := append([]string{}, cols...)
	sort.SliceStable(gbCols, func(i, j int) bool { return len(ds.Vals[gbCols[i]]) < len(ds.Vals[gbCols[j]]) })
	gbCols = gbCols[:2]
	for i := 0; i < r.Pick(1500, 15000); i++ {
		addMsg(fmt.Sprintf("random/%d", i), "random-message", randomRequest(rng, cols, gbCols))
	}
	// 2b. very many queries in one request; ids far outside the batch size
	{
		many := &pb.QueryRequest{}
		for i := 0; i < 5000; i++ {
			many.Queries = append(many.Queries, &pb.Query{Id: int32(i * 7919), Expr: a.ToProto()})
		}
		addMsg("many/5000-queries", "many-queries", many)
		neg := &pb.QueryRequest{}
		for i := 0; i < 40; i++ {
			neg.Queries = append(neg.Queries, &pb.Query{Id: int32(-i * 1000003), Expr: b.ToProto(), GroupBy: []string{gbc, gbc, gbc, gbc, gbc, gbc}})
		}
		addMsg("many/negative-ids-repeated-groupby", "many-queries", neg)
		gbs := &pb.QueryRequest{Queries: []*pb.Query{{Expr: a.ToProto(), GroupBy: make([]string, 3000)}, {Expr: a.ToProto(), GroupBy: []string{"", gbc, ""}}}}
		addMsg("many/3000-empty-groupby-columns", "many-queries", gbs)
	}
	// 2c. operators with every operand count up to 140 and around powers of two (fixed-size buffers somewhere?)
	for _, n := range append(seqInts(0, 140), 255, 256, 257, 511, 512, 513, 1023, 1024, 1025, 4096) {
		for _, op := range []byte{'&', '|'} {
			e := &oracle.Expr{Op: op}
			for k := 0; k < n; k++ {
				e.Kids = append(e.Kids, []*oracle.Expr{a, b, c, oracle.Not(a)}[k%4])
			}
			var pe *pb.Query_Expression
			if n == 0 {
				if op == '&' {
					pe = &pb.Query_Expression{Value: &pb.Query_Expression_And_{And: &pb.Query_Expression_And{}}}
				} else {
					pe = &pb.Query_Expression{Value: &pb.Query_Expression_Or_{Or: &pb.Query_Expression_Or{}}}
				}
			} else {
				pe = e.ToProto()
			}
			addMsg(fmt.Sprintf("arity/%c%d", op, n), "operand-count", &pb.QueryRequest{Queries: []*pb.Query{{Expr: pe}, {Expr: &pb.Query_Expression{Value: &pb.Query_Expression_Not_{Not: &pb.Query_Expression_Not{Expr: pe}}}, GroupBy: []string{gbc}}}})
		}
	}
	// 2d. complete, evaluable expressions whose group-by list names unknown columns (the request fails as a whole;
	// what it leaves behind must not disturb the group-by probes that follow)
	for i, gb := range [][]string{{"nosuch"}, {gbc, "nosuch"}, {""}, {"nosuch", gbc}, {gbc, gbc, "NOSUCH"}} {
		addMsg(fmt.Sprintf("unknown-groupby/%d", i), "unknown-groupby", &pb.QueryRequest{Queries: []*pb.Query{{Expr: a.ToProto(), GroupBy: gb}}})
		addMsg(fmt.Sprintf("unknown-groupby/%d-second", i), "unknown-groupby", &pb.QueryRequest{Queries: []*pb.Query{{Expr: b.ToProto(), GroupBy: []string{gbc}}, {Expr: oracle.Not(a).ToProto(), GroupBy: gb}}})
	}
	// 2e. long group-by lists naming the same one or two low-cardinality columns again and again (cheap to evaluate: the
	// groups do not multiply; whatever is sized by the product of the value counts overflows)
	{
		byCard := append([]string{}, cols...)
		sort.SliceStable(byCard, func(i, j int) bool { return len(ds.Vals[byCard[i]]) < len(ds.Vals[byCard[j]]) })
		var low []string
		for _, c := range byCard {
			if len(ds.Vals[c]) >= 2 && len(ds.Vals[c]) <= 40 && len(low) < 3 {
				low = append(low, c)
			}
		}
		r.Extra("long_groupby_columns_cardinalities", func() (l []int) {
			for _, c := range low {
				l = append(l, len(ds.Vals[c]))
			}
			return
		}())
		for ci, c := range low {
			for _, n := range append(seqInts(7, 130), 200, 500) {
				gb := make([]string, n)
				for i := range gb {
					gb[i] = c
					if ci >= 1 && i%2 == 1 {
						gb[i] = low[0]
					}
				}
				addMsg(fmt.Sprintf("long-groupby/c%d/n%d", ci, n), "long-groupby", &pb.QueryRequest{Queries: []*pb.Query{{Expr: a.ToProto(), GroupBy: gb}}})
			}
		}
	}
	// 2f. long names with multi-byte characters around typical truncation lengths, as group-by column, as column and as
	// value of a comparison (whatever cuts a string at a byte count cuts some of these inside a character)
	for _, bnd := range []int{16, 32, 64, 128, 255, 256, 1024, 4096} {
		for off := -4; off <= 1; off++ {
			for ri, tail := range []string{"é", "日本", "\U0001d4b3"} {
				name := strings.Repeat("a", bnd+off) + strings.Repeat(tail, 12)
				id := fmt.Sprintf("long-name/b%d%+d/r%d", bnd, off, ri)
				switch (bnd + off + ri) % 3 {
				case 0:
					addMsg(id+"/group-by", "long-name", &pb.QueryRequest{Queries: []*pb.Query{{Expr: a.ToProto(), GroupBy: []string{name}}}})
				case 1:
					addMsg(id+"/column", "long-name", &pb.QueryRequest{Queries: []*pb.Query{{Expr: oracle.Eq(name, "x").ToProto(), GroupBy: []string{gbc, name}}}})
				default:
					addMsg(id+"/value", "long-name", &pb.QueryRequest{Queries: []*pb.Query{{Expr: oracle.And(a, oracle.Not(oracle.Eq(gbc, name))).ToProto(), GroupBy: []string{name + "z"}}}})
				}
			}
		}
	}
	// 2g. one request that keeps the server busy for a while (a deep chain, a very wide operator, thousands of members)
	// AND carries a malformed member: whatever the server does with slow requests must cope with their rejected parts
	{
		deep := a.ToProto()
		for i := 0; i < 4000; i++ {
			deep = &pb.Query_Expression{Value: &pb.Query_Expression_Not_{Not: &pb.Query_Expression_Not{Expr: deep}}}
		}
		wide := &oracle.Expr{Op: '|'}
		for i := 0; i < 100000; i++ {
			wide.Kids = append(wide.Kids, []*oracle.Expr{a, b, c}[i%3])
		}
		var many []*pb.Query
		for i := 0; i < 10000; i++ {
			many = append(many, &pb.Query{Id: int32(i + 1), Expr: []*oracle.Expr{a, b, c}[i%3].ToProto(), GroupBy: []string{gbc}})
		}
		slow := map[string][]*pb.Query{"deep-chain": {{Expr: deep}}, "wide-or": {{Expr: wide.ToProto()}}, "ten-thousand-members": many}
		bad := map[string]*pb.Query{
			"no-expr":             {GroupBy: []string{gbc}},
			"not-without-operand": {Expr: &pb.Query_Expression{Value: &pb.Query_Expression_Not_{Not: &pb.Query_Expression_Not{}}}},
			"empty-expression":    {Expr: &pb.Query_Expression{}},
			"eq-unset-inside-and": {Expr: &pb.Query_Expression{Value: &pb.Query_Expression_And_{And: &pb.Query_Expression_And{Exprs: []*pb.Query_Expression{a.ToProto(), {}}}}}},
			"unknown-column":      {Expr: oracle.Eq("nosuchcolumn", "1").ToProto()},
		}
		for sn, sq := range slow {
			for bn, bq := range bad {
				addMsg(fmt.Sprintf("slow-then-bad/%s/%s", sn, bn), "slow-request-with-malformed-member", &pb.QueryRequest{Queries: append(append([]*pb.Query{}, sq...), bq)})
				addMsg(fmt.Sprintf("bad-then-slow/%s/%s", sn, bn), "slow-request-with-malformed-member", &pb.QueryRequest{Queries: append([]*pb.Query{bq}, sq...)})
			}
		}
	}
	// 2h. wide operators (4 to 40 operands) in which one, two or more operands fail (unknown column, unset comparison,
	// empty expression), at the start, in the middle and at the end, plain and below deep NOT chains; each three times
	// (whatever evaluates operands side by side sees the failures in another order each time)
	{
		failing := func(kind, depth int) *pb.Query_Expression {
			var f *pb.Query_Expression
			switch kind % 3 {
			case 0:
				f = oracle.Eq(fmt.Sprintf("nosuch%d", kind), "x").ToProto()
			case 1:
				f = &pb.Query_Expression{}
			default:
				f = &pb.Query_Expression{Value: &pb.Query_Expression_Not_{Not: &pb.Query_Expression_Not{}}}
			}
			for i := 0; i < depth; i++ {
				f = &pb.Query_Expression{Value: &pb.Query_Expression_Not_{Not: &pb.Query_Expression_Not{Expr: f}}}
			}
			return f
		}
		for _, n := range []int{4, 5, 8, 9, 16, 17, 40} {
			for _, fails := range []int{1, 2, 3, n} {
				for _, depth := range []int{0, 300} {
					for rep := 0; rep < 3; rep++ {
						var ops []*pb.Query_Expression
						for k := 0; k < n; k++ {
							ops = append(ops, []*oracle.Expr{a, b, c}[k%3].ToProto())
						}
						for f := 0; f < fails && f < n; f++ {
							pos := []int{n - 1, 0, n / 2}[f%3]
							if fails == n {
								pos = f
							}
							kind := f + rep
							if rep != 1 {
								kind = 3 * (f + rep) // every failing operand names an unknown column: all of them fail at evaluation time
							}
							ops[pos] = failing(kind, depth)
						}
						var pe *pb.Query_Expression
						if (n+fails+rep)%2 == 0 {
							pe = &pb.Query_Expression{Value: &pb.Query_Expression_And_{And: &pb.Query_Expression_And{Exprs: ops}}}
						} else {
							pe = &pb.Query_Expression{Value: &pb.Query_Expression_Or_{Or: &pb.Query_Expression_Or{Exprs: ops}}}
						}
						addMsg(fmt.Sprintf("wide-failing/n%d/f%d/d%d/r%d", n, fails, depth, rep), "wide-operator-with-failing-operands", &pb.QueryRequest{Queries: []*pb.Query{{Expr: pe, GroupBy: []string{gbc}}}})
					}
				}
			}
		}
	}
	// 2b. (round 6) well-formed requests of ordinary shapes whose values do or do not occur in the index: comparisons,
	// value lists (OR / AND of comparisons of ONE column, 2..6 values), the same over two columns, each plain, below NOT
	// and with a group-by list, for every pattern of present and absent values. Nothing about them is malformed; a
	// server (also one that preloads, also one with a cache) answers them and goes on.
	{
		c0, c1 := cols[0], cols[len(cols)-1]
		val := func(col string, present bool, k int) string {
			if present && len(ds.Vals[col]) > 0 {
				return ds.Vals[col][k%len(ds.Vals[col])]
			}
			return fmt.Sprintf("absent value %d", k)
		}
		for n := 1; n <= 6; n++ {
			for pat := 0; pat < 1<<uint(n) && pat < 16; pat++ {
				// bit k of pat: the k-th value is present
				for shape := 0; shape < 6; shape++ {
					var ops []*oracle.Expr
					for k := 0; k < n; k++ {
						col := c0
						if shape >= 4 && k%2 == 1 {
							col = c1
						}
						ops = append(ops, oracle.Eq(col, val(col, pat&(1<<uint(k)) != 0, k)))
					}
					var e *oracle.Expr
					switch shape % 4 {
					case 0:
						e = oracle.Or(ops...)
					case 1:
						e = oracle.And(ops...)
					case 2:
						e = oracle.Not(oracle.Or(ops...))
					default:
						e = oracle.And(oracle.Or(ops...), oracle.Not(ops[0]))
					}
					var gb []string
					if (n+pat+shape)%3 == 0 {
						gb = []string{"lc3"}
					}
					addMsg(fmt.Sprintf("value-list/n%d/p%d/s%d", n, pat, shape), "well-formed-value-list", &pb.QueryRequest{Queries: []*pb.Query{{Expr: e.ToProto(), GroupBy: gb}}})
				}
			}
		}
	}
	// 2c. (round 7) unknown names that are NEAR the names of the schema: one multi-byte character inserted at, or put in
	// place of, every position of every column name (2-, 3- and 4-byte characters, an invalid byte cannot travel), and the
	// same with an ASCII typo, as comparison column and as group-by entry. Whatever the server does with a name it does
	// not know (suggestions, metrics labels, log lines), it answers with an error and goes on.
	{
		seen := map[string]bool{}
		k := 0
		for _, c := range cols {
			for pos := 0; pos <= len(c); pos++ {
				for _, ins := range []string{"ö", "国", "😀", "x", ""} {
					for _, replace := range []bool{false, true} {
						if replace && pos == len(c) {
							continue
						}
						name := c[:pos] + ins + c[pos:]
						if replace {
							name = c[:pos] + ins + c[pos+1:]
						}
						if seen[name] || ds.Cols[name] {
							continue
						}
						seen[name] = true
						k++
						q := &pb.Query{Expr: oracle.Eq(name, "x").ToProto()}
						switch k % 3 {
						case 1:
							q = &pb.Query{Expr: a.ToProto(), GroupBy: []string{name}}
						case 2:
							q = &pb.Query{Expr: oracle.And(a, oracle.Not(oracle.Eq(name, "x"))).ToProto(), GroupBy: []string{gbc, name}}
						}
						addMsg(fmt.Sprintf("near-name/%d", k), "unknown-name-near-a-column", &pb.QueryRequest{Queries: []*pb.Query{q}})
					}
				}
			}
		}
	}
	// 3. deep nesting up to the decoder's limit
	for _, depth := range []int{100, 2000, 4900, 5100, 9000} {
		e := &pb.Query_Expression{Value: &pb.Query_Expression_Eq{Eq: &pb.Query_Expression_Equal{Column: cols[0], Value: "x"}}}
		for i := 0; i < depth; i++ {
			e = &pb.Query_Expression{Value: &pb.Query_Expression_Not_{Not: &pb.Query_Expression_Not{Expr: e}}}
		}
		raw, err := proto.Marshal(&pb.QueryRequest{Queries: []*pb.Query{{Expr: e}}})
		if err == nil {
			reqs = append(reqs, hostile{fmt.Sprintf("deep/%d", depth), "deep-nesting", nil, raw})
		}
		// and a chain that ends in an empty expression
		e2 := &pb.Query_Expression{}
		for i := 0; i < depth; i++ {
			e2 = &pb.Query_Expression{Value: &pb.Query_Expression_And_{And: &pb.Query_Expression_And{Exprs: []*pb.Query_Expression{e2}}}}
		}
		if raw, err := proto.Marshal(&pb.QueryRequest{Queries: []*pb.Query{{Expr: e2}}}); err == nil {
			reqs = append(reqs, hostile{fmt.Sprintf("deep-empty/%d", depth), "deep-nesting", nil, raw})
		}
	}
	// 4. raw wire mutations of valid encodings
	nraw := r.Pick(1500, 20000)
	var valids [][]byte
	for _, s := range seeds {
		bts, _ := proto.Marshal(&pb.QueryRequest{Queries: []*pb.Query{{Id: 3, Expr: s.ToProto(), GroupBy: []string{gbc}}, {Expr: a.ToProto()}}})
		valids = append(valids, bts)
	}
	for i := 0; i < nraw; i++ {
		reqs = append(reqs, hostile{fmt.Sprintf("raw/%d", i), "raw-mutation", nil, mutateWire(rng, valids[rng.Intn(len(valids))])})
	}
	for i, raw := range [][]byte{{}, {0x0a, 0x00}, {0x0a, 0x02, 0x12, 0x00}, {0x0a, 0x04, 0x12, 0x02, 0x12, 0x00}, {0x0a, 0x04, 0x12, 0x02, 0x1a, 0x00}, {0x0a, 0x06, 0x12, 0x04, 0x1a, 0x02, 0x0a, 0x00}, {0xff, 0xff, 0xff}, {0x0a}, {0x0a, 0x7f}} {
		reqs = append(reqs, hostile{fmt.Sprintf("fixed/%d", i), "fixed-bytes", nil, raw})
	}

	// in process: ToQuery + Execute under recover for every decodable message
	idx, err := ix.Open(path, ix.OpenOnDemand, updog.NewLRUCache(1<<20))
	if err != nil {
		r.Violation("c14", "open", err.Error())
		return
	}
	idxPre, err := ix.Open(path, ix.OpenPreloaded, nil)
	if err != nil {
		r.Violation("c14", "open", err.Error())
		return
	}
	defer idxPre.Close()
	inprocStuck := false
	for _, h := range reqs {
		if inprocStuck {
			break
		}
		if !r.Want("inproc/" + h.id) {
			continue
		}
		if h.req != nil && (h.class == "well-formed-value-list" || h.class == "wide-operator-with-failing-operands" || h.class == "unknown-name-near-a-column") {
			// the same message on a preloaded index without cache (the other open configuration of the server)
			for _, pq := range h.req.Queries {
				r.Eval(1)
				r.Count("inprocess_messages_on_preloaded_index", 1)
				if p, msg, stack := vf.Try(func() {
					if res, err := idxPre.Execute(convert.ToQuery(pq)); err == nil {
						_ = convert.ToProtobufResult(res, 1)
					}
				}); p {
					r.Violation("inproc-preloaded/"+h.id, "panic", map[string]any{"class": h.class, "message": head(pq.String(), 2000), "panic": msg, "stack": head(stack, 3000), "index": "preloaded, no cache"})
					break
				}
			}
		}
		req := h.req
		if req == nil {
			req = &pb.QueryRequest{}
			if err := proto.Unmarshal(h.raw, req); err != nil {
				r.Count("inprocess_undecodable", 1)
				continue
			}
		}
		for _, pq := range req.Queries {
			r.Eval(1)
			r.Count("inprocess_messages", 1)
			type outcome struct {
				p          bool
				msg, stack string
			}
			doneCh := make(chan outcome, 1)
			go func() {
				var o outcome
				o.p, o.msg, o.stack = vf.Try(func() {
					q := convert.ToQuery(pq)
					res, err := idx.Execute(q)
					if err == nil {
						_ = convert.ToProtobufResult(res, 1)
					}
				})
				doneCh <- o
			}()
			var o outcome
			select {
			case o = <-doneCh:
			case <-time.After(45 * time.Second):
				// bounded progress: a request that never finishes is judged by where its goroutine is parked
				stacks := joinStacks(mon.Stacks("akrennmair/updog."))
				if c := mon.ClassifyDump(stacks); c != "" {
					r.Violation("inproc/"+h.id, "request-never-finishes", map[string]any{"class": h.class, "message": head(pq.String(), 2000), "blocked": c, "stacks": head(stacks, 6000),
						"explanation": "convert.ToQuery + Index.Execute did not return; an earlier request may have left a lock held"})
				} else {
					r.Inconclusive("in-process request " + h.id + " still computing after 45 s")
				}
				inprocStuck = true
			}
			if inprocStuck {
				break
			}
			if p, msg, stack := o.p, o.msg, o.stack; p {
				r.Count("inprocess_panics", 1)
				if r.GetCount("inprocess_panics") > 20 {
					break // enough witnesses of this kind; keep counting
				}
				r.Violation("inproc/"+h.id, "panic", map[string]any{"class": h.class, "message": head(pq.String(), 2000), "request_hex": fmt.Sprintf("%x", headBytes(h.raw, 2000)), "panic": msg, "stack": head(stack, 3000)})
				break
			}
		}
		r.Distinct(string(h.raw))
	}
	if !inprocStuck {
		idx.Close()
	}

	// the real server
	if !haveBin("updog") {
		r.Inconclusive("updog binary not built")
		return
	}
	for _, so := range [][]string{nil, {"--enable-cache=false", "-p"}} {
		name := "default"
		if so != nil {
			name = "nocache-preload"
		}
		if !r.Want("server/" + name) {
			continue
		}
		r.Progress("server/" + name)
		sp, err := startServer(r, binPath("updog"), path, so, nil)
		if err != nil {
			r.Inconclusive("server/" + name + ": " + err.Error())
			continue
		}
		conn, _, err := dial(sp.addr)
		if err != nil {
			sp.stop()
			r.Inconclusive("dial: " + err.Error())
			continue
		}
		logf, _ := os.Create(filepath.Join(dir, "requests-"+name+".log"))
		srv := &c14Server{r: r, sp: sp, conn: conn, probes: probes, probeBs: probeBs, reqLog: logf, codes: map[string]int{}}
		for _, h := range reqs {
			id := "server/" + name + "/" + h.id
			if !r.Want(id) {
				continue
			}
			if so != nil && (h.class == "omission-pair" || h.class == "random-message") && r.Quick() {
				continue // second configuration: a lighter pass in the quick tier
			}
			if len(h.raw) > 3<<20 {
				continue
			}
			srv.send(id, h.class, h.raw)
			if srv.dead {
				break
			}
		}
		// (round 8) impatient callers: large batches whose deadline (1..40 ms, or already past) runs out while the server
		// is still working on them, in turn with requests it rejects; then a probe. Failures of different kinds in one
		// server lifetime (rejected, cancelled, expired) must not add up to a crash.
		if iid := "server/" + name + "/impatient"; !srv.dead && r.Want(iid) {
			big := &pb.QueryRequest{}
			for i := 0; i < 4000; i++ {
				big.Queries = append(big.Queries, &pb.Query{Expr: probes[i%len(probes)].E.ToProto(), GroupBy: probes[i%len(probes)].GB})
			}
			bigRaw, _ := proto.Marshal(big)
			rejRaw, _ := proto.Marshal(&pb.QueryRequest{Queries: []*pb.Query{{Expr: oracle.Eq("no_such_column", "x").ToProto()}}})
			for i := 0; i < 60 && sp.alive(); i++ {
				d := time.Duration([]int{1, 3, 8, 20, 40, 0}[i%6]) * time.Millisecond
				ctx, cancel := context.WithTimeout(context.Background(), d)
				var resp []byte
				_ = conn.Invoke(ctx, pb.QueryService_Query_FullMethodName, &bigRaw, &resp, grpc.ForceCodec(rawCodec{}))
				cancel()
				ctx, cancel = context.WithTimeout(context.Background(), 20*time.Second)
				_ = conn.Invoke(ctx, pb.QueryService_Query_FullMethodName, &rejRaw, &resp, grpc.ForceCodec(rawCodec{}))
				cancel()
				r.Eval(2)
				r.Count("requests_abandoned_by_their_deadline", 1)
			}
			time.Sleep(300 * time.Millisecond) // abandoned handlers find their context expired about now
			srv.send(iid, "after-impatient-callers", probeBs[0])
		}
		conn.Close()
		logf.Close()
		if !srv.dead {
			alive := sp.alive()
			_, log := sp.stop()
			if !alive || strings.Contains(log, "panic:") || strings.Contains(log, "fatal error:") {
				r.Violation("server/"+name, "server-died", map[string]any{"log": tail(log, 8000)})
			}
			r.Count("server_restarts_needed", 0)
		}
		r.Extra("rpc_status_histogram_"+name, srv.codes)
		r.Cover("server_configurations", name)
	}
	// concurrent phase: 16 clients at once send well-formed queries with known answers (many of them new to the cache)
	// mixed with the hostile requests; the server must survive, answer the well-formed ones correctly, and answer the
	// probes afterwards
	var fresh []c04Query
	for i := 0; i < 400; i++ {
		e := gen.Expr(rng, ds, cols, 1+rng.Intn(3), 3)
		var gb []string
		if i%4 == 0 {
			gb = gen.GroupBy(rng, ds, 1, 300)
		}
		if q := (c04Query{E: e, GB: gb, Want: oracle.Eval(ds.Rows, ds.Cols, e, gb)}); !q.Want.Err {
			fresh = append(fresh, q)
		}
	}
	var small []hostile
	for _, h := range reqs {
		if len(h.raw) < 20000 && h.class != "many-queries" && h.class != "long-groupby" && h.class != "slow-request-with-malformed-member" {
			small = append(small, h)
		}
	}
	for _, so := range [][]string{nil, {"-s", "2000"}} {
		name := "concurrent/default"
		if so != nil {
			name = "concurrent/tiny-cache"
		}
		if !r.Want(name) || len(fresh) == 0 {
			continue
		}
		r.Progress(name)
		sp, err := startServer(r, binPath("updog"), path, so, nil)
		if err != nil {
			r.Inconclusive(name + ": " + err.Error())
			continue
		}
		logf, _ := os.Create(filepath.Join(dir, "requests-"+strings.ReplaceAll(name, "/", "-")+".log"))
		var logMu sync.Mutex
		var wg sync.WaitGroup
		var bad atomic.Int64
		var sent, hostileSent, answered atomic.Int64
		per := r.Pick(250, 1500)
		for g := 0; g < 16; g++ {
			wg.Add(1)
			go func(g int) {
				defer wg.Done()
				rng := r.RNG(fmt.Sprintf("%s/g%d", name, g))
				conn, _, err := dial(sp.addr)
				if err != nil {
					return
				}
				defer conn.Close()
				for i := 0; i < per && bad.Load() == 0; i++ {
					var raw []byte
					var q *c04Query
					if rng.Intn(4) == 0 {
						raw = small[rng.Intn(len(small))].raw
						hostileSent.Add(1)
					} else {
						q = &fresh[rng.Intn(len(fresh))]
						raw, _ = proto.Marshal(&pb.QueryRequest{Queries: []*pb.Query{{Id: 99, Expr: q.E.ToProto(), GroupBy: q.GB}}})
					}
					logMu.Lock()
					fmt.Fprintf(logf, "g%d #%d %x\n", g, i, headBytes(raw, 3000))
					logMu.Unlock()
					ctx, cancel := context.WithTimeout(context.Background(), 60*time.Second)
					var resp []byte
					err := conn.Invoke(ctx, pb.QueryService_Query_FullMethodName, &raw, &resp, grpc.ForceCodec(rawCodec{}))
					cancel()
					sent.Add(1)
					if q == nil {
						if c := status.Code(err); c == codes.Unavailable || c == codes.DeadlineExceeded {
							if bad.Add(1) == 1 {
								time.Sleep(300 * time.Millisecond)
								r.Violation(name, "server-crashed", map[string]any{"client": g, "request_of_client": i, "error": err.Error(), "server_process_alive": sp.alive(), "request_hex": fmt.Sprintf("%x", headBytes(raw, 2000)),
									"note": "16 clients at once; the request log of this phase names what was in flight"})
							}
							return
						}
						continue
					}
					problem := ""
					if err != nil {
						problem = "well-formed query failed: " + err.Error()
					} else {
						var pr pb.QueryResponse
						if uerr := proto.Unmarshal(resp, &pr); uerr != nil {
							problem = "response is not a QueryResponse: " + uerr.Error()
						} else {
							problem = compareBatch(&pr, []c04Query{*q}, []int32{99})
						}
					}
					if problem != "" {
						if bad.Add(1) == 1 {
							time.Sleep(300 * time.Millisecond)
							kind := "wrong-answer-under-concurrent-requests"
							if !sp.alive() || status.Code(err) == codes.Unavailable {
								kind = "server-crashed"
							}
							r.Violation(name, kind, map[string]any{"client": g, "request_of_client": i, "query": fmt.Sprintf("%s ; %q", q.E.String(), q.GB), "problem": problem, "server_process_alive": sp.alive()})
						}
						return
					}
					answered.Add(1)
				}
			}(g)
		}
		wg.Wait()
		logf.Close()
		r.Eval(int(sent.Load()))
		r.Distinct(name)
		r.Count("concurrent_requests", sent.Load())
		r.Count("concurrent_hostile_requests", hostileSent.Load())
		r.Count("concurrent_well_formed_answered_correctly", answered.Load())
		if bad.Load() == 0 {
			// the probes afterwards, one at a time
			conn, _, err := dial(sp.addr)
			if err == nil {
				plog, _ := os.Create(filepath.Join(dir, "requests-"+strings.ReplaceAll(name, "/", "-")+"-probes.log"))
				srv := &c14Server{r: r, sp: sp, conn: conn, probes: probes, probeBs: probeBs, reqLog: plog, codes: map[string]int{}}
				for i := 0; i < len(probeBs) && !srv.dead; i++ {
					srv.send(fmt.Sprintf("%s/probe-after/%d", name, i), "after-concurrent-phase", probeBs[i%len(probeBs)])
				}
				conn.Close()
				plog.Close()
				if srv.dead {
					continue
				}
			}
		}
		alive := sp.alive()
		_, log := sp.stop()
		if bad.Load() == 0 && (!alive || strings.Contains(log, "panic:") || strings.Contains(log, "fatal error:")) {
			r.Violation(name, "server-died", map[string]any{"log": tail(log, 8000)})
		} else if bad.Load() > 0 {
			r.Extra("server_log_"+strings.ReplaceAll(name, "/", "_"), tail(log, 4000))
		}
		r.Cover("concurrent_phase_configurations", name)
	}
	r.Sample("requests", map[string]any{"classes": map[string]int{"total": len(reqs)}, "example_omission": reqs[1].id, "example_hex": fmt.Sprintf("%x", headBytes(reqs[1].raw, 200))})
	c14Stderr(r, path, probes)
	r.Floor("every omission kind applied", r.Covered("omission_kinds") == len(omissionKinds))
	r.Floor("probes answered", r.GetCount("probes_answered_correctly") > 100)
	if r.Thorough() {
		r.Floor(">= 1000 raw mutations", r.GetCount("requests_raw-mutation") >= 1000)
	}
}

// randomRequest builds a message where every field may be set or unset.
func randomRequest(rng *rand.Rand, cols []string, gbCols []string) *pb.QueryRequest {
	req := &pb.QueryRequest{}
	n := rng.Intn(4)
	for i := 0; i < n; i++ {
		q := &pb.Query{Id: []int32{-1, 0, 1, 2, 3, 2147483647, -2147483648, 1000000, 65536}[rng.Intn(9)]}
		if rng.Intn(6) != 0 {
			q.Expr = randomPBExpr(rng, cols, 0)
		}
		for k := rng.Intn(3); k > 0; k-- {
			q.GroupBy = append(q.GroupBy, []string{gbCols[0], "", "nosuch", gbCols[len(gbCols)-1]}[rng.Intn(4)])
		}
		req.Queries = append(req.Queries, q)
	}
	return req
}

func randomPBExpr(rng *rand.Rand, cols []string, depth int) *pb.Query_Expression {
	if depth > 5 {
		return &pb.Query_Expression{}
	}
	switch rng.Intn(9) {
	case 0:
		return &pb.Query_Expression{}
	case 1:
		return nil
	case 2, 3:
		e := &pb.Query_Expression_Equal{}
		if rng.Intn(4) != 0 {
			e.Column = append(cols, "", "zz")[rng.Intn(len(cols)+2)]
		}
		if rng.Intn(2) == 0 {
			e.Value = fmt.Sprint(rng.Intn(5))
		}
		if rng.Intn(4) == 0 {
			e.Placeholder = int32(rng.Intn(7)) - 2
		}
		if rng.Intn(10) == 0 {
			return &pb.Query_Expression{Value: &pb.Query_Expression_Eq{}}
		}
		return &pb.Query_Expression{Value: &pb.Query_Expression_Eq{Eq: e}}
	case 4:
		if rng.Intn(5) == 0 {
			return &pb.Query_Expression{Value: &pb.Query_Expression_Not_{}}
		}
		return &pb.Query_Expression{Value: &pb.Query_Expression_Not_{Not: &pb.Query_Expression_Not{Expr: randomPBExpr(rng, cols, depth+1)}}}
	case 5, 6:
		a := &pb.Query_Expression_And{}
		for k := rng.Intn(4); k > 0; k-- {
			if x := randomPBExpr(rng, cols, depth+1); x != nil {
				a.Exprs = append(a.Exprs, x)
			}
		}
		return &pb.Query_Expression{Value: &pb.Query_Expression_And_{And: a}}
	default:
		o := &pb.Query_Expression_Or{}
		for k := rng.Intn(4); k > 0; k-- {
			if x := randomPBExpr(rng, cols, depth+1); x != nil {
				o.Exprs = append(o.Exprs, x)
			}
		}
		return &pb.Query_Expression{Value: &pb.Query_Expression_Or_{Or: o}}
	}
}

// mutateWire edits a valid encoding: truncation, byte flips, length and field
// number edits, inserted unknown fields, duplicated fragments.
func mutateWire(rng *rand.Rand, valid []byte) []byte {
	b := append([]byte{}, valid...)
	for k := 1 + rng.Intn(3); k > 0; k-- {
		if len(b) == 0 {
			break
		}
		switch rng.Intn(8) {
		case 0:
			b = b[:rng.Intn(len(b))]
		case 1:
			b[rng.Intn(len(b))] = byte(rng.Intn(256))
		case 2:
			i := rng.Intn(len(b))
			b[i] ^= 1 << uint(rng.Intn(8))
		case 3: // insert an unknown field
			i := rng.Intn(len(b) + 1)
			extra := protowire.AppendTag(nil, protowire.Number(5+rng.Intn(20)), protowire.VarintType)
			extra = protowire.AppendVarint(extra, uint64(rng.Intn(1000)))
			b = append(b[:i:i], append(extra, b[i:]...)...)
		case 4: // duplicate a fragment
			i := rng.Intn(len(b))
			j := i + rng.Intn(len(b)-i)
			b = append(b[:j:j], append(append([]byte{}, b[i:j]...), b[j:]...)...)
		case 5: // wrap: the whole request again as a nested query field
			w := protowire.AppendTag(nil, 1, protowire.BytesType)
			w = protowire.AppendBytes(w, b)
			b = w
		case 6: // zero out a length byte candidate
			i := rng.Intn(len(b))
			b[i] = 0
		default: // drop a byte
			i := rng.Intn(len(b))
			b = append(b[:i:i], b[i+1:]...)
		}
	}
	return b
}

func seqInts(from, to int) []int {
	var l []int
	for i := from; i <= to; i++ {
		l = append(l, i)
	}
	return l
}
