package main

import (
	"encoding/json"
	"fmt"
	"os"
	"path/filepath"
	"sort"
	"strconv"
	"strings"
	"sync"
	"time"

	"github.com/akrennmair/updog"
	"github.com/akrennmair/updog/verifharness/ix"
	"github.com/akrennmair/updog/verifharness/oracle"
	"github.com/akrennmair/updog/verifharness/vf"
	"go.etcd.io/bbolt"
)

func init() { workers["c18-tiny"] = workerC18Tiny }

type c18TinyFailure struct {
	Run     int      `json:"run"`
	Problem string   `json:"problem"`
	IDs     []string `json:"ids_in_call_order_per_goroutine"`
}

type c18TinySummary struct {
	Runs          int              `json:"runs"`
	Rows          int              `json:"rows"`
	Interleavings int              `json:"distinct_interleavings"`
	Interleaved   int              `json:"runs_with_interleaved_goroutines"`
	Failures      []c18TinyFailure `json:"failures"`
}

// workerC18Tiny: very many very short histories (G goroutines x K rows, started together), each verified completely
// in this process: ids are exactly 0..n-1 and every row's tag is found exactly once, on a row of its own with all its
// values, in the flushed index. Windows of a few instructions at the END of a history (a row handed to another
// goroutine that has just stopped looking) show only when a history ends, so there must be many ends, and the
// goroutines of a history must really run at the same time: with batch > 1 that many histories run back to back (no
// I/O in between, the processors stay hot) and are flushed and verified afterwards; with batch = 1 every history is
// flushed the moment its last AddRow returned.
// args: writer runs goroutines rows-per-goroutine batch dir
func workerC18Tiny(args []string) int {
	writer := args[0]
	runs, _ := strconv.Atoi(args[1])
	G, _ := strconv.Atoi(args[2])
	K, _ := strconv.Atoi(args[3])
	batch, _ := strconv.Atoi(args[4])
	dir := args[5]
	sum := c18TinySummary{}
	sigs := map[string]bool{}
	// the in-memory writer writes into ONE long-lived bbolt database (WriteToBoltDatabase), emptied after every history
	var memDB *bbolt.DB
	if writer == "mem" {
		var err error
		if memDB, err = bbolt.Open(filepath.Join(dir, "tiny-mem.updog"), 0o644, &bbolt.Options{Timeout: 10 * time.Second, NoSync: true, NoFreelistSync: true}); err != nil {
			fmt.Fprintln(os.Stderr, err)
			return 3
		}
		defer memDB.Close()
	} else {
		batch = 1
	}
	type hist struct {
		run     int
		ids     [][]uint32
		errs    []string
		flush   func() error
		open    func() (*updog.Index, error)
		cleanup func(idx *updog.Index)
	}
	n := G * K
	for done := 0; done < runs && len(sum.Failures) < 3; {
		var hs []*hist
		for b := 0; b < batch && done < runs; b++ {
			run := done
			done++
			h := &hist{run: run, ids: make([][]uint32, G), errs: make([]string, G)}
			var addRow func(map[string]string) (uint32, error)
			if writer == "mem" {
				w := updog.NewIndexWriter("")
				addRow = w.AddRow
				h.flush = func() error { return w.WriteToBoltDatabase(memDB) }
				h.open = func() (*updog.Index, error) { return updog.OpenIndexFromBoltDatabase(memDB) }
				h.cleanup = func(*updog.Index) {
					_ = memDB.Update(func(tx *bbolt.Tx) error { return tx.DeleteBucket([]byte("data")) })
				}
			} else {
				out := filepath.Join(dir, fmt.Sprintf("tiny-big-%d.updog", run%4))
				os.Remove(out)
				os.Remove(out + ".tmp")
				db, err := bbolt.Open(out, 0o644, &bbolt.Options{Timeout: 10 * time.Second, NoSync: true})
				if err != nil {
					fmt.Fprintln(os.Stderr, err)
					return 3
				}
				tdb, err := bbolt.Open(out+".tmp", 0o600, &bbolt.Options{Timeout: 10 * time.Second, NoSync: true})
				if err != nil {
					fmt.Fprintln(os.Stderr, err)
					return 3
				}
				bw, err := updog.NewBigIndexWriter(db, tdb)
				if err != nil {
					fmt.Fprintln(os.Stderr, err)
					return 3
				}
				addRow, h.flush = bw.AddRow, bw.Flush
				h.open = func() (*updog.Index, error) { return updog.OpenIndexFromBoltDatabase(db) }
				h.cleanup = func(*updog.Index) { db.Close(); tdb.Close() }
			}
			var wg sync.WaitGroup
			gate := make(chan struct{})
			for g := 0; g < G; g++ {
				wg.Add(1)
				go func(g int) {
					defer wg.Done()
					<-gate
					own := map[string]string{}
					for i := 0; i < K; i++ {
						var id uint32
						var err error
						row := map[string]string{"tag": fmt.Sprintf("t%d-%d-%d", run, g, i), "g": fmt.Sprint(g), "k": "x"}
						if run%2 == 1 {
							// every other history: one map object per goroutine, refilled for every row
							clear(own)
							for k, v := range row {
								own[k] = v
							}
							row = own
						}
						if p, msg, _ := vf.Try(func() {
							id, err = addRow(row)
						}); p {
							h.errs[g] = "panic: " + msg
							return
						}
						if err != nil {
							h.errs[g] = err.Error()
							return
						}
						h.ids[g] = append(h.ids[g], id)
					}
				}(g)
			}
			close(gate)
			wg.Wait()
			hs = append(hs, h)
		}
		for _, h := range hs {
			var ferr error
			if p, msg, _ := vf.Try(func() { ferr = h.flush() }); p {
				ferr = fmt.Errorf("panic: %s", msg)
			}
			sum.Runs++
			sum.Rows += n
			problem := ""
			owner := make([]int, n)
			for i := range owner {
				owner[i] = -1
			}
			for g := 0; g < G && problem == ""; g++ {
				if h.errs[g] != "" {
					problem = "AddRow: " + h.errs[g]
				}
				for _, id := range h.ids[g] {
					if int(id) >= n || owner[id] != -1 {
						problem = fmt.Sprintf("returned ids are not exactly 0..%d: id %d", n-1, id)
						break
					}
					owner[id] = g
				}
			}
			if problem == "" && ferr != nil {
				problem = "Flush: " + ferr.Error()
			}
			var idx *updog.Index
			if problem == "" {
				var sig strings.Builder
				sw := 0
				for i, g := range owner {
					fmt.Fprintf(&sig, "%x", g)
					if i > 0 && owner[i-1] != g {
						sw++
					}
				}
				sigs[sig.String()] = true
				if sw >= G-1 {
					sum.Interleaved++
				}
				var err error
				idx, err = h.open()
				if err != nil {
					problem = "open flushed index: " + err.Error()
				} else {
					var missing []string
					for g := 0; g < G; g++ {
						for i := 0; i < K; i++ {
							tag := oracle.Eq("tag", fmt.Sprintf("t%d-%d-%d", h.run, g, i))
							res, err := ix.Exec(idx, oracle.And(tag, oracle.Eq("g", fmt.Sprint(g)), oracle.Eq("k", "x")), nil)
							if err != nil || res.Count != 1 {
								missing = append(missing, fmt.Sprintf("t%d-%d-%d (id %d): count %v err %v", h.run, g, i, h.ids[g][i], res, err))
							}
						}
					}
					if res, err := ix.Exec(idx, oracle.Eq("k", "x"), nil); err != nil || res.Count != uint64(n) {
						missing = append(missing, fmt.Sprintf("k=x: count %v err %v, want %d", res, err, n))
					}
					if len(missing) > 0 {
						sort.Strings(missing)
						problem = fmt.Sprintf("after Flush %d of %d added rows are not found exactly once with all their values: %s", len(missing), n, strings.Join(missing[:min(8, len(missing))], "; "))
					}
				}
			}
			h.cleanup(idx)
			if problem != "" {
				f := c18TinyFailure{Run: h.run, Problem: problem}
				for g := 0; g < G; g++ {
					f.IDs = append(f.IDs, fmt.Sprint(h.ids[g]))
				}
				sum.Failures = append(sum.Failures, f)
				if len(sum.Failures) >= 3 {
					break
				}
			}
		}
	}
	sum.Interleavings = len(sigs)
	b, _ := json.Marshal(sum)
	fmt.Println(string(b))
	return 0
}

// c18Tiny runs the tiny-history children (plain build: the race detector's slowdown closes the windows this part is for).
func c18Tiny(r *vf.Run, dir string) {
	type cfg struct {
		writer            string
		runs, g, k, batch int
	}
	var cfgs []cfg
	// one row per goroutine is the cheapest history and all of it is "end"; most of the budget goes there
	mul := r.Pick(1, 4)
	for i := 0; i < 4*mul; i++ {
		cfgs = append(cfgs, cfg{"mem", 30000, 8, 1, 256})
	}
	for i := 0; i < mul; i++ {
		cfgs = append(cfgs, cfg{"mem", 20000, 8, 1, 1}, cfg{"mem", 6000, 8, 3, 1}, cfg{"mem", 20000, 4, 2, 256}, cfg{"mem", 6000, 16, 2, 1}, cfg{"mem", 8000, 8, 5, 256})
		cfgs = append(cfgs, cfg{"big", 2000, 8, 1, 1}, cfg{"big", 1500, 8, 3, 1}, cfg{"big", 1500, 4, 2, 1})
	}
	var ids []string
	byID := map[string]cfg{}
	for i, c := range cfgs {
		id := fmt.Sprintf("tiny/%s-%d-g%d-k%d", c.writer, i, c.g, c.k)
		ids = append(ids, id)
		byID[id] = c
	}
	r.ForEach(ids, 4, func(id string) {
		c := byID[id]
		d := filepath.Join(dir, strings.ReplaceAll(id, "/", "_"))
		mustMkdir(d)
		res := runChild(r, binPath("vcheck"), []string{"worker", "c18-tiny", c.writer, fmt.Sprint(c.runs), fmt.Sprint(c.g), fmt.Sprint(c.k), fmt.Sprint(c.batch), d}, childOpts{Timeout: 15 * time.Minute})
		if res.TimedOut {
			hangVerdict(r, id, res, nil)
			return
		}
		var sum c18TinySummary
		if res.Code != 0 || json.Unmarshal([]byte(strings.TrimSpace(res.Stdout)), &sum) != nil {
			if strings.Contains(res.Stderr, "panic:") || strings.Contains(res.Stderr, "fatal error:") {
				r.Violation(id, "crash", map[string]any{"stderr": tail(res.Stderr, 6000)})
			} else {
				r.Inconclusive(fmt.Sprintf("%s: child exit %d: %s", id, res.Code, tail(res.Stderr, 300)))
			}
			return
		}
		r.Eval(sum.Runs)
		r.Distinct(id)
		r.Count("tiny_histories", int64(sum.Runs))
		r.Count("tiny_histories_rows", int64(sum.Rows))
		r.Count("tiny_histories_distinct_interleavings", int64(sum.Interleavings))
		r.Count("tiny_histories_with_interleaved_goroutines", int64(sum.Interleaved))
		r.Cover("tiny_history_writers", c.writer)
		for _, f := range sum.Failures {
			r.Violation(id, "rows-lost-or-mixed", map[string]any{"writer": c.writer, "goroutines": c.g, "rows_per_goroutine": c.k, "history_number": f.Run, "problem": f.Problem, "ids_returned_per_goroutine": f.IDs})
			break
		}
	})
	r.Floor("tiny histories interleaved", r.GetCount("tiny_histories_with_interleaved_goroutines")*10 >= r.GetCount("tiny_histories") || r.Replay())
}
