package main

import (
	"errors"
	"fmt"
	"path/filepath"
	"strings"

	"github.com/akrennmair/updog"
	"github.com/akrennmair/updog/verifharness/gen"
	"github.com/akrennmair/updog/verifharness/ix"
	"github.com/akrennmair/updog/verifharness/mon"
	"github.com/akrennmair/updog/verifharness/vf"
)

// c15OptionLists (round 8): option LISTS as callers can write them -- an option of the caller's that fails, placed
// before, between and after the library's options; the library's options given twice; a nil cache. Whenever OpenIndex
// returns an error the file is free at once (an exclusive non-blocking lock on a fresh descriptor succeeds); whenever it
// succeeds the index answers and, after Close, the file is free.
func c15OptionLists(r *vf.Run) {
	if !r.Want("option-lists") {
		return
	}
	rng := r.RNG("option-lists")
	ds := identDataset(rng, "option-lists", 800, false)
	for len(ds.Cols) == 0 {
		ds = identDataset(rng, "option-lists", 800, false)
	}
	dir := filepath.Join(r.Scratch, "option-lists")
	mustMkdir(dir)
	path := filepath.Join(dir, "ix.updog")
	if err := ix.Build(ix.Writers[int(r.Seed)%3], path, ds.Rows); err != nil {
		r.Violation("option-lists", "build", err.Error())
		return
	}
	ps := probeSet(rng, ds, 30, 3)
	boom := errors.New("the caller's option says no")
	failing := func(*updog.Index) error { return boom }
	noop := func(*updog.Index) error { return nil }
	pre, cache := updog.WithPreloadedData, func() updog.IndexOption { return updog.WithCache(updog.NewLRUCache(1 << 16)) }
	type ol struct {
		name     string
		opts     func() []updog.IndexOption
		mustFail bool
	}
	lists := []ol{
		{"failing", func() []updog.IndexOption { return []updog.IndexOption{failing} }, true},
		{"preload, failing", func() []updog.IndexOption { return []updog.IndexOption{pre(), failing} }, true},
		{"failing, preload", func() []updog.IndexOption { return []updog.IndexOption{failing, pre()} }, true},
		{"cache, preload, failing", func() []updog.IndexOption { return []updog.IndexOption{cache(), pre(), failing} }, true},
		{"preload, cache, failing, preload", func() []updog.IndexOption { return []updog.IndexOption{pre(), cache(), failing, pre()} }, true},
		{"preload, preload", func() []updog.IndexOption { return []updog.IndexOption{pre(), pre()} }, false},
		{"preload, preload, preload, cache, cache", func() []updog.IndexOption { return []updog.IndexOption{pre(), pre(), pre(), cache(), cache()} }, false},
		{"cache, cache", func() []updog.IndexOption { return []updog.IndexOption{cache(), cache()} }, false},
		{"noop, preload, noop", func() []updog.IndexOption { return []updog.IndexOption{noop, pre(), noop} }, false},
		{"preload, cache, preload", func() []updog.IndexOption { return []updog.IndexOption{pre(), cache(), pre()} }, false},
	}
	for round := 0; round < 2; round++ {
		for _, l := range lists {
			cid := fmt.Sprintf("option-lists/%s/%d", strings.ReplaceAll(l.name, ", ", "+"), round)
			if !r.Want(cid) {
				continue
			}
			r.Eval(1)
			var idx *updog.Index
			var err error
			w := map[string]any{"options": l.name, "round": round + 1}
			if p, msg, stack := vf.Try(func() { idx, err = updog.OpenIndex(path, l.opts()...) }); p {
				w["panic"], w["stack"] = msg, head(stack, 2500)
				r.Violation(cid, "open-panics", w)
				continue
			}
			if l.mustFail {
				if err == nil {
					idx.Close()
					r.Violation(cid, "failing-option-ignored", w)
					continue
				}
				if free, _ := mon.LockFree(path); !free {
					w["error"] = err.Error()
					r.Violation(cid, "lock-kept-after-failed-open", w)
				}
				r.Count("opens_refused_by_a_caller_option", 1)
				continue
			}
			if err != nil {
				w["error"] = err.Error()
				r.Violation(cid, "valid-index-rejected", w)
				continue
			}
			if _, d := runProbes(idx, ps); d != "" {
				w["difference"] = d
				r.Violation(cid, "valid-index-wrong-answers", w)
			}
			c1 := idx.Close()
			c2 := idx.Close()
			if c1 != nil || c2 != nil {
				w["close_errors"] = fmt.Sprint(c1, " / ", c2)
				r.Violation(cid, "close-error", w)
			}
			if free, _ := mon.LockFree(path); !free {
				r.Violation(cid, "lock-kept-after-close", w)
			}
			r.Count("opens_with_repeated_options", 1)
			r.Distinct(cid)
		}
	}
	_ = gen.Hostile
}
