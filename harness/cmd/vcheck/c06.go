package main

import (
	"encoding/json"
	"fmt"
	"os"
	"os/exec"
	"path/filepath"
	"regexp"
	"strings"
	"sync"
	"syscall"
	"time"

	"github.com/akrennmair/updog"
	"github.com/akrennmair/updog/verifharness/gen"
	"github.com/akrennmair/updog/verifharness/ix"
	"github.com/akrennmair/updog/verifharness/mon"
	"github.com/akrennmair/updog/verifharness/oracle"
	"github.com/akrennmair/updog/verifharness/vf"
	"go.etcd.io/bbolt"
)

func init() {
	register("C06", "fault_enumeration", runC06)
	workers["c06-classify"] = workerC06Classify
	workers["c06-path-reuse"] = workerC06PathReuse
}

// c06Spec is what the classification child needs: the probes with their expected answers and one row per distinct
// (column,value) pair (enough for the schema comparison). It is computed once per dataset by the orchestrator.
type c06Spec struct {
	SchemaRows []oracle.Row `json:"schema_rows"`
	Probes     []c04Query   `json:"probes"`
}

var c06SpecMu sync.Mutex
var c06SpecFiles = map[string]string{}

// c06SpecFile computes (once) and stores the probe set of a dataset for the classification children.
func c06SpecFile(r *vf.Run, d c06Data) string {
	key := fmt.Sprintf("%s-%d-%v", d.id, d.rows, d.vals)
	c06SpecMu.Lock()
	defer c06SpecMu.Unlock()
	if p, ok := c06SpecFiles[key]; ok {
		return p
	}
	csv := gen.CSVWithValues(d.rows, d.vals)
	rows := csv.Rows()
	gds := &gen.Dataset{ID: d.id, Rows: rows}
	gds.Index()
	nprobes := 300
	if d.rows > 100000 {
		nprobes = 80
	}
	var spec c06Spec
	for _, p := range probeSet(r.RNG("probes/"+key), gds, nprobes, 10) {
		spec.Probes = append(spec.Probes, c04Query{E: p.e, GB: p.gb, Want: p.a})
	}
	for c, vs := range gds.Vals {
		for _, v := range vs {
			spec.SchemaRows = append(spec.SchemaRows, oracle.Row{c: v})
		}
	}
	path := filepath.Join(r.Scratch, "c06-spec-"+vf.Digest(key)+".gob")
	if err := writeSpec(path, spec); err != nil {
		r.Inconclusive("cannot write the classification child's probe specification: " + err.Error())
	}
	c06SpecFiles[key] = path
	return path
}

// workerC06Classify opens a post-crash file in a process of its own, so that a crash of OpenIndex or of a query on
// a damaged file (SIGSEGV/SIGBUS on a truncated mmap, a bbolt page assertion) is attributed to that file.
// args: path spec-file
func workerC06Classify(args []string) int {
	var spec c06Spec
	if err := readSpec(args[1], &spec); err != nil {
		fmt.Fprintln(os.Stderr, err)
		return 3
	}
	var ps []probe
	for i, q := range spec.Probes {
		ps = append(ps, probe{id: fmt.Sprintf("p%d", i), e: q.E, gb: q.GB, a: q.Want})
	}
	r := vf.NewQuietRun("C06") // no scratch directory, no output: the verdict goes to the parent as JSON
	cls := classifyOutput(r, "child", args[0], ps, spec.SchemaRows, nil)
	out, _ := json.Marshal(map[string]any{"class": cls, "violations": r.TakeViolations()})
	fmt.Println(string(out))
	return 0
}

// workerC06PathReuse: the post-crash file appears at a path where THIS process has opened a complete index before (a
// long-running reader whose index is rebuilt by another process that dies half-way). Anything the library remembers
// per path must not make the partial file acceptable.
// args: path spec-file complete-index updog-binary input-csv big(0|1) kill-at
func workerC06PathReuse(args []string) int {
	path, specFile, full, bin, in, big, killAt := args[0], args[1], args[2], args[3], args[4], args[5] == "1", args[6]
	var spec c06Spec
	if err := readSpec(specFile, &spec); err != nil {
		fmt.Fprintln(os.Stderr, err)
		return 3
	}
	var ps []probe
	for i, q := range spec.Probes {
		ps = append(ps, probe{id: fmt.Sprintf("p%d", i), e: q.E, gb: q.GB, a: q.Want})
	}
	if err := ix.CopyFile(full, path); err != nil {
		fmt.Fprintln(os.Stderr, err)
		return 3
	}
	// the complete index is opened, used and closed in every configuration, then removed
	for _, mode := range ix.OpenModes {
		idx, err := ix.Open(path, mode, updog.NewLRUCache(1<<20))
		if err != nil {
			fmt.Fprintln(os.Stderr, "complete index rejected:", err)
			return 3
		}
		_, _ = runProbes(idx, ps[:min(5, len(ps))])
		_ = idx.GetSchema()
		idx.Close()
	}
	os.Remove(path)
	cargs := []string{"create", "-o", path}
	if big {
		cargs = append(cargs, "-b")
	}
	cmd := exec.Command(bin, append(cargs, in)...)
	cmd.Env = append(os.Environ(), "UPDOG_VERIF_KILL_AT="+killAt)
	err := cmd.Run()
	killed := false
	if ee, ok := err.(*exec.ExitError); ok {
		if ws, ok := ee.Sys().(syscall.WaitStatus); ok && ws.Signaled() && ws.Signal() == syscall.SIGKILL {
			killed = true
		}
	}
	r := vf.NewQuietRun("C06")
	cls := classifyOutput(r, "child", path, ps, spec.SchemaRows, nil)
	out, _ := json.Marshal(map[string]any{"class": cls, "violations": r.TakeViolations(), "killed": killed})
	fmt.Println(string(out))
	return 0
}

// classifyInChild runs classifyOutput in a child process and turns a crash of that child into a violation.
func classifyInChild(r *vf.Run, caseID, path string, d c06Data, ctx map[string]any) string {
	if _, err := os.Stat(path); err != nil {
		return "absent"
	}
	res := runChild(r, binPath("vcheck"), []string{"worker", "c06-classify", path, c06SpecFile(r, d)}, childOpts{Timeout: 5 * time.Minute})
	w := map[string]any{"file": filepath.Base(path)}
	for k, v := range ctx {
		w[k] = v
	}
	if res.TimedOut {
		hangVerdict(r, caseID, res, w)
		return "hang"
	}
	var out struct {
		Class      string           `json:"class"`
		Violations []map[string]any `json:"violations"`
	}
	if res.Code != 0 || json.Unmarshal([]byte(res.Stdout), &out) != nil {
		// a crash caused by the file happens again on the same file; a crash of the child for a reason of the machine (no
		// more threads or memory under heavy load) does not: the classification is repeated, and only a crash that
		// happens three times out of three is attributed to the file
		for again := 0; again < 2; again++ {
			time.Sleep(2 * time.Second)
			res2 := runChild(r, binPath("vcheck"), []string{"worker", "c06-classify", path, c06SpecFile(r, d)}, childOpts{Timeout: 5 * time.Minute})
			if res2.TimedOut {
				break
			}
			if res2.Code == 0 && json.Unmarshal([]byte(res2.Stdout), &out) == nil {
				r.Count("classification_children_that_died_once_for_no_reason_of_the_file", 1)
				r.Extra("classification_child_transient_death", map[string]any{"case": caseID, "exit_code": res.Code, "stderr_head": head(res.Stderr, 1500)})
				res = res2
				break
			}
		}
	}
	if res.Code != 0 || out.Class == "" {
		w["exit_code"], w["signal"], w["stderr"], w["stderr_head"] = res.Code, res.Signal.String(), tail(res.Stderr, 5000), head(res.Stderr, 4000)
		w["crashed_in_three_of_three_attempts"] = true
		if kd := os.Getenv("VERIF_KEEP_DIR"); kd != "" {
			_ = ix.CopyFile(path, filepath.Join(kd, "crashing-"+filepath.Base(path)))
		}
		w["explanation"] = "opening or querying the post-crash file took the process down"
		r.Violation(caseID, "open-or-query-crashes-on-post-crash-file", w)
		return "crash"
	}
	for _, v := range out.Violations {
		kind, _ := v["kind"].(string)
		det, _ := v["detail"].(map[string]any)
		for k, x := range ctx {
			if det == nil {
				det = map[string]any{}
			}
			det[k] = x
		}
		r.Violation(caseID, kind, det)
	}
	return out.Class
}

// classifyOutput decides what a post-crash output path is: absent, rejected
// (OpenIndex returned an error), accepted-and-correct, or a violation.
// Opening runs under recover and under a bounded-progress watchdog.
func classifyOutput(r *vf.Run, caseID, path string, ps []probe, rows []oracle.Row, ctx map[string]any) string {
	if _, err := os.Stat(path); err != nil {
		return "absent"
	}
	type openRes struct {
		idx      *updog.Index
		err      error
		panicked bool
		msg      string
	}
	w := func(extra map[string]any) map[string]any {
		m := map[string]any{"file": filepath.Base(path)}
		for k, v := range ctx {
			m[k] = v
		}
		for k, v := range extra {
			m[k] = v
		}
		return m
	}
	verdict := ""
	for _, mode := range ix.OpenModes {
		ch := make(chan openRes, 1)
		go func() {
			var o openRes
			o.panicked, o.msg, _ = vf.Try(func() { o.idx, o.err = ix.Open(path, mode, nil) })
			ch <- o
		}()
		var o openRes
		select {
		case o = <-ch:
		case <-time.After(90 * time.Second):
			stacks := strings.Join(mon.Stacks("updog"), "\n\n")
			if c := mon.ClassifyDump(stacks); c != "" {
				r.Violation(caseID, "open-hangs", w(map[string]any{"blocked": c, "stacks": head(stacks, 8000), "mode": mode}))
			} else {
				r.Inconclusive(caseID + ": OpenIndex still running after 90 s")
			}
			return "hang"
		}
		if o.panicked {
			r.Violation(caseID, "open-panics", w(map[string]any{"panic": o.msg, "mode": mode}))
			return "panic"
		}
		if o.err != nil {
			// rejected with this option set: the verdict is that of the first option set, but the others are still tried
			// (an open with preloading walks other code; it must not panic or hang on this file either, and if it accepts
			// the file its answers must be right)
			if verdict == "" {
				verdict = "rejected"
			}
			continue
		}
		if verdict == "" {
			verdict = "accepted-complete"
		}
		var d string
		panicked, msg, _ := vf.Try(func() {
			if sd := oracle.CompareSchema(o.idx.GetSchema(), rows); sd != "" {
				d = "schema: " + sd
				return
			}
			_, d = runProbes(o.idx, ps)
		})
		o.idx.Close()
		if panicked {
			r.Violation(caseID, "accepted-partial-index", w(map[string]any{"difference": "query on the accepted file panicked: " + msg, "mode": mode}))
			return "wrong"
		}
		if d != "" {
			r.Violation(caseID, "accepted-partial-index", w(map[string]any{"difference": d, "mode": mode, "explanation": "the file is accepted by OpenIndex but answers differently from the completely written index"}))
			return "wrong"
		}
	}
	return verdict
}

var hookMu sync.Mutex // the verification hook is process-global

func runC06(r *vf.Run) {
	r.Rule("one evaluation = one post-crash state of an output file (a committed prefix materialised by the verif hook, the file left by the real CLI SIGKILLed at its n-th commit boundary, or the file left by the CLI killed by strace at an injected syscall) " +
		"classified as absent / rejected with an error / accepted; an accepted file is probed against the completely written index; " +
		"distinct_nontrivial = distinct (engine, writer, dataset, crash point) tuples")
	r.Assume("a crash is the death of the process with the kernel surviving (no torn pages: bbolt's commit protocol and fsync behaviour are trusted)", "up to ~35 commits per run")
	c06Snapshots(r)
	c06FirstWrite(r)
	c06KillAt(r)
	c06Strace(r)
	c06SizeKill(r)
	for _, site := range []string{"mem.begin", "mem.commit", "mem.final", "big.temp-commit", "big.flush-begin", "big.final"} {
		r.Floor("hook site hit: "+site, r.HasCover("hook_sites_hit", site))
	}
	r.Floor("a rejected partial file was observed", r.GetCount("class_rejected") > 0)
	r.Floor("a complete file was accepted", r.GetCount("class_accepted-complete") > 0)
	if r.Thorough() {
		r.Floor(">= 20 distinct strace kill positions", r.Covered("strace_kill_positions") >= 20 || r.GetCount("strace_kill_positions_distinct") >= 20)
	}
}

type c06Data struct {
	id   string
	rows int
	vals []int // distinct values per column
}

func c06Datasets(r *vf.Run) []c06Data {
	ds := []c06Data{
		{"tiny", 5, []int{3}},
		{"v999", 999, []int{999}},
		{"v1000", 1000, []int{1000}},
		{"v1001", 1001, []int{1001}},
		{"v2500", 2500, []int{2500}},
		{"r1001", 1001, []int{7, 2}},
		{"r3100", 3100, []int{13, 5}},
		{"v8500", 8500, []int{8500}}, // nine and more batches of values: a writer that overlaps its batches only does so from some count on
	}
	if r.Thorough() {
		ds = append(ds, c06Data{"v4100", 4100, []int{4100, 3}}, c06Data{"v12500", 12500, []int{12500}}, c06Data{"v30500", 30500, []int{30500}}, c06Data{"v2000", 2000, []int{1000, 1000}}, c06Data{"r2000", 2000, []int{3}}, c06Data{"r2001", 2001, []int{1500, 3}})
	}
	return ds
}

// engine 0: the very first write. bbolt creates a database with ONE write of four pages (two meta pages, a freelist
// page, an empty root) followed by a sync; a SIGKILL can end that write at any page boundary (the kernel checks for fatal
// signals between pages). The size-triggered engine hits this window only now and then, so the states it can leave are
// built directly: the first 1..4 pages of a freshly created database. Each is classified in a child process like every
// other post-crash file.
func c06FirstWrite(r *vf.Run) {
	d := c06Datasets(r)[0]
	csv := gen.CSVWithValues(d.rows, d.vals)
	dir := filepath.Join(r.Scratch, "first-write")
	mustMkdir(dir)
	full := filepath.Join(dir, "full.updog")
	if err := ix.Build(ix.WriterMemFile, full, csv.Rows()); err != nil {
		r.Violation("first-write", "build", err.Error())
		return
	}
	fresh := filepath.Join(dir, "fresh.db")
	if db, err := bbolt.Open(fresh, 0o644, nil); err == nil {
		db.Close()
	}
	b, err := os.ReadFile(fresh)
	if err != nil || len(b) < 16384 {
		r.Inconclusive("first-write: cannot read a freshly created database")
		return
	}
	// (a prefix followed by a hole, or a prefix of the FINISHED file, is not a state a kill can leave: the file only grows
	// after the first write has completed, and the first write is the image of an empty database)
	for _, cut := range []int{1, 4095, 4096, 8191, 8192, 12288, 16383, 16384} {
		cid := fmt.Sprintf("first-write/first-%d-bytes", cut)
		if !r.Want(cid) {
			continue
		}
		p := filepath.Join(dir, vf.Digest(cid)+".updog")
		_ = os.WriteFile(p, b[:cut], 0o644)
		r.Eval(1)
		cls := classifyInChild(r, cid, p, d, map[string]any{"engine": "first-write", "bytes_of_the_first_write_that_arrived": cut})
		r.Count("class_"+cls, 1)
		r.Count("first_write_states", 1)
		r.Distinct(cid)
		os.Remove(p)
	}
	_ = full
}

// engine 1: hook snapshots in process
func c06Snapshots(r *vf.Run) {
	for _, d := range c06Datasets(r) {
		csv := gen.CSVWithValues(d.rows, d.vals)
		rows := csv.Rows()
		gds := &gen.Dataset{ID: d.id, Rows: rows}
		gds.Index()
		ps := probeSet(r.RNG("probes/"+d.id), gds, 300, 10)
		for _, writer := range ix.Writers {
			cid := fmt.Sprintf("snap/%s/%s", d.id, writer)
			if !r.Want(cid) {
				continue
			}
			r.Guard(cid, func() {
				dir := filepath.Join(r.Scratch, "snap-"+d.id+"-"+writer)
				mustMkdir(dir)
				out := filepath.Join(dir, "out.updog")
				type snap struct {
					site string
					path string
				}
				var snaps []snap
				hookMu.Lock()
				updog.VerifSetHook(func(site string) {
					if strings.HasSuffix(site, ".addrow") {
						return
					}
					p := filepath.Join(dir, fmt.Sprintf("snap-%03d-%s", len(snaps), site))
					if err := ix.CopyFile(out, p); err == nil {
						snaps = append(snaps, snap{site, p})
					}
				})
				err := ix.Build(writer, out, rows)
				updog.VerifSetHook(nil)
				hookMu.Unlock()
				if err != nil {
					r.Violation(cid, "build", err.Error())
					return
				}
				for i, s := range snaps {
					sid := fmt.Sprintf("%s/point%d-%s", cid, i, s.site)
					r.Eval(1)
					r.Cover("hook_sites_hit", s.site)
					cls := classifyOutput(r, sid, s.path, ps, rows, map[string]any{"engine": "hook-snapshot", "writer": writer, "dataset": d.id, "rows": d.rows, "distinct_values_per_column": d.vals, "crash_point": fmt.Sprintf("%d (%s) of %d", i, s.site, len(snaps))})
					r.Count("class_"+cls, 1)
					r.Count("snapshots_"+writer, 1)
					r.Distinct(sid)
				}
				// the file as it is once the writer has returned must be the complete index (the state at the last hook
				// site need not be: a writer may well finish its output after its last commit point)
				r.Eval(1)
				if cls := classifyOutput(r, cid+"/returned", out, ps, rows, map[string]any{"engine": "after-return", "writer": writer, "dataset": d.id}); cls != "accepted-complete" && cls != "wrong" && cls != "panic" {
					r.Violation(cid+"/returned", "final-not-accepted", map[string]any{"class": cls, "explanation": "the writer returned without error but its output is not a complete index"})
				}
				r.Max("commits_in_one_run", int64(len(snaps)))
				if d.id == "v2500" && writer == ix.WriterMemFile {
					var sites []string
					for _, s := range snaps {
						sites = append(sites, s.site)
					}
					r.Sample("snapshot-run", map[string]any{"dataset": d.id, "writer": writer, "crash_points": sites})
				}
			})
		}
	}
}

// engine 2: the real CLI (verif build) SIGKILLs itself at its n-th commit boundary
func c06KillAt(r *vf.Run) {
	if !haveBin("updog.verif") {
		r.Inconclusive("updog.verif binary not built")
		return
	}
	for _, d := range c06Datasets(r) {
		if r.Quick() && (d.id == "v999" || d.id == "v1000") {
			continue
		}
		csv := gen.CSVWithValues(d.rows, d.vals)
		for _, big := range []bool{false, true} {
			mode := "normal"
			if big {
				mode = "big"
			}
			cid := fmt.Sprintf("killat/%s/%s", d.id, mode)
			if !r.Want(cid) {
				continue
			}
			r.Progress(cid)
			dir := filepath.Join(r.Scratch, "killat-"+d.id+"-"+mode)
			mustMkdir(dir)
			in := filepath.Join(dir, "in.csv")
			_ = os.WriteFile(in, []byte(csv.Text), 0o644)
			run := func(n int, out, trace string) childResult {
				args := []string{"create", "-o", out}
				if big {
					args = append(args, "-b")
				}
				args = append(args, in)
				env := []string{"UPDOG_VERIF_TRACE=" + trace}
				if n > 0 {
					env = append(env, fmt.Sprintf("UPDOG_VERIF_KILL_AT=%d", n))
				}
				return runChild(r, binPath("updog.verif"), args, childOpts{Env: env, Timeout: 3 * time.Minute})
			}
			full := filepath.Join(dir, "full.updog")
			trace := filepath.Join(dir, "trace-full")
			res := run(0, full, trace)
			if res.TimedOut {
				hangVerdict(r, cid, res, map[string]any{"command": "updog create (full run)"})
				continue
			}
			if res.Code != 0 {
				r.Violation(cid, "create-failed", map[string]any{"exit_code": res.Code, "stderr": tail(res.Stderr, 2000)})
				continue
			}
			tb, _ := os.ReadFile(trace)
			points := strings.Split(strings.TrimSpace(string(tb)), "\n")
			if len(points) == 0 || points[0] == "" {
				r.Inconclusive(cid + ": no verification points traced in a full run")
				continue
			}
			r.Eval(1)
			if cls := classifyInChild(r, cid+"/full", full, d, map[string]any{"engine": "cli-full-run", "mode": mode}); cls != "accepted-complete" && cls != "wrong" && cls != "panic" && cls != "crash" {
				r.Violation(cid+"/full", "final-not-accepted", map[string]any{"class": cls})
			}
			for n := 1; n <= len(points)+1; n++ {
				kid := fmt.Sprintf("%s/kill%d", cid, n)
				if !r.Want(kid) {
					continue
				}
				out := filepath.Join(dir, fmt.Sprintf("out-%d.updog", n))
				kres := run(n, out, filepath.Join(dir, fmt.Sprintf("trace-%d", n)))
				if kres.TimedOut {
					hangVerdict(r, kid, kres, map[string]any{"kill_at": n})
					continue
				}
				site := "(beyond the last point: runs to completion)"
				if n <= len(points) {
					site = points[n-1]
					if !(kres.Signaled && kres.Signal == 9) {
						r.Inconclusive(fmt.Sprintf("%s: the CLI was not killed at point %d (exit %d)", kid, n, kres.Code))
						continue
					}
					f := strings.Fields(site)
					if len(f) == 2 {
						r.Cover("hook_sites_hit", f[1])
					}
				}
				r.Eval(1)
				cls := classifyInChild(r, kid, out, d, map[string]any{"engine": "cli-sigkill-at-commit", "mode": mode, "dataset": d.id, "killed_at": site, "points_in_full_run": len(points)})
				r.Count("class_"+cls, 1)
				r.Count("cli_kills_"+mode, 1)
				r.Distinct(kid)
				os.Remove(out)
				// the same crash at a path where the classifying process has opened the complete index before
				if n <= len(points) && r.Want(kid+"/path-reuse") {
					reuse := filepath.Join(dir, "reused.updog")
					os.Remove(reuse)
					bigArg := "0"
					if big {
						bigArg = "1"
					}
					pres := runChild(r, binPath("vcheck"), []string{"worker", "c06-path-reuse", reuse, c06SpecFile(r, d), full, binPath("updog.verif"), in, bigArg, fmt.Sprint(n)}, childOpts{Timeout: 5 * time.Minute})
					for again := 0; again < 2 && !pres.TimedOut && pres.Code != 0; again++ {
						// the child died: once more from the start (a death caused by the file repeats itself)
						time.Sleep(2 * time.Second)
						os.Remove(reuse)
						pres = runChild(r, binPath("vcheck"), []string{"worker", "c06-path-reuse", reuse, c06SpecFile(r, d), full, binPath("updog.verif"), in, bigArg, fmt.Sprint(n)}, childOpts{Timeout: 5 * time.Minute})
					}
					r.Eval(1)
					ctx := map[string]any{"engine": "cli-sigkill-at-commit, output path opened before by the classifying process", "mode": mode, "dataset": d.id, "killed_at": site}
					var pout struct {
						Class      string           `json:"class"`
						Violations []map[string]any `json:"violations"`
						Killed     bool             `json:"killed"`
					}
					switch {
					case pres.TimedOut:
						hangVerdict(r, kid+"/path-reuse", pres, ctx)
					case pres.Code != 0 || json.Unmarshal([]byte(pres.Stdout), &pout) != nil:
						if strings.Contains(pres.Stderr, "panic:") || strings.Contains(pres.Stderr, "fatal error:") || pres.Signaled {
							ctx["stderr"] = tail(pres.Stderr, 4000)
							r.Violation(kid+"/path-reuse", "open-or-query-crashes-on-post-crash-file", ctx)
						} else {
							r.Inconclusive(fmt.Sprintf("%s/path-reuse: child exit %d: %s", kid, pres.Code, tail(pres.Stderr, 300)))
						}
					case !pout.Killed:
						r.Inconclusive(kid + "/path-reuse: the CLI was not killed")
					default:
						for _, v := range pout.Violations {
							kind, _ := v["kind"].(string)
							det, _ := v["detail"].(map[string]any)
							if det == nil {
								det = map[string]any{}
							}
							for k, x := range ctx {
								det[k] = x
							}
							r.Violation(kid+"/path-reuse", kind, det)
						}
						r.Count("class_"+pout.Class, 1)
						r.Count("post_crash_files_at_a_path_opened_before", 1)
						r.Distinct(kid + "/path-reuse")
					}
					os.Remove(reuse)
				}
			}
		}
	}
}

var straceKilled = regexp.MustCompile(`\+\+\+ killed by SIGKILL \+\+\+`)
var straceCall = regexp.MustCompile(`^(\d+)\s+(pwrite64|pwritev|writev|copy_file_range|sendfile|fdatasync|ftruncate|fsync|write|rename|renameat|renameat2)\(`)

// engine 3: syscall-granularity SIGKILL of the plain CLI through strace fault injection
func c06Strace(r *vf.Run) {
	if _, err := os.Stat("/usr/bin/strace"); err != nil {
		r.Inconclusive("strace not installed")
		return
	}
	type sc struct {
		d   c06Data
		big bool
	}
	cases := []sc{{c06Data{"v2500", 2500, []int{2500}}, false}, {c06Data{"r3100", 3100, []int{13, 5}}, true},
		// several MiB of index data (a copy or compaction of the finished file would need several transactions / many writes)
		{c06Large(r), false}, {c06Large(r), true}}
	cases = append(cases, sc{c06Dense(r), false})
	if r.Thorough() {
		cases = append(cases, sc{c06Data{"v1001", 1001, []int{1001}}, false}, sc{c06Data{"r2001", 2001, []int{1500, 3}}, true}, sc{c06Dense(r), true})
	}
	// the CLI's temporary directory on another file system than the output (rename across file systems is a copy)
	otherFS := filepath.Join(vf.Root(), ".scratch", fmt.Sprintf("c06-tmp-%d", os.Getpid()))
	if err := os.MkdirAll(otherFS, 0o755); err == nil {
		defer os.RemoveAll(otherFS)
	} else {
		otherFS = ""
	}
	for _, c := range cases {
		mode := "normal"
		if c.big {
			mode = "big"
		}
		cid := fmt.Sprintf("strace/%s/%s", c.d.id, mode)
		if !r.Want(cid) {
			continue
		}
		r.Progress(cid)
		csv := gen.CSVWithValues(c.d.rows, c.d.vals)
		dir := filepath.Join(r.Scratch, "strace-"+c.d.id+"-"+mode)
		mustMkdir(dir)
		in := filepath.Join(dir, "in.csv")
		_ = os.WriteFile(in, []byte(csv.Text), 0o644)
		run := func(n int, out, log string) childResult {
			args := []string{"-f", "-o", log, "-e", "trace=pwrite64,pwritev,write,writev,copy_file_range,sendfile,fdatasync,ftruncate,fsync,rename,renameat,renameat2"}
			if n > 0 {
				args = append(args, "-e", fmt.Sprintf("inject=pwrite64,pwritev,write,writev,copy_file_range,sendfile,fdatasync,ftruncate,rename,renameat,renameat2:signal=KILL:when=%d", n))
			}
			args = append(args, binPath("updog"), "create", "-o", out)
			if c.big {
				args = append(args, "-b")
			}
			args = append(args, in)
			return runChild(r, "/usr/bin/strace", args, childOpts{Timeout: 5 * time.Minute, TmpDir: otherFS})
		}
		// engine 3b: only the sync / truncate / rename calls that touch the OUTPUT path (strace -P): these are the
		// commit boundaries of whatever writes the output, however it gets there; few enough to sweep all of them
		c06OutputSyncSweep(r, cid, dir, in, c.d, c.big, otherFS)
		if c.d.id == "dense" && r.Quick() {
			continue // the per-syscall sweep of this big input is left to the thorough tier
		}
		// full run: how many I/O syscalls are there?
		flog := filepath.Join(dir, "full.strace")
		fres := run(0, filepath.Join(dir, "full.updog"), flog)
		if fres.TimedOut || fres.Code != 0 {
			r.Inconclusive(fmt.Sprintf("%s: full run under strace failed (exit %d): %s", cid, fres.Code, tail(fres.Stderr, 300)))
			continue
		}
		fb, _ := os.ReadFile(flog)
		total := 0
		perThread := map[string]int{}
		for _, line := range strings.Split(string(fb), "\n") {
			if m := straceCall.FindStringSubmatch(line); m != nil && m[2] != "fsync" {
				total++
				perThread[m[1]]++
			}
		}
		maxPer := 0
		for _, n := range perThread {
			if n > maxPer {
				maxPer = n
			}
		}
		r.Extra("strace_io_syscalls_in_full_run_"+mode, total)
		if total == 0 {
			r.Inconclusive(cid + ": no I/O syscalls seen in the full run")
			continue
		}
		// sweep when=N (N counts per thread); quick: a spread of positions, thorough: all
		var ns []int
		if r.Thorough() {
			step := 1
			if maxPer > 400 {
				step = maxPer / 400 // large runs: 400 positions spread over the whole run
			}
			for n := 1; n <= maxPer+1; n += step {
				ns = append(ns, n)
			}
		} else {
			want := 10
			if c.d.id == "large" {
				want = 8
			}
			step := maxPer/want + 1
			for n := 1; n <= maxPer; n += step {
				ns = append(ns, n)
			}
			if ns[len(ns)-1] != maxPer {
				ns = append(ns, maxPer) // the last I/O call of the busiest thread
			}
		}
		var mu sync.Mutex
		var ids []string
		byID := map[string]int{}
		for _, n := range ns {
			id := fmt.Sprintf("%s/when%d", cid, n)
			ids = append(ids, id)
			byID[id] = n
		}
		r.ForEach(ids, 8, func(id string) {
			n := byID[id]
			out := filepath.Join(dir, fmt.Sprintf("out-%d.updog", n))
			log := filepath.Join(dir, fmt.Sprintf("kill-%d.strace", n))
			kres := run(n, out, log)
			if kres.TimedOut {
				hangVerdict(r, id, kres, map[string]any{"when": n})
				return
			}
			lb, _ := os.ReadFile(log)
			killed := straceKilled.Match(lb)
			// the real kill position = number of I/O syscalls that completed before the kill
			pos := 0
			for _, line := range strings.Split(string(lb), "\n") {
				if m := straceCall.FindStringSubmatch(line); m != nil && m[2] != "fsync" && !strings.Contains(line, "unfinished") {
					pos++
				}
			}
			r.Eval(1)
			if !killed {
				r.Count("strace_runs_not_killed", 1)
			} else {
				mu.Lock()
				r.Cover("strace_kill_positions", fmt.Sprintf("%s@%d", mode, pos))
				mu.Unlock()
			}
			cls := classifyInChild(r, id, out, c.d, map[string]any{"engine": "strace-sigkill", "mode": mode, "dataset": c.d.id, "when": n, "io_syscalls_before_death": pos, "io_syscalls_in_full_run": total, "killed": killed, "cli_tmpdir_on_other_filesystem": otherFS != ""})
			r.Count("class_"+cls, 1)
			r.Count("strace_kills_"+mode, 1)
			r.Distinct(fmt.Sprintf("%s@%d", id, pos))
			if !killed && kres.Code != 0 {
				// neither killed nor successful: the command (or strace) failed for another reason; a rejected or absent
				// output is what the property allows then, and nothing can be demanded of it
				r.Count("strace_runs_failed_without_kill", 1)
				r.Extra("strace_run_failed_without_kill_"+fmt.Sprint(n), map[string]any{"exit": kres.Code, "stderr": tail(kres.Stderr, 600), "strace_log_tail": tail(string(lb), 600), "class": cls})
			}
			if !killed && kres.Code == 0 && cls != "accepted-complete" && cls != "wrong" && cls != "panic" {
				r.Violation(id, "final-not-accepted", map[string]any{"class": cls, "explanation": "the command was not killed and exited with status 0, but its output is not a complete index", "exit": kres.Code, "stderr": tail(kres.Stderr, 600), "strace_log_tail": tail(string(lb), 600)})
			}
			os.Remove(out)
			os.Remove(log)
		})
	}
	r.Count("strace_kill_positions_distinct", int64(r.Covered("strace_kill_positions")))
	_ = bbolt.ErrTimeout
}

// engine 4: SIGKILL at arbitrary instants, triggered by the size of the growing output file. The instant is not
// reproducible, but the oracle does not depend on where the kill lands; the sizes at which the process died are the
// coverage. This reaches windows that no hook site and no syscall boundary marks (e.g. the middle of one long copy).
func c06SizeKill(r *vf.Run) {
	if !haveBin("updog") {
		return
	}
	otherFS := filepath.Join(vf.Root(), ".scratch", fmt.Sprintf("c06-sk-%d", os.Getpid()))
	if err := os.MkdirAll(otherFS, 0o755); err != nil {
		otherFS = ""
	} else {
		defer os.RemoveAll(otherFS)
	}
	type sc struct {
		d   c06Data
		big bool
	}
	large := c06Large(r)
	dense := c06Dense(r)
	cases := []sc{{large, false}, {large, true}, {c06Data{"v2500", 2500, []int{2500}}, false}}
	if r.Thorough() {
		cases = append(cases, sc{dense, false}, sc{dense, true})
	}
	if r.Thorough() {
		cases = append(cases, sc{c06Data{"r3100", 3100, []int{13, 5}}, true}, sc{c06Data{"wide", 40000, []int{40000, 40000, 20000, 9000}}, false}, sc{c06Data{"wide", 40000, []int{40000, 40000, 20000, 9000}}, true})
	}
	for _, c := range cases {
		mode := "normal"
		if c.big {
			mode = "big"
		}
		cid := fmt.Sprintf("sizekill/%s/%s", c.d.id, mode)
		if !r.Want(cid) {
			continue
		}
		r.Progress(cid)
		csv := gen.CSVWithValues(c.d.rows, c.d.vals)
		dir := filepath.Join(r.Scratch, "sizekill-"+c.d.id+"-"+mode)
		mustMkdir(dir)
		in := filepath.Join(dir, "in.csv")
		_ = os.WriteFile(in, []byte(csv.Text), 0o644)
		args := func(out string) []string {
			a := []string{"create", "-o", out}
			if c.big {
				a = append(a, "-b")
			}
			return append(a, in)
		}
		full := filepath.Join(dir, "full.updog")
		tFull := time.Now()
		res := runChild(r, binPath("updog"), args(full), childOpts{Timeout: 5 * time.Minute, TmpDir: otherFS})
		fullDur := time.Since(tFull)
		st, err := os.Stat(full)
		if res.Code != 0 || res.TimedOut || err != nil {
			r.Inconclusive(cid + ": full run failed")
			continue
		}
		final := st.Size()
		r.Extra("sizekill_final_bytes_"+c.d.id+"_"+mode, final)
		os.Remove(full)
		n := r.Pick(8, 40)
		var ids []string
		fr := map[string]float64{}
		for k := 0; k < n; k++ {
			id := fmt.Sprintf("%s/at%02d", cid, k)
			ids = append(ids, id)
			// thresholds from "as soon as the file exists" up to just below the final size
			fr[id] = float64(k) / float64(n)
		}
		// and kills after a fraction of the full run's duration: instants spread evenly over time, so that every phase
		// is hit in proportion to how long it lasts (fr < 0 marks a time trigger)
		nt := r.Pick(14, 60)
		for k := 0; k < nt; k++ {
			id := fmt.Sprintf("%s/time%02d", cid, k)
			ids = append(ids, id)
			fr[id] = -(float64(k) + 0.5) / float64(nt)
		}
		r.ForEach(ids, 4, func(id string) {
			out := filepath.Join(dir, vf.Digest(id)+".updog")
			threshold := int64(fr[id] * float64(final))
			var killAfter time.Duration
			if fr[id] < 0 {
				threshold = 1 << 62
				killAfter = time.Duration(-fr[id] * float64(fullDur))
			}
			started := time.Now()
			cmd := newCmd(binPath("updog"), args(out), []string{"TMPDIR=" + firstNonEmpty(otherFS, r.Scratch)}, nil)
			if err := cmd.Start(); err != nil {
				r.Inconclusive(id + ": " + err.Error())
				return
			}
			exited := make(chan struct{})
			go func() { _ = cmd.Wait(); close(exited) }()
			killedAt := int64(-1)
			deadline := time.After(3 * time.Minute)
		poll:
			for {
				select {
				case <-exited:
					break poll
				case <-deadline:
					_ = cmd.Process.Kill()
					<-exited
					r.Inconclusive(id + ": create still running after 3 minutes")
					return
				default:
				}
				if killAfter > 0 && time.Since(started) >= killAfter {
					killedAt = 0
					if st, err := os.Stat(out); err == nil {
						killedAt = st.Size()
					}
					_ = cmd.Process.Kill()
					<-exited
					r.Count("sizekill_time_triggered_kills", 1)
					break poll
				}
				if st, err := os.Stat(out); err == nil && st.Size() >= threshold {
					killedAt = st.Size()
					_ = cmd.Process.Kill()
					<-exited
					break poll
				}
				time.Sleep(50 * time.Microsecond)
			}
			r.Eval(1)
			if killedAt < 0 {
				r.Count("sizekill_runs_that_finished_before_the_kill", 1)
			} else {
				r.Cover("sizekill_sizes_at_death_"+mode, fmt.Sprintf("%s:%d", c.d.id, killedAt))
				r.Count("sizekill_kills_"+mode, 1)
			}
			cls := classifyInChild(r, id, out, c.d, map[string]any{"engine": "size-triggered-sigkill", "mode": mode, "dataset": c.d.id, "size_at_kill": killedAt, "final_size": final, "cli_tmpdir_on_other_filesystem": otherFS != ""})
			r.Count("class_"+cls, 1)
			r.Distinct(fmt.Sprintf("%s@%d", id, killedAt))
			if killedAt < 0 && cls != "accepted-complete" && cls != "wrong" && cls != "crash" {
				r.Violation(id, "final-not-accepted", map[string]any{"class": cls, "explanation": "the command exited on its own, but its output is not a complete index"})
			}
			os.Remove(out)
		})
	}
}

func firstNonEmpty(a, b string) string {
	if a != "" {
		return a
	}
	return b
}

// c06Large is the dataset whose index spans several MiB (about 8 MiB in the quick tier, 16 MiB in the thorough tier).
func c06Large(r *vf.Run) c06Data {
	n := r.Pick(45000, 90000)
	return c06Data{"large", n, []int{n, n / 3, 7000, 500, 40, 3}}
}

var straceSync = regexp.MustCompile(`^(\d+)\s+(fdatasync|fsync|ftruncate|rename|renameat|renameat2)\(`)

func c06OutputSyncSweep(r *vf.Run, cid, dir, in string, d c06Data, big bool, tmpDir string) {
	mode := "normal"
	if big {
		mode = "big"
	}
	run := func(n int, out, log string) childResult {
		args := []string{"-f", "-P", out, "-o", log, "-e", "trace=fdatasync,fsync,ftruncate,rename,renameat,renameat2"}
		if n > 0 {
			args = append(args, "-e", fmt.Sprintf("inject=fdatasync,fsync,ftruncate,rename,renameat,renameat2:signal=KILL:when=%d", n))
		}
		args = append(args, binPath("updog"), "create", "-o", out)
		if big {
			args = append(args, "-b")
		}
		return runChild(r, "/usr/bin/strace", append(args, in), childOpts{Timeout: 5 * time.Minute, TmpDir: tmpDir})
	}
	count := func(log string) (total, maxPer int) {
		b, _ := os.ReadFile(log)
		per := map[string]int{}
		for _, line := range strings.Split(string(b), "\n") {
			if m := straceSync.FindStringSubmatch(line); m != nil && !strings.Contains(line, "unfinished") {
				total++
				per[m[1]]++
			}
		}
		for _, v := range per {
			if v > maxPer {
				maxPer = v
			}
		}
		return
	}
	flog := filepath.Join(dir, "sync-full.strace")
	full := filepath.Join(dir, "sync-full.updog")
	if res := run(0, full, flog); res.TimedOut || res.Code != 0 {
		r.Inconclusive(cid + ": full run under strace -P failed")
		return
	}
	os.Remove(full)
	total, maxPer := count(flog)
	r.Extra("output_sync_calls_in_full_run_"+d.id+"_"+mode, total)
	if total == 0 {
		r.Inconclusive(cid + ": no sync call on the output path seen")
		return
	}
	// when=N counts per thread and the Go scheduler moves the writer between threads, so every N is tried a few times;
	// the position actually reached is read back from the log
	limit, reps := maxPer, 2
	if r.Quick() && limit > 14 {
		limit = 14
	}
	if r.Thorough() {
		reps = 3
		if limit > 200 {
			limit = 200
		}
	}
	var ids []string
	for n := 1; n <= limit; n++ {
		for rep := 0; rep < reps; rep++ {
			ids = append(ids, fmt.Sprintf("%s/sync%d.%d", cid, n, rep))
		}
	}
	r.ForEach(ids, 8, func(id string) {
		var n, rep int
		fmt.Sscanf(id[strings.LastIndex(id, "/sync")+5:], "%d.%d", &n, &rep)
		out := filepath.Join(dir, fmt.Sprintf("sync-out-%d-%d.updog", n, rep))
		log := filepath.Join(dir, fmt.Sprintf("sync-kill-%d-%d.strace", n, rep))
		res := run(n, out, log)
		if res.TimedOut {
			hangVerdict(r, id, res, nil)
			return
		}
		pos, _ := count(log)
		lb, _ := os.ReadFile(log)
		killed := straceKilled.Match(lb)
		r.Eval(1)
		if killed {
			r.Cover("output_sync_kill_positions_"+mode, fmt.Sprintf("%s@%d", d.id, pos))
			r.Count("output_sync_kills_"+mode, 1)
		}
		cls := classifyInChild(r, id, out, d, map[string]any{"engine": "strace-sigkill-at-output-sync", "mode": mode, "dataset": d.id, "when": n, "sync_calls_on_output_before_death": pos, "sync_calls_on_output_in_full_run": total, "killed": killed})
		r.Count("class_"+cls, 1)
		r.Distinct(fmt.Sprintf("%s@%d", id, pos))
		if !killed && res.Code != 0 {
			r.Count("strace_runs_failed_without_kill", 1)
			r.Extra("strace_run_failed_without_kill_sync"+fmt.Sprint(n), map[string]any{"exit": res.Code, "stderr": tail(res.Stderr, 600), "strace_log_tail": tail(string(lb), 600), "class": cls})
		}
		if !killed && res.Code == 0 && cls != "accepted-complete" && cls != "wrong" && cls != "crash" && cls != "panic" {
			r.Violation(id, "final-not-accepted", map[string]any{"class": cls, "explanation": "the command was not killed and exited with status 0, but its output is not a complete index", "stderr": tail(res.Stderr, 600), "strace_log_tail": tail(string(lb), 600)})
		}
		os.Remove(out)
		os.Remove(log)
	})
}

// c06Dense: few values, many rows: more than 4 MiB of serialised bitmaps in a handful of keys (a copy of the finished
// data in bounded transactions needs several of them, although the writer itself commits only once).
func c06Dense(r *vf.Run) c06Data {
	n := r.Pick(170000, 320000)
	return c06Data{"dense", n, []int{16, 15, 14, 13, 12, 11, 10, 9, 16, 15, 14, 13, 12, 11, 10, 9}}
}
