package main

import (
	"database/sql"
	"fmt"
	"os"
	"path/filepath"
	"strings"

	"github.com/akrennmair/updog/internal/queryparser"
	pb "github.com/akrennmair/updog/proto/updog/v1"
	"github.com/akrennmair/updog/verifharness/gen"
	"github.com/akrennmair/updog/verifharness/ix"
	"github.com/akrennmair/updog/verifharness/oracle"
	"github.com/akrennmair/updog/verifharness/vf"
	"google.golang.org/protobuf/proto"
)

func init() { register("C11", "exploration", runC11) }

// replaceDirect checks queryparser.ReplacePlaceholders on one parsed text with
// sufficient arguments: result = my substitution of the reference tree, input
// query untouched.
func replaceDirect(text string, args []string) string {
	q, err := queryparser.ParseQuery(text)
	if err != nil {
		return "" // not this check's business (C09)
	}
	ref, refGB, ok := oracle.RefParse(text)
	if !ok {
		return ""
	}
	if int(oracle.MaxPlaceholder(ref)) > len(args) {
		return ""
	}
	q.Id = 7
	before, _ := proto.Marshal(q)
	var out *pb.Query
	if p, msg, stack := vf.Try(func() { out = queryparser.ReplacePlaceholders(q, args) }); p {
		return "ReplacePlaceholders panicked with sufficient arguments: " + msg + "\n" + head(stack, 2000)
	}
	after, _ := proto.Marshal(q)
	if string(before) != string(after) {
		return "the parsed query was modified by ReplacePlaceholders"
	}
	want, _ := oracle.Substitute(ref, args)
	got, complete := oracle.FromProto(out.GetExpr())
	if !complete || !oracle.Equal(got, want) {
		s := "<incomplete>"
		if got != nil {
			s = got.String()
		}
		return fmt.Sprintf("substituted tree %s, want %s", s, want.String())
	}
	if strings.Join(out.GroupBy, "\x00") != strings.Join(refGB, "\x00") || out.Id != 7 {
		return fmt.Sprintf("group-by/id changed: %q id %d", out.GroupBy, out.Id)
	}
	return ""
}

func runC11(r *vf.Run) {
	r.Rule("one evaluation = one binding: either ReplacePlaceholders called directly (result compared with the substitution of the reference tree; input compared with its serialisation taken before), " +
		"or one execution through database/sql (Prepare+Stmt.Query or direct DB.Query) whose rows were compared with the row oracle's table for the literal query; " +
		"texts mix literals and placeholders (repeated, out of order, gaps), argument lists are exact, too few or too many; statements are executed 1-6 times with different arguments; statement-lifetime scenarios keep several handles for one text alive (prepared twice and one closed, prepared inside a transaction, tx.Stmt, re-prepared after Close, 2-5 result sets of one statement open at once); " +
		"typed integers: every Go integer type at its boundaries binds as its decimal text (the dataset also holds the texts a wrap-around would produce; an error is accepted only for unsigned values above MaxInt64); " +
		"distinct_nontrivial = distinct (query text, argument list, path) triples")
	r.Assume("arguments are strings and integers", "column names are identifiers of the query language")
	n := r.Pick(60, 2500)
	var ids []string
	for i := 0; i < n; i++ {
		ids = append(ids, fmt.Sprintf("ds%03d", i))
	}
	ids = append(ids, "regress-too-few")
	r.ForEach(ids, 12, func(id string) {
		rng := r.RNG(id)
		var ds *gen.Dataset
		if id == "regress-too-few" {
			ds = &gen.Dataset{ID: id, Rows: []oracle.Row{{"x": "a", "y": "b"}, {"x": "a", "y": "c"}, {"x": "q", "y": "b"}}}
			ds.Index()
		} else {
			ds = identDataset(rng, id, 1+rng.Intn(r.Pick(2000, 10000)), rng.Intn(2) == 0)
		}
		cols := ds.ColNames()
		if len(cols) == 0 {
			return
		}
		dir := filepath.Join(r.Scratch, id)
		mustMkdir(dir)
		path := filepath.Join(dir, "ds.updog")
		if err := ix.Build(ix.Writers[rng.Intn(3)], path, ds.Rows); err != nil {
			r.Violation(id, "build", err.Error())
			return
		}
		db, err := sql.Open("updog", "file:"+path)
		if err != nil {
			r.Violation(id, "sql.Open", err.Error())
			return
		}
		// a panic that crossed database/sql leaves its internal locks held: the handle must not be used or closed afterwards
		poisoned := false
		defer func() {
			if !poisoned {
				db.Close()
			}
		}()
		db.SetMaxOpenConns(1 + rng.Intn(4))
		nq := r.Pick(25, 60)
		for qi := 0; qi < nq; qi++ {
			qid := fmt.Sprintf("%s/q%d", id, qi)
			if !r.Want(qid) {
				continue
			}
			rng := r.RNG(qid) // per-case stream: a replay of this case alone draws the same choices
			e := gen.Expr(rng, ds, cols, rng.Intn(4), 3)
			gb := gen.GroupBy(rng, ds, rng.Intn(3), 3000)
			if id == "regress-too-few" && qi == 0 {
				e, gb = oracle.And(oracle.Eq("x", "a"), oracle.Eq("y", "b")), nil
			}
			tmpl, args, strArgs := withPlaceholders(rng, e)
			if id == "regress-too-few" && qi == 0 {
				tmpl, args, strArgs = oracle.And(oracle.PhEq("x", 1), oracle.PhEq("y", 2)), []any{"a", "b"}, []string{"a", "b"}
			}
			text := gen.FormatQuery(tmpl, gb)
			need := int(oracle.MaxPlaceholder(tmpl))

			// (a) ReplacePlaceholders directly, sufficient arguments only
			r.Eval(1)
			if d := replaceDirect(text, strArgs); d != "" {
				r.Violation(qid, "replace", map[string]any{"text": fmt.Sprintf("%q", text), "args": fmt.Sprintf("%q", strArgs), "problem": d})
				continue
			}
			r.Distinct(text + "|direct|" + fmt.Sprintf("%q", strArgs))

			// (b) a prepared statement executed several times with different arguments, interleaved with one-shot queries
			stmt, err := db.Prepare(text)
			if err != nil {
				r.Violation(qid, "prepare", map[string]any{"text": fmt.Sprintf("%q", text), "error": err.Error()})
				continue
			}
			execs := 1 + rng.Intn(6)
			var prevStr []string
			var pending []string // second half of a boundary-shift pair, to be used by the next execution
			pendingStmt := false
			for x := 0; x < execs; x++ {
				// argument list for this execution: the original values, or other values of the columns
				curArgs := append([]any{}, args...)
				curStr := append([]string{}, strArgs...)
				if x > 0 {
					for i := range curArgs {
						if rng.Intn(2) == 0 {
							var v string
							switch rng.Intn(3) {
							case 0:
								v = gen.Hostile[rng.Intn(len(gen.Hostile))]
							case 1:
								c := cols[rng.Intn(len(cols))]
								v = ds.Vals[c][rng.Intn(len(ds.Vals[c]))]
							default:
								v = fmt.Sprint(rng.Intn(20))
							}
							curArgs[i], curStr[i] = v, v
							if rng.Intn(4) == 0 {
								// integer arguments of any size and sign bind as their decimal text
								n := []int64{-1, -5, 0, 1 << 31, 1<<31 - 1, 1 << 32, 1<<63 - 1, -1 << 63, 1234567890123}[rng.Intn(9)]
								curArgs[i], curStr[i] = n, fmt.Sprint(n)
							}
						}
					}
				}
				forceStmt := false
				if pending != nil && len(pending) == len(curStr) {
					// ("p0", "p1"+sep+"p2") right after ("p0"+sep+"p1", "p2") on the same path: any shortcut that identifies an
					// argument list by its joined bytes confuses the two
					for k := range curStr {
						curStr[k], curArgs[k] = pending[k], any(pending[k])
					}
					pending, forceStmt = nil, true
					r.Count("executions_with_shifted_argument_boundary", 1)
				} else if len(curStr) >= 2 && rng.Intn(4) == 0 && x+1 < execs {
					sep := []string{"\x00", ",", " ", "|", ";", "\x1f", "\n", "$", "\x00\x00"}[rng.Intn(9)]
					p := []string{gen.Hostile[rng.Intn(len(gen.Hostile))], fmt.Sprint(rng.Intn(9)), "z"}
					i := rng.Intn(len(curStr) - 1)
					// p0 is a value that really occurs in the column of placeholder i+1: the second execution of the pair
					// (p0, p1+sep+p2) then matches rows while the first (p0+sep+p1, p2) does not, so confusing them shows
					if col := columnOfPlaceholder(tmpl, int32(i+1)); col != "" && len(ds.Vals[col]) > 0 {
						p[0] = ds.Vals[col][rng.Intn(len(ds.Vals[col]))]
					}
					curStr[i], curStr[i+1] = p[0]+sep+p[1], p[2]
					curArgs[i], curArgs[i+1] = curStr[i], curStr[i+1]
					pending = append([]string{}, curStr...)
					pending[i], pending[i+1] = p[0], p[1]+sep+p[2]
					forceStmt, pendingStmt = true, true
				} else if x > 0 && len(prevStr) >= 2 && len(prevStr) == len(curStr) && rng.Intn(3) == 0 {
					// the same bytes as the previous execution, split differently between two neighbouring arguments:
					// ("x"+sep+"y", "z") then ("x", "y"+sep+"z")
					sep := []string{"\x00", ",", " ", "|", ";", "\x1f", "", "\n", "$"}[rng.Intn(9)]
					i := rng.Intn(len(prevStr) - 1)
					joined := prevStr[i] + sep + prevStr[i+1]
					cut := 0
					if len(joined) > 0 {
						cut = rng.Intn(len(joined) + 1)
					}
					for k := range curStr {
						curStr[k], curArgs[k] = prevStr[k], any(prevStr[k])
					}
					curStr[i], curStr[i+1] = joined[:cut], joined[cut:]
					curArgs[i], curArgs[i+1] = curStr[i], curStr[i+1]
					r.Count("executions_with_resplit_arguments", 1)
				}
				prevStr = append([]string{}, curStr...)
				kind := "exact"
				switch rng.Intn(6) {
				case 0:
					if need > 0 {
						kind = "too-few"
						k := rng.Intn(need)
						curArgs, curStr = curArgs[:k], curStr[:k]
					}
				case 1:
					kind = "too-many"
					curArgs, curStr = append(curArgs, "extra"), append(curStr, "extra")
				}
				if id == "regress-too-few" && qi == 0 && x == 0 {
					kind, curArgs, curStr = "too-few", []any{"a"}, []string{"a"}
				}
				if kind == "exact" && len(curArgs) > need {
					kind = "too-many" // a trailing argument that no placeholder refers to
				}
				viaStmt := rng.Intn(2) == 0
				if forceStmt {
					viaStmt, kind = pendingStmt, "exact"
					if len(curArgs) > need {
						curArgs, curStr = curArgs[:need], curStr[:need]
					}
				}
				if id == "regress-too-few" && qi == 0 {
					viaStmt = x%2 == 1
				}
				path := "direct"
				if viaStmt {
					path = "prepared"
				}
				r.Cover("paths", path)
				r.Cover("argument_counts", kind)
				r.Count("executions_"+path+"_"+kind, 1)
				r.Eval(1)
				r.Distinct(text + "|" + path + "|" + fmt.Sprintf("%q", curStr))
				var rows *sql.Rows
				var qerr error
				panicked, msg, stack := vf.Try(func() {
					if viaStmt {
						rows, qerr = stmt.Query(curArgs...)
					} else {
						rows, qerr = db.Query(text, curArgs...)
					}
				})
				w := map[string]any{"text": fmt.Sprintf("%q", text), "args": fmt.Sprintf("%q", curStr), "path": path, "execution": x + 1, "argument_count": kind}
				if panicked {
					w["panic"], w["stack"] = msg, head(stack, 3000)
					r.Violation(qid, "panic", w)
					poisoned = true
					return
				}
				sub, enough := oracle.Substitute(tmpl, curStr)
				if !enough {
					if qerr == nil {
						t, _ := readRows(rows)
						w["rows"] = fmtRows(t.Rows, 5)
						r.Violation(qid, "too-few-arguments-accepted", w)
					}
					continue
				}
				want := oracle.Eval(ds.Rows, ds.Cols, sub, gb)
				if os.Getenv("VERIF_DEBUG_C11") != "" && forceStmt {
					fmt.Fprintf(os.Stderr, "PAIR %s x=%d viaStmt=%v kind=%s args=%q wantCount=%d err=%v\n", qid, x, viaStmt, kind, curStr, want.Count, qerr)
				}
				if kind == "too-many" && qerr != nil {
					continue // an error is acceptable for surplus arguments
				}
				if want.Err {
					if qerr == nil {
						rows.Close()
						w["problem"] = "query on an unknown column returned rows"
						r.Violation(qid, "rows", w)
					}
					continue
				}
				if qerr != nil {
					w["error"] = qerr.Error()
					r.Violation(qid, "unexpected-error", w)
					continue
				}
				got, rerr := readRows(rows)
				if rerr != nil {
					w["error"] = rerr.Error()
					r.Violation(qid, "rows", w)
					continue
				}
				if d := compareTables(got, expectedTable(want, gb)); d != "" {
					w["difference"], w["literal_query"] = d, sub.String()
					w["first_rows"] = witnessRows(ds, 15)
					r.Violation(qid, "rows", w)
				}
			}
			stmt.Close()
			r.Max("executions_of_one_statement", int64(execs))
			if qi == 3 && id == "ds000" {
				r.Sample("statement", map[string]any{"text": text, "args": fmt.Sprintf("%q", strArgs), "executions": execs})
			}
		}
	})
	c11Lifetimes(r)
	c11TypedIntegers(r)
	c11Lookalikes(r)
	c11ManyPlaceholders(r)
	c11Cancelled(r)
	c11ArgumentForms(r)
	racePass(r)
	r.Floor("Prepare and direct path both used", r.Covered("paths") == 2)
	r.Floor("too-few, exact and too-many argument lists all seen", r.Covered("argument_counts") == 3)
}

func columnOfPlaceholder(e *oracle.Expr, n int32) string {
	if e.Op == '=' {
		if e.Ph == n {
			return e.Col
		}
		return ""
	}
	for _, k := range e.Kids {
		if c := columnOfPlaceholder(k, n); c != "" {
			return c
		}
	}
	return ""
}
