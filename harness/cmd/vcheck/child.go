package main

import (
	"encoding/gob"
	"fmt"
	"os"
	"os/exec"
	"path/filepath"
	"strings"
	"sync"
	"sync/atomic"
	"syscall"
	"time"

	"github.com/akrennmair/updog/verifharness/mon"
	"github.com/akrennmair/updog/verifharness/vf"
)

// binPath returns the path of a binary built by ./check (vcheck, vcheck.race,
// updog, updog.verif, updog.race).
func binPath(name string) string {
	d := os.Getenv("VERIF_BIN")
	if d == "" {
		d = filepath.Join(vf.Root(), ".build")
	}
	return filepath.Join(d, name)
}

func haveBin(name string) bool {
	_, err := os.Stat(binPath(name))
	return err == nil
}

type childResult struct {
	Stdout   string
	Stderr   string
	Code     int
	Signaled bool
	Signal   syscall.Signal
	TimedOut bool
	Dump     string // goroutine dump collected on timeout (stderr after SIGQUIT)
	Wall     time.Duration
}

var childSeq int64

type childOpts struct {
	Env     []string
	Timeout time.Duration
	Dir     string
	Stdin   string
	RaceLog string // if set, GORACE is pointed at this log prefix (halt_on_error=0)
	TmpDir  string // TMPDIR of the child (default: the run's scratch directory)
}

// runChild runs a command with stdout/stderr redirected to files (so that a
// goroutine dump survives) under a generous wall-clock watchdog whose firing is
// reported as TimedOut, never directly as a violation.
func runChild(r *vf.Run, bin string, args []string, o childOpts) childResult {
	n := atomic.AddInt64(&childSeq, 1)
	base := filepath.Join(r.Scratch, fmt.Sprintf("child-%d", n))
	outF, _ := os.Create(base + ".out")
	errF, _ := os.Create(base + ".err")
	defer os.Remove(base + ".out")
	defer os.Remove(base + ".err")
	cmd := exec.Command(bin, args...)
	cmd.Stdout = outF
	cmd.Stderr = errF
	cmd.Dir = o.Dir
	if o.Stdin != "" {
		f, err := os.Open(o.Stdin)
		if err == nil {
			cmd.Stdin = f
			defer f.Close()
		}
	}
	tmpDir := r.Scratch
	if o.TmpDir != "" {
		tmpDir = o.TmpDir
	}
	cmd.Env = append(os.Environ(), "TMPDIR="+tmpDir)
	if o.RaceLog != "" {
		cmd.Env = append(cmd.Env, "GORACE=halt_on_error=0 log_path="+o.RaceLog)
	}
	cmd.Env = append(cmd.Env, o.Env...)
	cmd.SysProcAttr = &syscall.SysProcAttr{Setpgid: true}
	if o.Timeout == 0 {
		o.Timeout = 120 * time.Second
	}
	t0 := time.Now()
	var res childResult
	if err := cmd.Start(); err != nil {
		res.Code = -1
		res.Stderr = err.Error()
		return res
	}
	done := make(chan error, 1)
	go func() { done <- cmd.Wait() }()
	var werr error
	select {
	case werr = <-done:
	case <-time.After(o.Timeout):
		res.TimedOut = true
		_ = syscall.Kill(-cmd.Process.Pid, syscall.SIGQUIT)
		select {
		case werr = <-done:
		case <-time.After(15 * time.Second):
			_ = syscall.Kill(-cmd.Process.Pid, syscall.SIGKILL)
			werr = <-done
		}
	}
	res.Wall = time.Since(t0)
	outF.Close()
	errF.Close()
	ob, _ := os.ReadFile(base + ".out")
	eb, _ := os.ReadFile(base + ".err")
	res.Stdout, res.Stderr = string(ob), string(eb)
	if res.TimedOut {
		res.Dump = res.Stderr
	}
	if werr != nil {
		if ee, ok := werr.(*exec.ExitError); ok {
			res.Code = ee.ExitCode()
			if ws, ok := ee.Sys().(syscall.WaitStatus); ok && ws.Signaled() {
				res.Signaled = true
				res.Signal = ws.Signal()
			}
		} else {
			res.Code = -1
		}
	}
	return res
}

// hangVerdict turns a watchdog firing into a verdict: a goroutine parked inside
// the code under test in a state that cannot progress is a violation with the
// dump as witness, anything else is inconclusive.
func hangVerdict(r *vf.Run, caseID string, res childResult, what map[string]any) {
	cause := mon.ClassifyDump(res.Dump)
	if cause != "" {
		w := map[string]any{"blocked": cause, "goroutine_dump": tail(res.Dump, 30000), "wall_s": res.Wall.Seconds()}
		for k, v := range what {
			w[k] = v
		}
		r.Violation(caseID, "hang", w)
		return
	}
	sample := ""
	if os.Getenv("VERIF_DEBUG") != "" {
		for _, g := range strings.Split(res.Dump, "\n\n") {
			if strings.Contains(g, "akrennmair/updog.") && len(sample) < 3000 {
				sample += head(g, 700) + " || "
			}
		}
	}
	r.Inconclusive(fmt.Sprintf("case %s: watchdog fired after %.0fs without a goroutine blocked in updog/bbolt code %s", caseID, res.Wall.Seconds(), sample))
}

func tail(s string, n int) string {
	if len(s) <= n {
		return s
	}
	return "…" + s[len(s)-n:]
}

func head(s string, n int) string {
	if len(s) <= n {
		return s
	}
	return s[:n] + "…"
}

// checkRaceLog reads the race logs with the given prefix and reports every
// report that passes through updog code as a violation (deduplicated).
func checkRaceLog(r *vf.Run, caseID, prefix string) int {
	reps, err := mon.ParseRaceLogs(prefix)
	if err != nil {
		r.Inconclusive("race log unreadable: " + err.Error())
		return 0
	}
	n := 0
	seen := map[string]bool{}
	for _, rep := range reps {
		n++
		if seen[rep.Key] {
			continue
		}
		seen[rep.Key] = true
		if !rep.Updog {
			r.Inconclusive("race report without any updog frame (harness code?): " + head(rep.Text, 600))
			continue
		}
		if len(seen) <= 5 {
			r.Violation(caseID+"/race-"+vf.Digest(rep.Key), "data-race", map[string]any{"entry_points": rep.Key, "through_updog_code": rep.Updog, "report": head(rep.Text, 12000)})
		}
	}
	r.Count("race_reports", int64(n))
	r.Count("race_reports_distinct", int64(len(seen)))
	return n
}

// newCmd prepares a long-running child (server) with output to a log file.
func newCmd(bin string, args []string, env []string, log *os.File) *exec.Cmd {
	cmd := exec.Command(bin, args...)
	if log != nil {
		cmd.Stdout = log
		cmd.Stderr = log
	}
	cmd.Env = append(os.Environ(), env...)
	cmd.SysProcAttr = &syscall.SysProcAttr{Setpgid: true, Pdeathsig: syscall.SIGKILL}
	return cmd
}

// racePass repeats the property's quick case list in a child built with the race
// detector (which also switches on checkptr for the unsafe zero-copy bitmap views
// over the bbolt mmap). Thorough tier only. Violations found by the child are
// passed on; race reports through updog code are violations of their own.
func racePass(r *vf.Run) {
	if !r.Thorough() || r.Replay() {
		return
	}
	if !haveBin("vcheck.race") {
		r.Inconclusive("race-detector build of the harness not available for the race/checkptr pass")
		return
	}
	sub := filepath.Join(r.Scratch, "race-pass")
	_ = os.MkdirAll(sub, 0o755)
	logp := filepath.Join(r.Scratch, "race-pass.log")
	res := runChild(r, binPath("vcheck.race"), []string{"exec", r.Prop, "quick"}, childOpts{
		Env:     []string{"VERIF_NO_EVIDENCE=1", "VERIF_SCRATCH_DIR=" + sub, "VERIF_PROGRESS=", "VERIF_RACE_PASS=1"},
		Timeout: 90 * time.Minute, RaceLog: logp,
	})
	r.Count("race_checkptr_pass_runs", 1)
	if res.TimedOut {
		r.Inconclusive("race/checkptr pass exceeded its watchdog")
		return
	}
	for _, line := range strings.Split(res.Stdout, "\n") {
		if strings.HasPrefix(line, "VIOLATION ") {
			fmt.Println(line)
			r.Count("violations_in_race_checkptr_pass", 1)
		}
		if strings.HasPrefix(line, "RESULT ") {
			r.Extra("race_checkptr_pass_result", line)
		}
	}
	checkRaceLog(r, "race-pass", logp)
	switch {
	case res.Code == 1:
		r.Violation("race-pass", "violation-under-race-detector", map[string]any{"stdout": tail(res.Stdout, 4000), "stderr": tail(res.Stderr, 4000)})
	case res.Code != 0 && res.Code != 2:
		if strings.Contains(res.Stderr, "checkptr") || strings.Contains(res.Stderr, "fatal error:") || strings.Contains(res.Stderr, "panic:") {
			r.Violation("race-pass", "crash-under-race-detector", map[string]any{"stderr": tail(res.Stderr, 12000)})
		} else {
			r.Inconclusive(fmt.Sprintf("race/checkptr pass ended with exit code %d: %s", res.Code, tail(res.Stderr, 300)))
		}
	}
}

// writeSpec / readSpec hand a case specification to a child process. gob, not JSON: dataset values and query
// literals are arbitrary byte strings and JSON would replace invalid UTF-8 by U+FFFD on the way.
func writeSpec(path string, v any) error {
	f, err := os.Create(path)
	if err != nil {
		return err
	}
	defer f.Close()
	return gob.NewEncoder(f).Encode(v)
}

func readSpec(path string, v any) error {
	f, err := os.Open(path)
	if err != nil {
		return err
	}
	defer f.Close()
	return gob.NewDecoder(f).Decode(v)
}

var (
	otherFSOnce sync.Once
	otherFSPath string
)

// otherFSDir returns a directory on ANOTHER file system than the run's scratch directory ("" if there is none): the
// place for TMPDIR when a command's temporary files and its output must not share a file system (rename and link
// across file systems fail with EXDEV; a copy is not atomic and may truncate).
func otherFSDir(r *vf.Run) string {
	otherFSOnce.Do(func() {
		var sst syscall.Stat_t
		if syscall.Stat(r.Scratch, &sst) != nil {
			return
		}
		for _, base := range otherFSBases() {
			_ = os.MkdirAll(base, 0o755)
			// named after the scratch directory, so that the supervisor can remove it with the run
			d := filepath.Join(base, "otherfs-"+filepath.Base(r.Scratch))
			if err := os.MkdirAll(d, 0o755); err != nil {
				continue
			}
			var st syscall.Stat_t
			if syscall.Stat(d, &st) == nil && st.Dev != sst.Dev {
				otherFSPath = d
				return
			}
			os.RemoveAll(d)
		}
	})
	return otherFSPath
}

// pickTmp chooses the TMPDIR of a command from its output path: every third command gets a TMPDIR on another file
// system than its output.
func pickTmp(r *vf.Run, out string) string {
	h := 0
	for i := 0; i < len(out); i++ {
		h = h*31 + int(out[i])
	}
	if h < 0 {
		h = -h
	}
	if h%3 == 0 {
		if d := otherFSDir(r); d != "" {
			r.Count("commands_with_tmpdir_on_another_file_system", 1)
			return d
		}
	}
	return ""
}

func otherFSBases() []string {
	return []string{filepath.Join(vf.Root(), ".scratch"), os.TempDir(), "/var/tmp", "/dev/shm"}
}
