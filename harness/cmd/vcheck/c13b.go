package main

import (
	"context"
	"database/sql"
	"fmt"
	"path/filepath"
	"reflect"
	"strings"
	"syscall"
	"time"

	"google.golang.org/grpc"

	pb "github.com/akrennmair/updog/proto/updog/v1"

	"github.com/akrennmair/updog/verifharness/gen"
	"github.com/akrennmair/updog/verifharness/ix"
	"github.com/akrennmair/updog/verifharness/oracle"
	"github.com/akrennmair/updog/verifharness/vf"
)

// c13OddNames (round 6): an index whose column names are legal for the library and for the wire but not for the text
// language -- the empty string, blanks, punctuation of the query language, a digit first, upper/lower twins, a name
// that is another name plus a blank -- queried by direct RPC batches. The service answers like the library, which is
// what the row oracle says; a service-side "is this field set?" test cannot tell an empty name from an absent one.
func c13OddNames(r *vf.Run) {
	did := "oddnames"
	if !r.Want(did) {
		return
	}
	names := []string{"", " ", "a b", "a", "A", "a ", "1x", "a,b", "x;y", "$1", "^", "é", "count", "\t"}
	rng := r.RNG(did)
	ds := &gen.Dataset{ID: did}
	for i := 0; i < 900; i++ {
		row := oracle.Row{}
		for ci, n := range names {
			if (i+ci)%4 == 0 {
				continue
			}
			row[n] = []string{"", "x", "y", " ", "long value " + fmt.Sprint(i%5)}[(i/(ci+1)+ci)%5]
		}
		ds.Rows = append(ds.Rows, row)
	}
	ds.Index()
	dir := filepath.Join(r.Scratch, did)
	mustMkdir(dir)
	path := filepath.Join(dir, "srv.updog")
	if err := ix.Build(ix.Writers[int(r.Seed)%3], path, ds.Rows); err != nil {
		r.Violation(did, "build", err.Error())
		return
	}
	// pool: every column as a leaf and as the only group-by column, plus generated expressions over all of them
	var pool []c04Query
	for _, n := range names {
		for _, v := range []string{"", "x", "no such value"} {
			e := oracle.Eq(n, v)
			for _, gb := range [][]string{nil, {n}, {"a", n}} {
				pool = append(pool, c04Query{E: e, GB: gb, Want: oracle.Eval(ds.Rows, ds.Cols, e, gb)})
			}
			ne := oracle.Not(e)
			pool = append(pool, c04Query{E: ne, GB: nil, Want: oracle.Eval(ds.Rows, ds.Cols, ne, nil)})
		}
	}
	pool = append(pool, c13Pool(rng, ds, 60)...)
	for oi, so := range serverOptionSets {
		if (oi+int(r.Seed))%2 != 0 && !r.Thorough() {
			continue
		}
		sid := did + "/" + so.name
		if !r.Want(sid) {
			continue
		}
		sp, err := startServer(r, binPath("updog"), path, so.args, nil)
		if err != nil {
			r.Inconclusive(sid + ": " + err.Error())
			continue
		}
		c13Batches(r, sid, sp, rng, pool, r.Pick(60, 200), ds.Rows, ds.Cols)
		alive := sp.alive()
		_, log := sp.stop()
		if !alive || strings.Contains(log, "panic:") {
			r.Violation(sid, "server-died", map[string]any{"log": tail(log, 8000)})
		}
		r.Count("servers_on_index_with_unusual_column_names", 1)
	}
}

// c13StmtLifecycles (round 6): statements whose preparation and execution happen under different contexts, on the
// grpc:// and on the file: handle. A statement prepared under a context that has ended since (the usual
// WithTimeout + defer cancel around set-up code) is executed later under a live one; a pinned connection is used the
// same way; one-shot queries run under contexts with generous deadlines. Every execution must return the rows the
// oracle expects on both handles.
func c13StmtLifecycles(r *vf.Run, sid string, gdb, fdb *sql.DB, ds *gen.Dataset) {
	cid := sid + "/sql-lifecycles"
	if !r.Want(cid) {
		return
	}
	rng := r.RNG(cid)
	cols := ds.ColNames()
	type prepared struct {
		text    string
		args    []any
		strArgs []string
		want    oracle.Answer
		gb      []string
		st      map[string]*sql.Stmt
	}
	var ps []*prepared
	handles := map[string]*sql.DB{"grpc": gdb, "file": fdb}
	for len(ps) < 6 {
		e := gen.Expr(rng, ds, cols, rng.Intn(3), 3)
		gb := gen.GroupBy(rng, ds, rng.Intn(3), 1500)
		if !validUTF8Expr(e) {
			continue
		}
		want := oracle.Eval(ds.Rows, ds.Cols, e, gb)
		if want.Err {
			continue
		}
		tmpl, args, strArgs := withPlaceholders(rng, e)
		p := &prepared{text: gen.FormatQuery(tmpl, gb), args: args, strArgs: strArgs, want: want, gb: gb, st: map[string]*sql.Stmt{}}
		ok := true
		for hn, db := range handles {
			// set-up code: everything prepared under one context that ends when set-up is over
			var ctx context.Context
			var cancel context.CancelFunc
			switch len(ps) % 3 {
			case 0:
				ctx, cancel = context.WithCancel(context.Background())
			case 1:
				ctx, cancel = context.WithTimeout(context.Background(), 30*time.Second)
			default:
				ctx, cancel = context.WithDeadline(context.Background(), time.Now().Add(30*time.Second))
			}
			st, err := db.PrepareContext(ctx, p.text)
			cancel()
			if err != nil {
				r.Violation(cid, "prepare", map[string]any{"handle": hn, "text": p.text, "error": err.Error()})
				ok = false
				break
			}
			p.st[hn] = st
		}
		if !ok {
			return
		}
		ps = append(ps, p)
	}
	defer func() {
		for _, p := range ps {
			for _, st := range p.st {
				st.Close()
			}
		}
	}()
	bad := false
	check := func(step, hn string, p *prepared, rows *sql.Rows, err error) {
		r.Eval(1)
		w := map[string]any{"step": step, "handle": hn, "text": fmt.Sprintf("%q", p.text), "args": fmt.Sprintf("%q", p.strArgs), "server": sid}
		if err != nil {
			w["error"] = err.Error()
			r.Violation(cid, "statement-lifecycle", w)
			bad = true
			return
		}
		t, rerr := readRows(rows)
		if rerr != nil {
			w["error"] = rerr.Error()
			r.Violation(cid, "statement-lifecycle", w)
			bad = true
			return
		}
		if d := compareTables(t, expectedTable(p.want, p.gb)); d != "" {
			w["difference"] = d
			r.Violation(cid, "statement-lifecycle", w)
			bad = true
		}
	}
	for round := 0; round < 3 && !bad; round++ {
		for _, p := range ps {
			for _, hn := range []string{"grpc", "file"} {
				if bad {
					break
				}
				st := p.st[hn]
				rows, err := st.Query(p.args...)
				check(fmt.Sprintf("round %d: Stmt.Query on a statement prepared under a context that has ended", round), hn, p, rows, err)
				if bad {
					break
				}
				ctx, cancel := context.WithTimeout(context.Background(), 60*time.Second)
				rows, err = st.QueryContext(ctx, p.args...)
				check(fmt.Sprintf("round %d: Stmt.QueryContext under a live context", round), hn, p, rows, err)
				if !bad {
					rows, err = handles[hn].QueryContext(ctx, p.text, p.args...)
					check(fmt.Sprintf("round %d: DB.QueryContext under a live context", round), hn, p, rows, err)
				}
				cancel()
			}
		}
	}
	// (round 9) an argument of type []byte: whatever text the driver makes of it, the two kinds of data source make the
	// same (one-shot and prepared)
	if !bad {
		col := cols[0]
		for _, arg := range [][]byte{[]byte("x"), []byte(""), []byte("12"), {0xff, 0x00}} {
			text := col + " = $1"
			var tabs [4]sqlTable
			var errs [4]error
			k := 0
			for _, hn := range []string{"grpc", "file"} {
				rows, err := handles[hn].Query(text, arg)
				if err == nil {
					tabs[k], err = readRows(rows)
				}
				errs[k] = err
				k++
				st, err := handles[hn].Prepare(text)
				if err == nil {
					var rows *sql.Rows
					if rows, err = st.Query(arg); err == nil {
						tabs[k], err = readRows(rows)
					}
					st.Close()
				}
				errs[k] = err
				k++
			}
			r.Eval(1)
			for i := 1; i < 4; i++ {
				if (errs[i] == nil) != (errs[0] == nil) || (errs[0] == nil && compareTables(tabs[i], tabs[0]) != "") {
					r.Violation(cid, "grpc-vs-file-dsn", map[string]any{"text": text, "argument": fmt.Sprintf("[]byte(%q)", arg), "server": sid,
						"results": fmt.Sprintf("grpc one-shot %v %v | grpc prepared %v %v | file one-shot %v %v | file prepared %v %v", fmtRows(tabs[0].Rows, 2), errs[0], fmtRows(tabs[1].Rows, 2), errs[1], fmtRows(tabs[2].Rows, 2), errs[2], fmtRows(tabs[3].Rows, 2), errs[3])})
					bad = true
					break
				}
			}
			if bad {
				break
			}
		}
	}
	// a pinned connection: prepare under a context that ends, execute, and use the same connection for a one-shot query
	for _, hn := range []string{"grpc", "file"} {
		if bad {
			break
		}
		conn, err := handles[hn].Conn(context.Background())
		if err != nil {
			r.Violation(cid, "conn", map[string]any{"handle": hn, "error": err.Error()})
			break
		}
		for _, p := range ps[:3] {
			ctx, cancel := context.WithCancel(context.Background())
			st, err := conn.PrepareContext(ctx, p.text)
			cancel()
			if err != nil {
				r.Violation(cid, "prepare", map[string]any{"handle": hn, "text": p.text, "error": err.Error(), "step": "pinned connection"})
				bad = true
				break
			}
			rows, err := st.QueryContext(context.Background(), p.args...)
			check("pinned connection: statement prepared under a context that has ended", hn, p, rows, err)
			st.Close()
			if bad {
				break
			}
			rows, err = conn.QueryContext(context.Background(), p.text, p.args...)
			check("pinned connection: one-shot query after the statement", hn, p, rows, err)
		}
		conn.Close()
	}
	r.Distinct(cid)
	r.Count("statement_lifecycle_histories", 1)
	_ = reflect.DeepEqual
}

// c13Shutdown (round 7): a termination signal arrives while a large batch is being answered. The client either gets an
// error (the connection breaks, the call is refused) or the complete, correct response -- never a response whose
// results were computed while the index was going away. Signals: SIGTERM and SIGINT, after 20..600 ms of a batch that
// takes longer than that (tens of thousands of comparisons against values read on demand, no cache).
func c13Shutdown(r *vf.Run) {
	did := "shutdown"
	if !r.Want(did) {
		return
	}
	ds := &gen.Dataset{ID: did}
	nvals := 4000
	for i := 0; i < 3*nvals; i++ {
		ds.Rows = append(ds.Rows, oracle.Row{"v": fmt.Sprintf("value-%05d", i%nvals), "w": fmt.Sprint(i % 7)})
	}
	ds.Index()
	dir := filepath.Join(r.Scratch, did)
	mustMkdir(dir)
	path := filepath.Join(dir, "srv.updog")
	if err := ix.Build(ix.Writers[int(r.Seed)%3], path, ds.Rows); err != nil {
		r.Violation(did, "build", err.Error())
		return
	}
	nq := r.Pick(60000, 200000)
	req := &pb.QueryRequest{}
	qs := make([]c04Query, 0, nq)
	for i := 0; i < nq; i++ {
		e := oracle.Eq("v", fmt.Sprintf("value-%05d", (i*37)%nvals))
		var gb []string
		want := oracle.Answer{Count: 3}
		if i%50 == 7 {
			gb = []string{"w"}
			want = oracle.Eval(ds.Rows, ds.Cols, e, gb)
		}
		qs = append(qs, c04Query{E: e, GB: gb, Want: want})
		req.Queries = append(req.Queries, &pb.Query{Expr: e.ToProto(), GroupBy: gb})
	}
	type trial struct {
		sig   syscall.Signal
		after time.Duration
		args  []string
	}
	var trials []trial
	for i, ms := range []int{20, 60, 150, 300, 600, 100} {
		sig := syscall.SIGTERM
		if i%2 == 1 {
			sig = syscall.SIGINT
		}
		args := []string{"--enable-cache=false"}
		if i == 5 {
			args = nil // default cache
		}
		trials = append(trials, trial{sig, time.Duration(ms) * time.Millisecond, args})
	}
	for ti, t := range trials {
		cid := fmt.Sprintf("%s/%s-after-%dms", did, map[syscall.Signal]string{syscall.SIGTERM: "SIGTERM", syscall.SIGINT: "SIGINT"}[t.sig], t.after.Milliseconds())
		if !r.Want(cid) {
			continue
		}
		sp, err := startServer(r, binPath("updog"), path, t.args, nil)
		if err != nil {
			r.Inconclusive(cid + ": " + err.Error())
			continue
		}
		conn, cl, err := dial(sp.addr)
		if err != nil {
			sp.stop()
			r.Inconclusive(cid + ": dial: " + err.Error())
			continue
		}
		// a small request first: the connection is up and the server answers
		if _, err := cl.Query(context.Background(), &pb.QueryRequest{Queries: req.Queries[:3]}); err != nil {
			r.Violation(cid, "rpc-error-for-valid-batch", map[string]any{"error": err.Error(), "step": "warm-up request before the signal"})
			conn.Close()
			sp.stop()
			continue
		}
		type outcome struct {
			resp *pb.QueryResponse
			err  error
		}
		ch := make(chan outcome, 1)
		go func() {
			ctx, cancel := context.WithTimeout(context.Background(), 120*time.Second)
			defer cancel()
			resp, err := cl.Query(ctx, req, grpc.MaxCallRecvMsgSize(256<<20))
			ch <- outcome{resp, err}
		}()
		time.Sleep(t.after)
		_ = syscall.Kill(sp.pid, t.sig)
		o := <-ch
		r.Eval(1)
		w := map[string]any{"signal": t.sig.String(), "sent_after_ms": t.after.Milliseconds(), "batch_size": nq, "server_options": fmt.Sprint(t.args), "trial": ti}
		switch {
		case o.err != nil:
			r.Count("shutdown_trials_ending_in_an_rpc_error", 1)
		default:
			if d := compareBatch(o.resp, qs, nil); d != "" {
				w["difference"] = d
				w["explanation"] = "the call returned a response after the server was told to terminate, and the response is wrong"
				r.Violation(cid, "wrong-response-during-shutdown", w)
			} else {
				r.Count("shutdown_trials_answered_completely", 1)
			}
		}
		conn.Close()
		sp.stop()
		r.Distinct(cid)
	}
}
