package main

import (
	"context"
	"database/sql"
	"fmt"
	"math/rand"
	"path/filepath"
	"reflect"
	"sort"
	"strings"
	"sync"
	"sync/atomic"
	"time"
	"unicode/utf8"

	"github.com/akrennmair/updog"
	"github.com/akrennmair/updog/internal/convert"
	pb "github.com/akrennmair/updog/proto/updog/v1"
	"github.com/akrennmair/updog/verifharness/gen"
	"github.com/akrennmair/updog/verifharness/ix"
	"github.com/akrennmair/updog/verifharness/oracle"
	"github.com/akrennmair/updog/verifharness/vf"
	"google.golang.org/grpc"
	"google.golang.org/grpc/codes"
	"google.golang.org/grpc/credentials/insecure"
	"google.golang.org/grpc/status"
)

func init() { register("C13", "exploration", runC13) }

var serverOptionSets = []struct {
	name string
	args []string
}{
	{"cache-on/preload-off", nil},
	{"cache-off/preload-off", []string{"--enable-cache=false"}},
	{"cache-on/preload-on", []string{"-p"}},
	{"cache-off/preload-on", []string{"--enable-cache=false", "-p"}},
	{"tiny-cache/preload-off", []string{"-s", "2000"}},
}

func dial(addr string) (*grpc.ClientConn, pb.QueryServiceClient, error) {
	conn, err := grpc.NewClient(addr, grpc.WithTransportCredentials(insecure.NewCredentials()))
	if err != nil {
		return nil, nil, err
	}
	return conn, pb.NewQueryServiceClient(conn), nil
}

func runC13(r *vf.Run) {
	r.Rule("one evaluation = one batch sent to a real `updog server` process over loopback gRPC (response length, order, ids, counts and groups compared with the row oracle; a batch with an invalid member must fail as a whole), " +
		"or one query text run through the sql driver with a grpc:// DSN and compared with the file DSN on a copy of the index, or one in-process round trip of the conversion functions; " +
		"distinct_nontrivial = distinct (server option set, batch) pairs")
	r.Assume("strings are valid UTF-8 (other strings cannot cross proto3 string fields: known finding invalid-utf8-on-wire)", "one server process per option combination, loopback TCP")
	if !haveBin("updog") {
		r.Inconclusive("updog binary not built")
		return
	}
	nds := r.Pick(3, 24)
	for di := 0; di < nds; di++ {
		did := fmt.Sprintf("ds%d", di)
		if !r.Want(did) {
			continue
		}
		rng := r.RNG(did)
		ds := identDataset(rng, did, 1+rng.Intn(r.Pick(4000, 30000)), false)
		for len(ds.Cols) < 2 {
			ds = identDataset(rng, did, 1+rng.Intn(4000), false)
		}
		cleanUTF8(ds)
		dir := filepath.Join(r.Scratch, did)
		mustMkdir(dir)
		path := filepath.Join(dir, "srv.updog")
		if err := ix.Build(ix.Writers[di%3], path, ds.Rows); err != nil {
			r.Violation(did, "build", err.Error())
			continue
		}
		copyPath := filepath.Join(dir, "copy.updog")
		_ = ix.CopyFile(path, copyPath)
		pool := c13Pool(rng, ds, 80)
		// (round 8) value lists and conjunctions of 99..1000 comparisons in one flat operator, plain and below NOT: the
		// number of leaves of ONE query, not its depth
		for _, n := range []int{99, 100, 101, 150, 250, 1000} {
			var ops []*oracle.Expr
			for k := 0; k < n; k++ {
				ops = append(ops, gen.Leaf(rng, ds, ds.ColNames()))
			}
			for k, e := range []*oracle.Expr{oracle.Or(ops...), oracle.Not(oracle.Or(ops...)), oracle.And(oracle.Or(ops[:n/2]...), oracle.Not(oracle.And(ops[n/2:]...)))} {
				if validUTF8Expr(e) {
					var gb []string
					if k == 1 {
						gb = gen.GroupBy(rng, ds, 1, 300)
					}
					pool = append(pool, c04Query{E: e, GB: gb, Want: oracle.Eval(ds.Rows, ds.Cols, e, gb)})
				}
			}
		}
		for oi, so := range serverOptionSets {
			sid := did + "/" + so.name
			if !r.Want(sid) {
				continue
			}
			r.Progress(sid)
			sp, err := startServer(r, binPath("updog"), path, so.args, nil)
			if err != nil {
				r.Inconclusive(sid + ": " + err.Error())
				continue
			}
			c13Batches(r, sid, sp, rng, pool, r.Pick(60, 300), ds.Rows, ds.Cols)
			c13Driver(r, sid, sp, rng, ds, copyPath, r.Pick(25, 100))
			if (di+oi)%2 == 0 || r.Thorough() {
				c13Concurrent(r, sid, sp, pool)
			}
			alive := sp.alive()
			_, log := sp.stop()
			if !alive || strings.Contains(log, "panic:") {
				r.Violation(sid, "server-died", map[string]any{"log": tail(log, 8000)})
			}
			r.Cover("server_option_sets", so.name)
		}
	}
	c13OddNames(r)
	c13Shutdown(r)
	c13Conversions(r)
	c13UTF8Finding(r)
	r.Floor("every server option set used", r.Covered("server_option_sets") == len(serverOptionSets))
	for _, s := range []string{"explicit", "zero", "duplicate", "negative"} {
		r.Floor("id shape "+s, r.HasCover("id_shapes", s))
	}
	for _, s := range []string{"first", "middle", "last"} {
		r.Floor("invalid member at "+s+" position", r.HasCover("invalid_member_positions", s))
	}
	r.Floor("empty batch sent", r.GetCount("empty_batches") > 0)
}

// cleanUTF8 makes every value valid UTF-8 (the wire cannot carry others).
func cleanUTF8(ds *gen.Dataset) {
	for _, row := range ds.Rows {
		for c, v := range row {
			if !utf8.ValidString(v) {
				row[c] = strings.ToValidUTF8(v, "?")
			}
		}
	}
	ds.Index()
}

func c13Pool(rng *rand.Rand, ds *gen.Dataset, n int) []c04Query {
	cols := ds.ColNames()
	var out []c04Query
	for len(out) < n {
		e := gen.Expr(rng, ds, cols, rng.Intn(4), 3)
		gb := gen.GroupBy(rng, ds, rng.Intn(4), 2000)
		switch rng.Intn(10) {
		case 0:
			e = gen.WithUnknown(rng, e, ds)
		case 1:
			if len(gb) > 0 {
				gb[rng.Intn(len(gb))] = "nosuchcolumn"
			}
		}
		if !validUTF8Expr(e) {
			continue
		}
		q := c04Query{E: e, GB: gb, Want: oracle.Eval(ds.Rows, ds.Cols, e, gb)}
		if rng.Intn(12) == 0 {
			// a structurally incomplete member (an operand without expression): invalid as a whole
			q.Hole = true
			q.HoleKind = rng.Intn(3)
			q.Want = oracle.Answer{Err: true}
		}
		out = append(out, q)
	}
	return out
}

func validUTF8Expr(e *oracle.Expr) bool {
	if e.Op == '=' {
		return utf8.ValidString(e.Col) && utf8.ValidString(e.Val)
	}
	for _, k := range e.Kids {
		if !validUTF8Expr(k) {
			return false
		}
	}
	return true
}

func c13Batches(r *vf.Run, sid string, sp *serverProc, rng *rand.Rand, pool []c04Query, n int, dsRows []oracle.Row, dsCols map[string]bool) {
	conn, cl, err := dial(sp.addr)
	if err != nil {
		r.Inconclusive(sid + ": dial: " + err.Error())
		return
	}
	defer conn.Close()
	var valid, invalid []c04Query
	for _, q := range pool {
		if q.Want.Err {
			invalid = append(invalid, q)
		} else {
			valid = append(valid, q)
		}
	}
	for b := 0; b < n; b++ {
		bid := fmt.Sprintf("%s/batch%d", sid, b)
		if !r.Want(bid) {
			continue
		}
		rng := r.RNG(bid) // per-case stream: a replay of this batch alone draws the same batch
		size := rng.Intn(21)
		if b%15 == 0 {
			size = 0
		}
		if b%11 == 7 {
			size = []int{64, 65, 66, 100, 128, 129, 257, 300}[rng.Intn(8)] // large batches
			r.Count("batches_over_64_queries", 1)
		}
		var qs []c04Query
		for i := 0; i < size; i++ {
			qs = append(qs, valid[rng.Intn(len(valid))])
		}
		if b%4 == 2 && size >= 2 {
			// the same expression several times with different group-by lists (and once more identically)
			base := qs[0]
			for i := 1; i < size && i < 5; i++ {
				other := valid[rng.Intn(len(valid))]
				qs[i] = c04Query{E: base.E, GB: other.GB, Want: oracle.Eval(dsRows, dsCols, base.E, other.GB)}
			}
			if size > 5 {
				qs[5] = base
			}
			r.Count("batches_same_expression_different_group_by", 1)
		}
		badPos := -1
		if size > 0 && len(invalid) > 0 && b%3 == 1 {
			switch b % 9 {
			case 1:
				badPos = 0
				r.Cover("invalid_member_positions", "first")
			case 4:
				badPos = size - 1
				r.Cover("invalid_member_positions", "last")
				if size == 1 {
					r.Cover("invalid_member_positions", "first")
				}
			default:
				badPos = rng.Intn(size)
				if badPos > 0 && badPos < size-1 {
					r.Cover("invalid_member_positions", "middle")
				}
			}
			qs[badPos] = invalid[rng.Intn(len(invalid))]
		}
		ids := make([]int32, size)
		shape := []string{"zero", "explicit", "duplicate", "negative", "mixed"}[b%5]
		for i := range ids {
			switch shape {
			case "explicit":
				ids[i] = int32(100 + i*3)
			case "duplicate":
				ids[i] = 7
			case "negative":
				ids[i] = -int32(i + 1)
			case "mixed":
				ids[i] = []int32{0, 5, 0, -2, 2147483647, 5}[rng.Intn(6)]
			}
		}
		if size > 0 {
			r.Cover("id_shapes", shape)
		}
		req := &pb.QueryRequest{}
		for i, q := range qs {
			req.Queries = append(req.Queries, &pb.Query{Id: ids[i], Expr: q.proto(), GroupBy: q.GB})
		}
		ctx, cancel := context.WithTimeout(context.Background(), 120*time.Second)
		resp, err := cl.Query(ctx, req)
		cancel()
		r.Eval(1)
		r.Count("batches", 1)
		r.Count("queries_in_batches", int64(size))
		if size == 0 {
			r.Count("empty_batches", 1)
		}
		r.Distinct(fmt.Sprintf("%s|%d|%s|%d", sid, size, shape, badPos))
		w := map[string]any{"batch_size": size, "ids": ids, "invalid_member_position": badPos, "server": sid}
		if badPos >= 0 {
			w["invalid_member"] = fmt.Sprintf("%s ; %q", qs[badPos].E.String(), qs[badPos].GB)
			if err == nil {
				w["results_returned"] = len(resp.Results)
				r.Violation(bid, "partial-response-for-invalid-batch", w)
			} else if status.Code(err) == codes.Unavailable || status.Code(err) == codes.DeadlineExceeded {
				w["error"] = err.Error()
				r.Violation(bid, "transport-failure", w)
				return
			}
			r.Count("batches_with_invalid_member", 1)
			continue
		}
		if err != nil {
			w["error"] = err.Error()
			r.Violation(bid, "rpc-error-for-valid-batch", w)
			if status.Code(err) == codes.Unavailable {
				return
			}
			continue
		}
		if d := compareBatch(resp, qs, ids); d != "" {
			w["difference"] = d
			r.Violation(bid, "batch-response", w)
		}
		if b == 2 {
			var texts []string
			for _, q := range qs {
				texts = append(texts, fmt.Sprintf("%s ; %q", q.E.String(), q.GB))
			}
			r.Sample("batch", map[string]any{"server": sid, "ids": ids, "queries": texts})
		}
	}
	// (round 8) a streak of batches that are rejected (one invalid member each), then valid batches again: what a server
	// holds per request (a slot, a worker, a buffer) comes back when the request is refused
	sid2 := sid + "/after-rejected-streak"
	if r.Want(sid2) && len(invalid) > 0 && len(valid) > 0 {
		for i := 0; i < 150; i++ {
			req := &pb.QueryRequest{Queries: []*pb.Query{{Expr: valid[i%len(valid)].proto(), GroupBy: valid[i%len(valid)].GB}, {Expr: invalid[i%len(invalid)].proto(), GroupBy: invalid[i%len(invalid)].GB}}}
			ctx, cancel := context.WithTimeout(context.Background(), 30*time.Second)
			_, err := cl.Query(ctx, req)
			cancel()
			if c := status.Code(err); c == codes.DeadlineExceeded || c == codes.Unavailable {
				r.Violation(sid2, "transport-failure", map[string]any{"error": err.Error(), "rejected_batches_sent_before": i, "server": sid})
				return
			}
		}
		for i := 0; i < 3; i++ {
			q := valid[(i*7)%len(valid)]
			ctx, cancel := context.WithTimeout(context.Background(), 30*time.Second)
			resp, err := cl.Query(ctx, &pb.QueryRequest{Queries: []*pb.Query{{Expr: q.proto(), GroupBy: q.GB}}})
			cancel()
			r.Eval(1)
			if err != nil {
				r.Violation(sid2, "rpc-error-for-valid-batch", map[string]any{"error": err.Error(), "after_rejected_batches": 150, "server": sid})
				return
			}
			if d := compareBatch(resp, []c04Query{q}, nil); d != "" {
				r.Violation(sid2, "batch-response", map[string]any{"difference": d, "after_rejected_batches": 150, "server": sid})
				return
			}
		}
		r.Count("valid_batches_after_a_streak_of_rejected_ones", 3)
	}
}

// c13Concurrent: 16 clients at once, half of them with large batches whose responses take long to write (group-by
// lists with many groups), half with small quick ones; every response is compared completely. A response must not be
// influenced by requests that are handled while it is being produced or written.
func c13Concurrent(r *vf.Run, sid string, sp *serverProc, pool []c04Query) {
	cid := sid + "/concurrent"
	if !r.Want(cid) {
		return
	}
	var valid []c04Query
	for _, q := range pool {
		if !q.Want.Err {
			valid = append(valid, q)
		}
	}
	if len(valid) == 0 {
		return
	}
	// the queries with the largest responses
	heavy := append([]c04Query{}, valid...)
	sort.SliceStable(heavy, func(i, j int) bool { return len(heavy[i].Want.Groups) > len(heavy[j].Want.Groups) })
	heavy = heavy[:max(1, len(heavy)/5)]
	const clients = 16
	per := r.Pick(40, 300)
	var wg sync.WaitGroup
	var bad atomic.Int64
	var batches, queries atomic.Int64
	for g := 0; g < clients; g++ {
		wg.Add(1)
		go func(g int) {
			defer wg.Done()
			rng := r.RNG(fmt.Sprintf("%s/g%d", cid, g))
			conn, cl, err := dial(sp.addr)
			if err != nil {
				return
			}
			defer conn.Close()
			for b := 0; b < per && bad.Load() == 0; b++ {
				var qs []c04Query
				if g%2 == 0 {
					for i := 0; i < 6+rng.Intn(8); i++ {
						qs = append(qs, heavy[rng.Intn(len(heavy))])
					}
				} else {
					for i := 0; i < 1+rng.Intn(4); i++ {
						qs = append(qs, valid[rng.Intn(len(valid))])
					}
				}
				ids := make([]int32, len(qs))
				for i := range ids {
					if rng.Intn(3) != 0 {
						ids[i] = int32(1000*(g+1) + rng.Intn(900)) // ids tell the clients apart
					}
				}
				req := &pb.QueryRequest{}
				for i, q := range qs {
					req.Queries = append(req.Queries, &pb.Query{Id: ids[i], Expr: q.proto(), GroupBy: q.GB})
				}
				ctx, cancel := context.WithTimeout(context.Background(), 120*time.Second)
				resp, err := cl.Query(ctx, req)
				cancel()
				batches.Add(1)
				queries.Add(int64(len(qs)))
				var d string
				if err != nil {
					d = "rpc error for a valid batch: " + err.Error()
				} else {
					d = compareBatch(resp, qs, ids)
				}
				if d != "" {
					if bad.Add(1) == 1 {
						r.Violation(cid, "response-under-concurrency", map[string]any{"server": sid, "client": g, "batch_of_client": b, "batch_size": len(qs), "ids": ids, "difference": d,
							"note": "16 clients at once; the same batches are answered correctly one at a time (sequential part of this check)"})
					}
					return
				}
			}
		}(g)
	}
	// an impatient client next to them: the same kind of batches under deadlines of 1 to 40 ms, abandoned in flight
	// (its own answers are not judged; what an abandoned request leaves behind must not change anybody else's)
	var poolLeaves []*oracle.Expr
	var collect func(e *oracle.Expr)
	collect = func(e *oracle.Expr) {
		if e.Op == '=' {
			poolLeaves = append(poolLeaves, e)
		}
		for _, k := range e.Kids {
			collect(k)
		}
	}
	for _, q := range valid {
		collect(q.E)
	}
	stopImpatient := make(chan struct{})
	var abandoned atomic.Int64
	var iwg sync.WaitGroup
	iwg.Add(1)
	go func() {
		defer iwg.Done()
		rng := r.RNG(cid + "/impatient")
		conn, cl, err := dial(sp.addr)
		if err != nil {
			return
		}
		defer conn.Close()
		// paced and bounded: the unchanged server finishes what its client has abandoned, so every abandoned request is
		// load that nobody waits for; a few dozen of them do not slow the checking clients down
		for i := 0; i < 150 && len(poolLeaves) > 0; i++ {
			select {
			case <-stopImpatient:
				return
			case <-time.After(8 * time.Millisecond):
			}
			// a wide OR over comparisons that also occur in the pool's queries (so that whatever the abandoned evaluation
			// leaves behind concerns the other clients), new every time, under a deadline of 0.05 to 3 ms
			wide := &oracle.Expr{Op: '|'}
			for k := 0; k < 20+rng.Intn(30); k++ {
				l := poolLeaves[rng.Intn(len(poolLeaves))]
				if rng.Intn(5) == 0 {
					l = oracle.Not(l)
				}
				wide.Kids = append(wide.Kids, l)
			}
			req := &pb.QueryRequest{Queries: []*pb.Query{{Id: 1, Expr: wide.ToProto()}}}
			ctx, cancel := context.WithTimeout(context.Background(), time.Duration(50+rng.Intn(3000))*time.Microsecond)
			if _, err := cl.Query(ctx, req); err != nil {
				abandoned.Add(1)
			}
			cancel()
		}
	}()
	wg.Wait()
	close(stopImpatient)
	iwg.Wait()
	r.Count("requests_abandoned_by_an_impatient_client", abandoned.Load())
	// at quiescence every query of the pool once more, one at a time
	if bad.Load() == 0 {
		if conn, cl, err := dial(sp.addr); err == nil {
			for qi, q := range valid {
				ctx, cancel := context.WithTimeout(context.Background(), 120*time.Second)
				resp, err := cl.Query(ctx, &pb.QueryRequest{Queries: []*pb.Query{{Id: 7, Expr: q.proto(), GroupBy: q.GB}}})
				cancel()
				d := ""
				if err != nil {
					d = "rpc error for a valid query: " + err.Error()
				} else {
					d = compareBatch(resp, []c04Query{q}, []int32{7})
				}
				if d != "" {
					bad.Add(1)
					r.Violation(cid, "answer-after-concurrent-phase", map[string]any{"server": sid, "query": fmt.Sprintf("%s ; %q", q.E.String(), q.GB), "position_in_pool": qi, "difference": d,
						"requests_abandoned_by_the_impatient_client": abandoned.Load(), "note": "asked alone after all clients had finished"})
					break
				}
			}
			conn.Close()
		}
	}
	r.Eval(int(batches.Load()))
	r.Distinct(cid)
	r.Count("concurrent_batches", batches.Load())
	r.Count("queries_in_concurrent_batches", queries.Load())
	r.Cover("concurrent_phase_server_option_sets", sid[strings.Index(sid, "/")+1:])
}

// c13Driver: the same texts through the sql driver with grpc:// and file: DSNs.
func c13Driver(r *vf.Run, sid string, sp *serverProc, rng *rand.Rand, ds *gen.Dataset, copyPath string, n int) {
	gdb, err := sql.Open("updog", "grpc://"+sp.addr)
	if err != nil {
		r.Violation(sid, "sql.Open-grpc", err.Error())
		return
	}
	fdb, err := sql.Open("updog", "file:"+copyPath)
	if err != nil {
		r.Violation(sid, "sql.Open-file", err.Error())
		return
	}
	poisoned := false
	defer func() {
		if !poisoned {
			gdb.Close()
			fdb.Close()
		}
	}()
	cols := ds.ColNames()
	for i := 0; i < n; i++ {
		qid := fmt.Sprintf("%s/sql%d", sid, i)
		if !r.Want(qid) {
			continue
		}
		rng := r.RNG(qid)
		e := gen.Expr(rng, ds, cols, rng.Intn(4), 3)
		gb := gen.GroupBy(rng, ds, rng.Intn(4), 2000)
		if i%8 == 3 {
			e = oracle.Eq(cols[0], "matches nothing at all")
			if len(gb) == 0 {
				gb = cols[:1]
			}
		}
		if i%8 == 5 {
			e = gen.WithUnknown(rng, e, ds)
			if !oracle.IsIdent(firstUnknown(e, ds)) {
				continue
			}
		}
		if !validUTF8Expr(e) {
			continue
		}
		tmpl, args, strArgs := withPlaceholders(rng, e)
		text := gen.FormatQuery(tmpl, gb)
		want := oracle.Eval(ds.Rows, ds.Cols, e, gb)
		r.Eval(1)
		r.Count("driver_queries", 1)
		var gt, ft sqlTable
		var gerr, ferr error
		if p, msg, _ := vf.Try(func() {
			var rows *sql.Rows
			// (the grpc driver sets no deadline of its own: a server that stops answering would hold the check for ever)
			gctx, gcancel := context.WithTimeout(context.Background(), 120*time.Second)
			defer gcancel()
			if rows, gerr = gdb.QueryContext(gctx, text, args...); gerr == nil {
				gt, gerr = readRows(rows)
			}
			if rows, ferr = fdb.Query(text, args...); ferr == nil {
				ft, ferr = readRows(rows)
			}
		}); p {
			r.Violation(qid, "panic", map[string]any{"text": text, "panic": msg})
			poisoned = true
			return
		}
		w := map[string]any{"text": fmt.Sprintf("%q", text), "args": fmt.Sprintf("%q", strArgs), "server": sid}
		if want.Err {
			if gerr == nil {
				w["rows"] = fmtRows(gt.Rows, 4)
				r.Violation(qid, "grpc-dsn-not-rejected", w)
			}
			continue
		}
		if gerr != nil || ferr != nil {
			w["grpc_error"], w["file_error"] = fmt.Sprint(gerr), fmt.Sprint(ferr)
			r.Violation(qid, "driver-error", w)
			if gerr != nil && (strings.Contains(gerr.Error(), "DeadlineExceeded") || strings.Contains(gerr.Error(), "deadline exceeded")) {
				return // the server has stopped answering: every further statement would wait out its deadline
			}
			continue
		}
		if d := compareTables(gt, expectedTable(want, gb)); d != "" {
			w["difference"] = d
			r.Violation(qid, "grpc-dsn-rows", w)
			continue
		}
		if !reflect.DeepEqual(gt, ft) {
			w["grpc_rows"], w["file_rows"] = fmtRows(gt.Rows, 5), fmtRows(ft.Rows, 5)
			r.Violation(qid, "grpc-vs-file-dsn", w)
		}
		r.Count("rows_compared_between_dsn_kinds", int64(len(gt.Rows)))
	}
	if !poisoned {
		if p, msg, _ := vf.Try(func() { c13StmtLifecycles(r, sid, gdb, fdb, ds) }); p {
			r.Violation(sid+"/sql-lifecycles", "panic", map[string]any{"panic": msg})
			poisoned = true
		}
	}
	// the same handle used by 12 goroutines at once, four of them with a statement the server rejects: a valid statement
	// gets its own rows, never somebody else's error
	cid := sid + "/sql-concurrent"
	if poisoned || !r.Want(cid) {
		return
	}
	type stmtCase struct {
		text string
		want oracle.Answer
		gb   []string
	}
	crng := r.RNG(cid)
	var good []stmtCase
	for len(good) < 12 {
		e := gen.Expr(crng, ds, cols, crng.Intn(3), 3)
		gb := gen.GroupBy(crng, ds, crng.Intn(3), 1500)
		if !validUTF8Expr(e) {
			continue
		}
		if w := oracle.Eval(ds.Rows, ds.Cols, e, gb); !w.Err {
			good = append(good, stmtCase{gen.FormatQuery(e, gb), w, gb})
		}
	}
	rejected := []string{`nosuchcolumn = "1"`, gen.FormatQuery(oracle.Eq(cols[0], "x"), []string{"nosuchcolumn"})}
	var wg sync.WaitGroup
	var bad atomic.Int64
	var done atomic.Int64
	for g := 0; g < 12; g++ {
		wg.Add(1)
		go func(g int) {
			defer wg.Done()
			for i := 0; i < 60 && bad.Load() == 0; i++ {
				if g%3 == 0 {
					rctx, rcancel := context.WithTimeout(context.Background(), 120*time.Second)
					rows, err := gdb.QueryContext(rctx, rejected[(g+i)%len(rejected)])
					rcancel()
					if err == nil {
						rows.Close()
						if bad.Add(1) == 1 {
							r.Violation(cid, "grpc-dsn-not-rejected", map[string]any{"text": rejected[(g+i)%len(rejected)], "server": sid})
						}
					}
					continue
				}
				c := good[(g*7+i)%len(good)]
				var t sqlTable
				cctx, ccancel := context.WithTimeout(context.Background(), 120*time.Second)
				rows, err := gdb.QueryContext(cctx, c.text)
				if err == nil {
					t, err = readRows(rows)
				}
				ccancel()
				done.Add(1)
				d := ""
				if err != nil {
					d = "error for a valid statement: " + err.Error()
				} else {
					d = compareTables(t, expectedTable(c.want, c.gb))
				}
				if d != "" && bad.Add(1) == 1 {
					r.Violation(cid, "statement-under-concurrency", map[string]any{"text": fmt.Sprintf("%q", c.text), "difference": d, "server": sid,
						"note": "12 goroutines on one grpc:// handle, four of them sending statements the server rejects"})
				}
			}
		}(g)
	}
	wg.Wait()
	r.Eval(int(done.Load()))
	r.Count("driver_statements_under_concurrency", done.Load())
	r.Distinct(cid)
}

// c13Conversions: ToQuery, ToProtobufResult, ToResult are lossless (in process).
func c13Conversions(r *vf.Run) {
	if !r.Want("convert") {
		return
	}
	rng := r.RNG("convert")
	n := r.Pick(3000, 30000)
	for i := 0; i < n; i++ {
		id := fmt.Sprintf("convert/%d", i)
		if !r.Want(id) {
			continue
		}
		t := randTree(rng, rng.Intn(7), 1+rng.Intn(4))
		var gb []string
		for k := rng.Intn(5); k > 0; k-- {
			gb = append(gb, gen.Hostile[rng.Intn(len(gen.Hostile))])
		}
		// placeholders are not part of the library type: bind them first
		bound := stripPlaceholders(t)
		q := &pb.Query{Id: int32(rng.Intn(100)), Expr: bound.ToProto(), GroupBy: gb}
		var lq *updog.Query
		r.Eval(1)
		if p, msg, _ := vf.Try(func() { lq = convert.ToQuery(q) }); p {
			r.Violation(id, "ToQuery-panic", map[string]any{"tree": bound.String(), "panic": msg})
			continue
		}
		if !oracle.Equal(oracle.FromUpdog(lq.Expr), bound) || !reflect.DeepEqual(append([]string{}, lq.GroupBy...), append([]string{}, gb...)) {
			r.Violation(id, "ToQuery-lossy", map[string]any{"tree": bound.String(), "converted": oracle.FromUpdog(lq.Expr).String(), "group_by": fmt.Sprintf("%q vs %q", gb, lq.GroupBy)})
		}
		// results
		res := &updog.Result{Count: rng.Uint64()}
		ng := rng.Intn(6)
		for g := 0; g < ng; g++ {
			rg := updog.ResultGroup{Count: rng.Uint64() >> uint(rng.Intn(64))}
			for k := rng.Intn(4); k > 0; k-- {
				rg.Fields = append(rg.Fields, updog.ResultField{Column: gen.Hostile[rng.Intn(len(gen.Hostile))], Value: gen.Hostile[rng.Intn(len(gen.Hostile))]})
			}
			res.Groups = append(res.Groups, rg)
		}
		qid := int32(rng.Int31()) - 1<<30
		pr := convert.ToProtobufResult(res, qid)
		back := convert.ToResult(pr)
		if pr.QueryId != qid || pr.TotalCount != res.Count || len(pr.Groups) != len(res.Groups) {
			r.Violation(id, "ToProtobufResult-lossy", map[string]any{"result": fmt.Sprintf("%+v", res), "proto": pr.String()})
			continue
		}
		for g := range res.Groups {
			if pr.Groups[g].Count != res.Groups[g].Count || len(pr.Groups[g].Fields) != len(res.Groups[g].Fields) {
				r.Violation(id, "ToProtobufResult-lossy", map[string]any{"group": g})
			}
			for k, f := range res.Groups[g].Fields {
				if k < len(pr.Groups[g].Fields) && (pr.Groups[g].Fields[k].Column != f.Column || pr.Groups[g].Fields[k].Value != f.Value) {
					r.Violation(id, "ToProtobufResult-lossy", map[string]any{"group": g, "field": k})
				}
			}
		}
		if back.Count != res.Count || len(back.Groups) != len(res.Groups) {
			r.Violation(id, "ToResult-lossy", map[string]any{"result": fmt.Sprintf("%+v", res), "back": fmt.Sprintf("%+v", back)})
			continue
		}
		for g := range res.Groups {
			if back.Groups[g].Count != res.Groups[g].Count || len(back.Groups[g].Fields) != len(res.Groups[g].Fields) || (len(res.Groups[g].Fields) > 0 && !reflect.DeepEqual(back.Groups[g].Fields, res.Groups[g].Fields)) {
				r.Violation(id, "ToResult-lossy", map[string]any{"group": g, "want": fmt.Sprintf("%+v", res.Groups[g]), "got": fmt.Sprintf("%+v", back.Groups[g])})
			}
		}
		r.Count("conversion_round_trips", 1)
	}
	// incomplete (but wire-reachable) trees: the conversion must keep their structure, holes included
	cols := []string{"a", "b"}
	for i := 0; i < n; i++ {
		id := fmt.Sprintf("convert/holes%d", i)
		if !r.Want(id) {
			continue
		}
		pe := randomPBExpr(rng, cols, 0)
		req, _, ok := wireReachable(&pb.QueryRequest{Queries: []*pb.Query{{Expr: pe}}})
		if !ok {
			continue
		}
		q := req.Queries[0]
		var lq *updog.Query
		r.Eval(1)
		if p, msg, _ := vf.Try(func() { lq = convert.ToQuery(q) }); p {
			r.Violation(id, "ToQuery-panic", map[string]any{"message": head(q.String(), 1500), "panic": msg})
			continue
		}
		want, got := shapeOfProto(q.Expr), shapeOfLib(lq.Expr)
		if want != got {
			r.Violation(id, "ToQuery-lossy", map[string]any{"message": head(q.String(), 1500), "shape_of_message": want, "shape_after_conversion": got})
		}
		r.Count("conversion_round_trips_with_holes", 1)
	}
}

// shapeOfProto / shapeOfLib render the structure of a possibly incomplete tree; a missing expression is "?".
func shapeOfProto(e *pb.Query_Expression) string {
	if e == nil {
		return "?"
	}
	switch v := e.Value.(type) {
	case *pb.Query_Expression_Eq:
		return fmt.Sprintf("eq(%q,%q)", v.Eq.GetColumn(), v.Eq.GetValue())
	case *pb.Query_Expression_Not_:
		return "not(" + shapeOfProto(v.Not.GetExpr()) + ")"
	case *pb.Query_Expression_And_:
		s := "and("
		for _, k := range v.And.GetExprs() {
			s += shapeOfProto(k) + ","
		}
		return s + ")"
	case *pb.Query_Expression_Or_:
		s := "or("
		for _, k := range v.Or.GetExprs() {
			s += shapeOfProto(k) + ","
		}
		return s + ")"
	}
	return "?"
}

func shapeOfLib(e updog.Expression) string {
	switch v := e.(type) {
	case *updog.ExprEqual:
		if v == nil {
			return "?"
		}
		return fmt.Sprintf("eq(%q,%q)", v.Column, v.Value)
	case *updog.ExprNot:
		if v == nil {
			return "?"
		}
		return "not(" + shapeOfLib(v.Expr) + ")"
	case *updog.ExprAnd:
		if v == nil {
			return "?"
		}
		s := "and("
		for _, k := range v.Exprs {
			s += shapeOfLib(k) + ","
		}
		return s + ")"
	case *updog.ExprOr:
		if v == nil {
			return "?"
		}
		s := "or("
		for _, k := range v.Exprs {
			s += shapeOfLib(k) + ","
		}
		return s + ")"
	}
	return "?"
}

// c13UTF8Finding is the recogniser of the known finding: a group value that is
// not valid UTF-8 cannot be returned over the wire; the RPC fails with
// codes.Internal and the marshalling error, the server stays up.
func c13UTF8Finding(r *vf.Run) {
	if !r.Want("utf8-finding") {
		return
	}
	r.Progress("utf8-finding")
	rows := []oracle.Row{{"a": "\xff\xfe", "b": "1"}, {"a": "ok", "b": "1"}, {"a": "\xff\xfe", "b": "2"}}
	dir := filepath.Join(r.Scratch, "utf8")
	mustMkdir(dir)
	path := filepath.Join(dir, "utf8.updog")
	if err := ix.Build(ix.WriterMemFile, path, rows); err != nil {
		r.Violation("utf8-finding", "build", err.Error())
		return
	}
	sp, err := startServer(r, binPath("updog"), path, nil, nil)
	if err != nil {
		r.Inconclusive("utf8-finding: " + err.Error())
		return
	}
	defer sp.stop()
	conn, cl, err := dial(sp.addr)
	if err != nil {
		r.Inconclusive("utf8-finding: dial " + err.Error())
		return
	}
	defer conn.Close()
	cols := oracle.Columns(rows)
	check := func(name string, e *oracle.Expr, gb []string) {
		want := oracle.Eval(rows, cols, e, gb)
		ctx, cancel := context.WithTimeout(context.Background(), 60*time.Second)
		resp, err := cl.Query(ctx, &pb.QueryRequest{Queries: []*pb.Query{{Expr: e.ToProto(), GroupBy: gb}}})
		cancel()
		r.Eval(1)
		if err == nil {
			if d := compareBatch(resp, []c04Query{{E: e, GB: gb, Want: want}}, nil); d != "" {
				r.Violation("utf8-finding/"+name, "batch-response", map[string]any{"difference": d})
			}
			return
		}
		msg := err.Error()
		if (status.Code(err) == codes.Internal || status.Code(err) == codes.Unknown) && strings.Contains(msg, "invalid UTF-8") {
			r.KnownFinding("invalid-utf8-on-wire", "utf8-finding/"+name, "rpc-error", map[string]any{"query": e.String(), "group_by": gb, "error": msg})
			return
		}
		r.Violation("utf8-finding/"+name, "rpc-error-for-valid-batch", map[string]any{"query": e.String(), "group_by": gb, "error": msg})
	}
	check("group-value", oracle.Eq("b", "1"), []string{"a"})
	check("query-value", oracle.Eq("a", "\xff\xfe"), nil)
	// the server must still be there and answer a clean query
	check("clean-after", oracle.Eq("b", "2"), []string{"b"})
	if !sp.alive() {
		r.Violation("utf8-finding", "server-died", nil)
	}
}

// stripPlaceholders turns every placeholder comparison into a literal one.
func stripPlaceholders(e *oracle.Expr) *oracle.Expr {
	c := &oracle.Expr{Op: e.Op, Col: e.Col, Val: e.Val}
	if e.Op == '=' && e.Ph > 0 {
		c.Val = fmt.Sprintf("bound%d", e.Ph)
	}
	for _, k := range e.Kids {
		c.Kids = append(c.Kids, stripPlaceholders(k))
	}
	return c
}
