package main

import (
	"bytes"
	"encoding/gob"
	"fmt"
	"os"
	"os/exec"
	"path/filepath"
	"runtime"
	"strings"
	"syscall"
	"time"

	"github.com/RoaringBitmap/roaring"
	"github.com/akrennmair/updog"
	"github.com/akrennmair/updog/verifharness/gen"
	"github.com/akrennmair/updog/verifharness/ix"
	"github.com/akrennmair/updog/verifharness/mon"
	"github.com/akrennmair/updog/verifharness/oracle"
	"github.com/akrennmair/updog/verifharness/vf"
	"go.etcd.io/bbolt"
)

func init() { workers["c15-gob-count"] = workerC15GobCount }

// undecodable reports whether roaring (the decoder of the index format) rejects the value.
func undecodable(v []byte) bool {
	bad := false
	if p, _, _ := vf.Try(func() {
		_, err := roaring.New().FromBuffer(append([]byte{}, v...))
		bad = err != nil
	}); p {
		return true
	}
	return bad
}

// c15Positional: ONE bitmap value of an index with thousands of bitmaps is made undecodable (empty, three bytes,
// bytes that roaring rejects), at the first, a middle and the last positions in key order. Preloading must report an
// error whatever the position and release the file; opening on demand succeeds. The same files carry the histories with
// a second, live handle on the file: a failing open must not keep the file held once the live handle is closed.
func c15Positional(r *vf.Run, dir string) {
	rng := r.RNG("c15-positional")
	type wide struct {
		path  string
		ds    *gen.Dataset
		ps    []probe
		nkeys int
	}
	var bases []wide
	for bi, nvals := range []int{60, 1100, r.Pick(3000, 9000)} {
		ds := &gen.Dataset{ID: fmt.Sprintf("wide%d", bi)}
		for i := 0; i < nvals; i++ {
			ds.Rows = append(ds.Rows, oracle.Row{"v": fmt.Sprintf("v%05d", i), "w": fmt.Sprint(i % 5)})
		}
		ds.Index()
		p := filepath.Join(dir, fmt.Sprintf("wide%d.updog", bi))
		if err := ix.Build(ix.Writers[bi%3], p, ds.Rows); err != nil {
			r.Violation("c15-positional", "build", err.Error())
			return
		}
		bases = append(bases, wide{p, ds, probeSet(rng, ds, 20, 3), nvals + 5})
	}
	type pcase struct {
		base int
		pos  int // position in key order; negative: from the end
		kind string
		hist string
		rep  int
	}
	var cases []pcase
	hists := []string{"preload-fails-twice", "live-handle-then-failing-open", "two-live-handles-one-failing-open"}
	for bi := range bases {
		for _, pos := range []int{0, 1, 7, 1 << 20 /* middle */, -200, -64, -33, -17, -16, -9, -5, -3, -2, -1} {
			kinds := []string{"empty", "three-bytes", "rejected-bytes"}
			if pos == 0 || pos == 1<<20 || pos == -1 || pos == -16 {
				// large values too: a loader may treat values above some size differently
				kinds = append(kinds, "large-truncated", "large-garbage")
			}
			for ki, kind := range kinds {
				reps := 1
				if pos < 0 && pos >= -17 {
					reps = r.Pick(3, 8) // the end of the bucket is where a loader that hands work to helpers finishes
				}
				for rep := 0; rep < reps; rep++ {
					cases = append(cases, pcase{bi, pos, kind, hists[(ki+rep+len(cases))%3], rep})
				}
			}
		}
	}
	var ids []string
	byID := map[string]pcase{}
	for _, c := range cases {
		id := fmt.Sprintf("positional/b%d/pos%d/%s/%s/%d", c.base, c.pos, c.kind, c.hist, c.rep)
		ids = append(ids, id)
		byID[id] = c
	}
	r.ForEach(ids, 8, func(id string) {
		c := byID[id]
		b := bases[c.base]
		path := filepath.Join(dir, strings.ReplaceAll(id, "/", "_")+".updog")
		if err := ix.CopyFile(b.path, path); err != nil {
			panic(err)
		}
		defer os.Remove(path)
		// damage exactly one bitmap value
		var nkeys, at int
		var damagedKey []byte
		db, err := bbolt.Open(path, 0o644, &bbolt.Options{Timeout: 10 * time.Second, NoSync: true})
		if err != nil {
			r.Inconclusive(id + ": " + err.Error())
			return
		}
		err = db.Update(func(tx *bbolt.Tx) error {
			bk := tx.Bucket([]byte("data"))
			var keys [][]byte
			cur := bk.Cursor()
			for k, _ := cur.Seek([]byte("V")); k != nil && bytes.HasPrefix(k, []byte("V")); k, _ = cur.Next() {
				keys = append(keys, append([]byte{}, k...))
			}
			nkeys = len(keys)
			at = c.pos
			switch {
			case c.pos == 1<<20:
				at = nkeys / 2
			case c.pos < 0:
				at = nkeys + c.pos
			}
			if at < 0 || at >= nkeys {
				at = nkeys - 1
			}
			damagedKey = keys[at]
			var v []byte
			switch c.kind {
			case "empty":
				v = []byte{}
			case "three-bytes":
				v = []byte{0x3a, 0x30, 0x00}
			case "large-truncated":
				// a valid serialised bitmap of twenty 8 KiB containers (164 KB), cut in the middle
				big := roaring.New()
				for c := uint32(0); c < 20; c++ {
					for i := uint32(0); i < 65536; i += 2 {
						big.Add(c<<16 + i)
					}
				}
				bb, _ := big.ToBytes()
				v = bb[:len(bb)/2]
			case "large-garbage":
				v = make([]byte, 200000)
				for i := range v {
					v[i] = byte(i*7 + i>>8)
				}
			default:
				v = []byte{0xde, 0xad, 0xbe, 0xef, 0x01, 0x02, 0x03, 0x04, 0x05, 0x06, 0x07, 0x08}
			}
			if !undecodable(v) {
				return fmt.Errorf("roaring decodes the damaged value %x", v)
			}
			return bk.Put(damagedKey, v)
		})
		db.Close()
		if err != nil {
			r.Inconclusive(id + ": " + err.Error())
			return
		}
		w := func() map[string]any {
			return map[string]any{"bitmaps_in_file": nkeys, "damaged_position_in_key_order": at, "damaged_key_hex": fmt.Sprintf("%x", damagedKey), "damaged_value": c.kind, "history": c.hist, "GOMAXPROCS": gomaxprocs()}
		}
		r.Cover("positional_histories", c.hist)
		r.Max("bitmaps_in_positional_file", int64(nkeys))
		r.Distinct(id)
		failingOpen := func(step string) bool {
			for _, opt := range []string{"preloaded", "preloaded+cached"} {
				idx, err, ok := tryOpen(r, id, path, opt, w())
				r.Eval(1)
				if !ok {
					return false
				}
				if err == nil {
					ww := w()
					ww["step"], ww["options"] = step, opt
					ww["explanation"] = "a bitmap value that roaring cannot decode was preloaded without an error"
					if idx != nil {
						idx.Close()
					}
					r.Violation(id, "undecodable-bitmap-accepted-when-preloading", ww)
					return false
				}
				if idx != nil {
					r.Violation(id, "index-returned-with-error", w())
					return false
				}
				r.Count("positional_preload_errors", 1)
			}
			return true
		}
		released := func(step string) bool {
			free, perr := mon.LockFree(path)
			r.Count("lock_probes", 1)
			if perr != nil || !free {
				ww := w()
				ww["step"], ww["probe"] = step, fmt.Sprint(perr)
				r.Violation(id, "lock-kept", ww)
				return false
			}
			return true
		}
		switch c.hist {
		case "preload-fails-twice":
			if !failingOpen("first") || !released("after the first failing open") || !failingOpen("second") || !released("after the second failing open") {
				return
			}
			// on demand the file opens; every probe that does not touch the damaged value answers
			idx, err, ok := tryOpen(r, id, path, "ondemand", w())
			if !ok {
				return
			}
			if err != nil {
				ww := w()
				ww["error"] = err.Error()
				r.Violation(id, "on-demand-open-rejected", ww)
				return
			}
			vf.Try(func() { _, _ = runProbes(idx, b.ps[:min(5, len(b.ps))]) })
			idx.Close()
			released("after Close of the on-demand handle")
		default:
			n := 1
			if c.hist == "two-live-handles-one-failing-open" {
				n = 2
			}
			var live []*updog.Index
			for i := 0; i < n; i++ {
				idx, err, ok := tryOpen(r, id, path, []string{"ondemand", "cached"}[i%2], w())
				if !ok {
					return
				}
				if err != nil {
					ww := w()
					ww["error"] = err.Error()
					r.Violation(id, "on-demand-open-rejected", ww)
					return
				}
				live = append(live, idx)
			}
			if !failingOpen("while " + fmt.Sprint(n) + " handle(s) are open") {
				for _, x := range live {
					x.Close()
				}
				return
			}
			if free, _ := mon.LockFree(path); !free {
				r.Count("lock_probe_saw_open_handle", 1)
			}
			// the live handles still answer
			if _, d := runProbes(live[0], b.ps[:min(3, len(b.ps))]); d != "" && !strings.Contains(d, "v") {
				_ = d // a probe may touch the damaged value on demand: not judged here
			}
			for i, x := range live {
				var cerr error
				if p, msg, _ := vf.Try(func() { cerr = x.Close() }); p || cerr != nil {
					ww := w()
					ww["close"] = fmt.Sprint(msg, cerr)
					r.Violation(id, "close-fails", ww)
					return
				}
				if i < len(live)-1 {
					continue
				}
			}
			released("after the last live handle was closed (a failing open happened while it was open)")
		}
	})
	r.Floor("positional histories all exercised", r.Covered("positional_histories") == 3 || r.Replay())
}

func gomaxprocs() int { return runtime.GOMAXPROCS(0) }

// --- hostile gob schema: a declared element count far beyond the input ---

type c15Column struct {
	Values map[string]uint64
}

type c15Schema struct {
	Columns map[string]*c15Column
}

// hostileGob returns a well-formed gob stream for the schema type whose value message declares 2^32 entries for the
// outer (Columns) or the inner (Values) map while carrying one. ok=false when gob's layout is not the expected one.
func hostileGob(inner bool) ([]byte, bool) {
	var buf bytes.Buffer
	if err := gob.NewEncoder(&buf).Encode(&c15Schema{Columns: map[string]*c15Column{"a": {Values: map[string]uint64{"x": 1}}}}); err != nil {
		return nil, false
	}
	b := buf.Bytes()
	// the value message: len=13, type id (2 bytes), 01 (field Columns), 01 (map count), 01 'a', 01 (field Values), 01 (count), 01 'x', 01, 00, 00
	tail := []byte{0x01, 0x01, 0x01, 'a', 0x01, 0x01, 0x01, 'x', 0x01, 0x00, 0x00}
	if !bytes.HasSuffix(b, tail) || len(b) < len(tail)+3 || b[len(b)-len(tail)-3] != byte(len(tail)+2) {
		return nil, false
	}
	head := b[:len(b)-len(tail)-3]
	typeID := b[len(b)-len(tail)-2 : len(b)-len(tail)]
	big := []byte{0xfb, 0x01, 0x00, 0x00, 0x00, 0x00} // 2^32
	var body []byte
	body = append(body, typeID...)
	if inner {
		body = append(body, 0x01, 0x01, 0x01, 'a', 0x01)
		body = append(body, big...)
		body = append(body, 0x01, 'x', 0x01, 0x00, 0x00)
	} else {
		body = append(body, 0x01)
		body = append(body, big...)
		body = append(body, 0x01, 'a', 0x01, 0x01, 0x01, 'x', 0x01, 0x00, 0x00)
	}
	out := append(append([]byte{}, head...), byte(len(body)))
	return append(out, body...), true
}

// c15GobCount: the recorded finding. OpenIndex on a valid bbolt file whose schema value declares 2^32 map entries dies
// inside encoding/gob (MakeMapWithSize of the declared count): the open runs in a child with a bounded address space.
func c15GobCount(r *vf.Run, dir string) {
	for _, inner := range []bool{false, true} {
		id := fmt.Sprintf("gob-count/inner=%v", inner)
		if !r.Want(id) {
			continue
		}
		s, ok := hostileGob(inner)
		if !ok {
			r.Count("gob_layout_not_recognised", 1)
			continue
		}
		path := filepath.Join(dir, fmt.Sprintf("gobcount-%v.updog", inner))
		if err := ix.Build(ix.WriterMemFile, path, []oracle.Row{{"a": "x"}}); err != nil {
			r.Inconclusive(id + ": " + err.Error())
			continue
		}
		db, err := bbolt.Open(path, 0o644, &bbolt.Options{Timeout: 10 * time.Second})
		if err == nil {
			err = db.Update(func(tx *bbolt.Tx) error { return tx.Bucket([]byte("data")).Put([]byte("S"), s) })
			db.Close()
		}
		if err != nil {
			r.Inconclusive(id + ": " + err.Error())
			continue
		}
		// control: the same stream with the count left at 1 decodes (the crafted layout is right)
		res := runChild(r, binPath("vcheck"), []string{"worker", "c15-gob-count", path}, childOpts{Timeout: 5 * time.Minute})
		r.Eval(1)
		r.Distinct(id)
		w := map[string]any{"schema_value_hex": fmt.Sprintf("%x", s), "declared_map_entries": "2^32", "which_map": map[bool]string{false: "Columns", true: "Values of column a"}[inner],
			"child_exit": res.Code, "stderr": head(res.Stderr, 1200), "stdout": head(res.Stdout, 300)}
		switch {
		case res.TimedOut:
			hangVerdict(r, id, res, w)
		case res.Code == 0 && strings.Contains(res.Stdout, "ERROR-RETURNED"):
			r.Count("gob_count_open_returned_error", 1) // the finding did not reproduce: an error is the correct outcome
		case res.Code == 0 && strings.Contains(res.Stdout, "OPENED"):
			r.Violation(id, "damage-accepted", w)
		case strings.Contains(res.Stderr, "out of memory") || strings.Contains(res.Stderr, "cannot allocate memory"):
			r.KnownFinding("gob-map-count", id, "open-kills-process", w)
		case strings.Contains(res.Stderr, "panic:") || strings.Contains(res.Stderr, "fatal error:") || strings.Contains(res.Stdout, "PANIC"):
			r.Violation(id, "open-panics", w)
		default:
			r.Inconclusive(fmt.Sprintf("%s: child ended with code %d: %s", id, res.Code, tail(res.Stderr, 300)))
		}
	}
}

func workerC15GobCount(args []string) int {
	// 8 GiB of address space: the allocation of the declared count fails at once instead of eating a big machine's memory
	lim := syscall.Rlimit{Cur: 8 << 30, Max: 8 << 30}
	_ = syscall.Setrlimit(syscall.RLIMIT_AS, &lim)
	var idx *updog.Index
	var err error
	if p, msg, _ := vf.Try(func() { idx, err = updog.OpenIndex(args[0]) }); p {
		fmt.Println("PANIC", msg)
		return 0
	}
	if err != nil {
		fmt.Println("ERROR-RETURNED", err)
		return 0
	}
	idx.Close()
	fmt.Println("OPENED")
	return 0
}

// c15ChildProcess: a child process started while the index is open must not keep the file held after Close (a
// descriptor opened without close-on-exec travels into every child together with its lock).
func c15ChildProcess(r *vf.Run, dir string) {
	base := filepath.Join(dir, "child-base.updog")
	if err := ix.Build(ix.WriterMemFile, base, []oracle.Row{{"a": "x", "b": "1"}, {"a": "y"}, {"b": "2"}}); err != nil {
		r.Inconclusive("child-process: " + err.Error())
		return
	}
	for _, opt := range c15Options {
		cid := "child-process/" + opt
		if !r.Want(cid) {
			continue
		}
		r.Guard(cid, func() {
			path := filepath.Join(dir, "child-"+opt+".updog")
			if err := ix.CopyFile(base, path); err != nil {
				panic(err)
			}
			defer os.Remove(path)
			w := map[string]any{"options": opt, "history": "open, start an unrelated child process, Close, probe the lock while the child is still running"}
			idx, err, ok := tryOpen(r, cid, path, opt, w)
			r.Eval(1)
			if !ok || err != nil {
				if err != nil {
					w["error"] = err.Error()
					r.Violation(cid, "valid-parts-rejected", w)
				}
				return
			}
			child := exec.Command("sleep", "120")
			if err := child.Start(); err != nil {
				idx.Close()
				r.Inconclusive(cid + ": cannot start a child process: " + err.Error())
				return
			}
			defer func() { _ = child.Process.Kill(); _, _ = child.Process.Wait() }()
			if cerr := idx.Close(); cerr != nil {
				w["close"] = cerr.Error()
				r.Violation(cid, "close-error", w)
				return
			}
			free, perr := mon.LockFree(path)
			r.Count("lock_probes", 1)
			r.Count("closes_with_a_child_process_alive", 1)
			r.Distinct(cid)
			if perr != nil || !free {
				w["probe"] = fmt.Sprint(perr)
				r.Violation(cid, "lock-kept-after-close", w)
			}
		})
	}
}

// c15RejectedQueries: queries that the index rightly refuses (incomplete expression trees, unknown columns) between open
// and Close must not keep the file held after Close.
func c15RejectedQueries(r *vf.Run, dir string) {
	base := filepath.Join(dir, "rejected-base.updog")
	if err := ix.Build(ix.WriterMemFile, base, []oracle.Row{{"a": "x", "b": "1"}, {"a": "y"}, {"b": "2"}}); err != nil {
		r.Inconclusive("rejected-queries: " + err.Error())
		return
	}
	for _, opt := range c15Options {
		cid := "rejected-queries/" + opt
		if !r.Want(cid) {
			continue
		}
		r.Guard(cid, func() {
			path := filepath.Join(dir, "rejected-"+opt+".updog")
			if err := ix.CopyFile(base, path); err != nil {
				panic(err)
			}
			defer os.Remove(path)
			w := map[string]any{"options": opt, "history": "open, queries the index refuses (no expression, NOT without operand, nil operand, unknown column, unknown group-by column), one good query, Close, Close"}
			idx, err, ok := tryOpen(r, cid, path, opt, w)
			r.Eval(1)
			if !ok || err != nil {
				return
			}
			bad := []*updog.Query{
				{},
				{Expr: &updog.ExprNot{}},
				{Expr: &updog.ExprAnd{Exprs: []updog.Expression{&updog.ExprEqual{Column: "a", Value: "x"}, nil}}},
				{Expr: &updog.ExprOr{Exprs: []updog.Expression{nil}}},
				{Expr: &updog.ExprEqual{Column: "nosuch", Value: "x"}},
				{Expr: &updog.ExprEqual{Column: "a", Value: "x"}, GroupBy: []string{"nosuch"}},
				{Expr: (*updog.ExprEqual)(nil)},
			}
			for i, q := range bad {
				var qerr error
				if p, msg, _ := vf.Try(func() { _, qerr = idx.Execute(q) }); p {
					w["panic"], w["query_number"] = msg, i
					r.Violation(cid, "query-panics", w)
					return
				}
				if qerr == nil {
					w["query_number"] = i
					r.Violation(cid, "incomplete-query-accepted", w)
					return
				}
			}
			if res, qerr := idx.Execute(&updog.Query{Expr: &updog.ExprEqual{Column: "a", Value: "x"}}); qerr != nil || res.Count != 1 {
				w["good_query"] = fmt.Sprint(res, qerr)
				r.Violation(cid, "valid-index-wrong-answers", w)
			}
			c1 := idx.Close()
			c2 := idx.Close()
			if c1 != nil || c2 != nil {
				w["close"] = fmt.Sprint(c1, c2)
				r.Violation(cid, "close-error", w)
				return
			}
			free, perr := mon.LockFree(path)
			r.Count("lock_probes", 1)
			r.Count("closes_after_rejected_queries", 1)
			r.Distinct(cid)
			if perr != nil || !free {
				w["probe"] = fmt.Sprint(perr)
				r.Violation(cid, "lock-kept-after-close", w)
			}
		})
	}
}

// c15ForeignLock: another descriptor holds an exclusive lock on a valid index for a few seconds while OpenIndex is
// called. Whether the call waits for the lock or gives up with an error, once the foreign lock is gone and the call has
// returned (and its index, if any, is closed) the file must be free and stay free.
func c15ForeignLock(r *vf.Run, dir string) {
	cid := "foreign-lock"
	if !r.Want(cid) {
		return
	}
	path := filepath.Join(dir, "foreign-lock.updog")
	if err := ix.Build(ix.WriterMemFile, path, []oracle.Row{{"a": "x"}, {"a": "y"}}); err != nil {
		r.Inconclusive(cid + ": " + err.Error())
		return
	}
	defer os.Remove(path)
	holder, err := os.OpenFile(path, os.O_RDONLY, 0)
	if err != nil || syscall.Flock(int(holder.Fd()), syscall.LOCK_EX|syscall.LOCK_NB) != nil {
		r.Inconclusive(cid + ": cannot take the foreign lock")
		return
	}
	hold := time.Duration(r.Pick(7, 12)) * time.Second
	type res struct {
		idx *updog.Index
		err error
		p   string
	}
	done := make(chan res, 1)
	go func() {
		var o res
		if p, msg, _ := vf.Try(func() { o.idx, o.err = updog.OpenIndex(path, updog.WithPreloadedData()) }); p {
			o.p = msg
		}
		done <- o
	}()
	var out *res
	select {
	case o := <-done:
		out = &o // gave up (or failed) while the lock was held
	case <-time.After(hold):
	}
	_ = syscall.Flock(int(holder.Fd()), syscall.LOCK_UN)
	holder.Close()
	if out == nil {
		select {
		case o := <-done:
			out = &o
		case <-time.After(60 * time.Second):
			stacks := joinStacks(mon.Stacks("updog"))
			if c := mon.ClassifyDump(stacks); c != "" {
				r.Violation(cid, "open-hangs", map[string]any{"blocked": c, "explanation": "OpenIndex did not return within 60 s after the foreign lock was released"})
			} else {
				r.Inconclusive(cid + ": OpenIndex still running 60 s after the foreign lock was released")
			}
			return
		}
	}
	r.Eval(1)
	r.Distinct(cid)
	w := map[string]any{"foreign_exclusive_lock_held_for": hold.String(), "open_error": fmt.Sprint(out.err), "open_returned_index": out.idx != nil}
	if out.p != "" {
		w["panic"] = out.p
		r.Violation(cid, "open-panics", w)
		return
	}
	if out.idx != nil {
		if cerr := out.idx.Close(); cerr != nil {
			w["close"] = cerr.Error()
			r.Violation(cid, "close-error", w)
			return
		}
	}
	// the file must be free now, and still be free a little later (nothing of the abandoned attempt may come back for it)
	for i, wait := range []time.Duration{0, 300 * time.Millisecond, 1500 * time.Millisecond} {
		time.Sleep(wait)
		free, perr := mon.LockFree(path)
		r.Count("lock_probes", 1)
		if perr != nil || !free {
			w["probe_number"], w["probe"] = i, fmt.Sprint(perr)
			r.Violation(cid, "lock-kept-after-failed-open", w)
			return
		}
	}
	r.Count("opens_against_a_foreign_exclusive_lock", 1)
}
