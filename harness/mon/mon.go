// Package mon holds the monitors: goroutine-profile leak counter, flock probe,
// file digests, race-log parser, goroutine-dump hang classifier.
package mon

import (
	"bytes"
	"crypto/sha256"
	"encoding/hex"
	"fmt"
	"io"
	"os"
	"path/filepath"
	"regexp"
	"runtime/pprof"
	"sort"
	"strings"
	"syscall"
	"time"
)

// Stacks returns the stacks (debug=2 format, one string per goroutine) whose
// text contains needle.
func Stacks(needle string) []string {
	var buf bytes.Buffer
	_ = pprof.Lookup("goroutine").WriteTo(&buf, 2)
	var out []string
	for _, g := range strings.Split(buf.String(), "\n\n") {
		if strings.Contains(g, needle) {
			out = append(out, g)
		}
	}
	return out
}

// GoroutineState extracts the state from the header line "goroutine 12 [chan send]:".
func GoroutineState(stack string) string {
	i := strings.Index(stack, "[")
	j := strings.Index(stack, "]")
	if i < 0 || j < i {
		return ""
	}
	s := stack[i+1 : j]
	if k := strings.Index(s, ","); k >= 0 {
		s = s[:k]
	}
	return s
}

// WaitNoStacks polls until no goroutine has a frame containing needle. It
// returns the remaining stacks and whether all of them are parked in a blocked
// state (chan send/receive, select, semacquire...) as opposed to still running.
func WaitNoStacks(needle string, polls int, every time.Duration) (left []string, allBlocked bool, samples int) {
	for i := 0; i < polls; i++ {
		left = Stacks(needle)
		samples++
		if len(left) == 0 {
			return nil, false, samples
		}
		time.Sleep(every)
	}
	allBlocked = true
	for _, s := range left {
		st := GoroutineState(s)
		if st == "running" || st == "runnable" || st == "syscall" {
			allBlocked = false
		}
	}
	return left, allBlocked, samples
}

// LockFree reports whether an exclusive non-blocking flock on a fresh
// descriptor of path succeeds, i.e. no other open file description (in this or
// any other process) holds a lock on it. The probe lock is released at once.
func LockFree(path string) (free bool, err error) {
	f, err := os.OpenFile(path, os.O_RDONLY, 0)
	if err != nil {
		return false, err
	}
	defer f.Close()
	err = syscall.Flock(int(f.Fd()), syscall.LOCK_EX|syscall.LOCK_NB)
	if err == syscall.EWOULDBLOCK {
		return false, nil
	}
	if err != nil {
		return false, err
	}
	_ = syscall.Flock(int(f.Fd()), syscall.LOCK_UN)
	return true, nil
}

// SharedLockable reports whether a shared non-blocking flock succeeds (fails
// only while someone holds an exclusive lock).
func SharedLockable(path string) (bool, error) {
	f, err := os.OpenFile(path, os.O_RDONLY, 0)
	if err != nil {
		return false, err
	}
	defer f.Close()
	err = syscall.Flock(int(f.Fd()), syscall.LOCK_SH|syscall.LOCK_NB)
	if err == syscall.EWOULDBLOCK {
		return false, nil
	}
	if err != nil {
		return false, err
	}
	_ = syscall.Flock(int(f.Fd()), syscall.LOCK_UN)
	return true, nil
}

type FileState struct {
	Exists bool
	Size   int64
	Mode   os.FileMode
	MTime  time.Time
	SHA    string
}

func StatFile(path string) FileState {
	st, err := os.Stat(path)
	if err != nil {
		return FileState{}
	}
	fs := FileState{Exists: true, Size: st.Size(), Mode: st.Mode(), MTime: st.ModTime()}
	f, err := os.Open(path)
	if err == nil {
		h := sha256.New()
		_, _ = io.Copy(h, f)
		f.Close()
		fs.SHA = hex.EncodeToString(h.Sum(nil))
	}
	return fs
}

func (a FileState) SameContent(b FileState) bool {
	return a.Exists == b.Exists && a.Size == b.Size && a.SHA == b.SHA
}

func (a FileState) String() string {
	if !a.Exists {
		return "absent"
	}
	return fmt.Sprintf("size=%d sha256=%s mode=%v mtime=%s", a.Size, a.SHA[:min(16, len(a.SHA))], a.Mode, a.MTime.Format(time.RFC3339Nano))
}

// ---------------------------------------------------------------------------
// race logs

type RaceReport struct {
	Text string
	Key  string // dedup key: pair of outermost updog entry points
	// Updog is true when at least one stack passes through updog code
	Updog bool
}

var frameRe = regexp.MustCompile(`(?m)^\s+(github\.com/akrennmair/updog[^\s(]*)\(`)

// ParseRaceLogs reads every file matching prefix* and splits it into reports.
func ParseRaceLogs(prefix string) ([]RaceReport, error) {
	files, _ := filepath.Glob(prefix + "*")
	var out []RaceReport
	for _, f := range files {
		b, err := os.ReadFile(f)
		if err != nil {
			return nil, err
		}
		out = append(out, SplitRaceReports(string(b))...)
	}
	return out, nil
}

func SplitRaceReports(text string) []RaceReport {
	var out []RaceReport
	parts := strings.Split(text, "WARNING: DATA RACE")
	for _, p := range parts[1:] {
		end := strings.Index(p, "==================")
		if end >= 0 {
			p = p[:end]
		}
		rep := RaceReport{Text: "WARNING: DATA RACE" + p}
		// dedup by the set of outermost (last) updog non-harness frames of the access stacks
		var keys []string
		for _, block := range strings.Split(p, "\n\n") {
			ms := frameRe.FindAllStringSubmatch(block, -1)
			var last string
			for _, m := range ms {
				if strings.Contains(m[1], "/verifharness") {
					continue
				}
				last = m[1]
				rep.Updog = true
			}
			if last != "" && (strings.Contains(block, "Read at") || strings.Contains(block, "Write at") || strings.Contains(block, "Previous ")) {
				keys = append(keys, last)
			}
		}
		sort.Strings(keys)
		rep.Key = strings.Join(keys, " <-> ")
		out = append(out, rep)
	}
	return out
}

func DedupRaces(rs []RaceReport) map[string]int {
	m := map[string]int{}
	for _, r := range rs {
		m[r.Key]++
	}
	return m
}

// ---------------------------------------------------------------------------
// hang classification of a goroutine dump (SIGQUIT output)

var blockedMarkers = []struct{ frame, what string }{
	{"bbolt.flock", "retrying flock on a bbolt file that is locked (leaked or exclusive handle)"},
	{"bbolt.(*DB).Close", "bbolt DB.Close waiting (open transaction never finished)"},
	{"queryparser.(*lexer).emit", "lexer goroutine blocked sending a token nobody will read"},
	{"queryparser.(*lexer).nextItem", "parser blocked waiting for a token from a lexer that has stopped"},
	{"driver.(*updogDriver).openFile", "driver blocked opening a file"},
	{"sync.(*Mutex).Lock", "blocked on a mutex"},
	{"sync.(*RWMutex)", "blocked on a read/write mutex"},
}

// parkedForMinutes: the goroutine header carries a duration of at least one minute ("[chan receive, 2 minutes]").
func parkedForMinutes(g string) bool {
	i, j := strings.Index(g, "["), strings.Index(g, "]")
	return i >= 0 && j > i && strings.Contains(g[i:j], " minutes")
}

// inCodeUnderTest: the innermost non-runtime, non-sync frame belongs to updog or bbolt, not to the harness.
func inCodeUnderTest(g string) bool {
	for _, line := range strings.Split(g, "\n")[1:] {
		if strings.HasPrefix(line, "\t") || line == "" {
			continue
		}
		if strings.HasPrefix(line, "runtime.") || strings.HasPrefix(line, "sync.") || strings.HasPrefix(line, "internal/") || strings.HasPrefix(line, "sync/") {
			continue
		}
		if strings.Contains(line, "/verifharness") {
			return false
		}
		return strings.Contains(line, "akrennmair/updog") || strings.Contains(line, "go.etcd.io/bbolt")
	}
	return false
}

// ClassifyDump looks for goroutines parked inside updog/bbolt code in a state
// that cannot make progress. It returns a description ("" if none found).
func ClassifyDump(dump string) string { return classifyDump(dump, false) }

// ClassifyStalledDump is ClassifyDump for a dump taken by a watchdog that has itself established that nothing completed
// for a long time: a goroutine parked inside the code under test needs no wait duration in its header then (the runtime
// only knows wait durations as of the last garbage collection).
func ClassifyStalledDump(dump string) string { return classifyDump(dump, true) }

// activeInCodeUnderTest: some goroutine is executing (running, runnable or in a system call) inside updog or bbolt
// code. A process in which that is the case is making progress, however many other goroutines wait for a lock the
// busy one holds; it is slow, not stuck.
func activeInCodeUnderTest(dump string) bool {
	for _, g := range strings.Split(dump, "\n\n") {
		if !strings.HasPrefix(strings.TrimSpace(g), "goroutine ") {
			continue
		}
		st := GoroutineState(g)
		if st != "running" && st != "runnable" && st != "syscall" {
			continue
		}
		for _, line := range strings.Split(g, "\n")[1:] {
			if strings.HasPrefix(line, "\t") {
				continue
			}
			if strings.Contains(line, "/verifharness") {
				continue
			}
			if strings.HasPrefix(line, "github.com/akrennmair/updog") || strings.HasPrefix(line, "go.etcd.io/bbolt") {
				return true
			}
		}
	}
	return false
}

func classifyDump(dump string, stalled bool) string {
	if activeInCodeUnderTest(dump) {
		return ""
	}
	var found []string
	for _, g := range strings.Split(dump, "\n\n") {
		if !strings.HasPrefix(strings.TrimSpace(g), "goroutine ") {
			continue
		}
		st := GoroutineState(g)
		if st == "running" || st == "runnable" {
			continue
		}
		if !strings.Contains(g, "akrennmair/updog") && !strings.Contains(g, "go.etcd.io/bbolt") {
			continue
		}
		marked := false
		for _, m := range blockedMarkers {
			if strings.Contains(g, m.frame) {
				found = append(found, fmt.Sprintf("[%s] %s", st, m.what))
				marked = true
				break
			}
		}
		// anything else parked for at least a minute in a frame of the code under test (not of the harness): waiting for a
		// channel, a WaitGroup or a condition that nobody will signal any more (a watchdog only fires after every
		// legitimate computation of the workloads has long finished)
		if !marked && (stalled || parkedForMinutes(g)) && inCodeUnderTest(g) {
			switch st {
			case "chan receive", "chan send", "select", "semacquire", "sync.WaitGroup.Wait", "sync.Cond.Wait", "sync.Mutex.Lock", "sync.RWMutex.RLock", "sync.RWMutex.Lock", "chan receive (nil chan)", "chan send (nil chan)", "select (no cases)":
				found = append(found, fmt.Sprintf("[%s] parked inside the code under test for minutes", st))
			}
		}
	}
	if len(found) == 0 {
		return ""
	}
	sort.Strings(found)
	return strings.Join(found, "; ")
}
