// Package oracle holds the reference semantics used by the checks. It shares no
// code with updog: rows are plain maps, expressions are a tiny AST, evaluation
// is the three-line recursive definition from the property statements.
package oracle

import (
	"fmt"
	"sort"
	"strings"

	"github.com/akrennmair/updog"
	pb "github.com/akrennmair/updog/proto/updog/v1"
)

type Row = map[string]string

// Expr is the reference expression tree. Op is '=' (Col = Val, or Col = $Ph
// when Ph > 0), '^' (one kid), '&' or '|' (one or more kids).
type Expr struct {
	Op   byte
	Col  string
	Val  string
	Ph   int32
	Kids []*Expr
}

func Eq(c, v string) *Expr         { return &Expr{Op: '=', Col: c, Val: v} }
func PhEq(c string, n int32) *Expr { return &Expr{Op: '=', Col: c, Ph: n} }
func Not(e *Expr) *Expr            { return &Expr{Op: '^', Kids: []*Expr{e}} }
func And(k ...*Expr) *Expr         { return &Expr{Op: '&', Kids: k} }
func Or(k ...*Expr) *Expr          { return &Expr{Op: '|', Kids: k} }

// Sat is the definition of "row satisfies expression".
func (e *Expr) Sat(r Row) bool {
	switch e.Op {
	case '=':
		v, ok := r[e.Col]
		return ok && v == e.Val
	case '^':
		return !e.Kids[0].Sat(r)
	case '&':
		for _, k := range e.Kids {
			if !k.Sat(r) {
				return false
			}
		}
		return true
	default:
		for _, k := range e.Kids {
			if k.Sat(r) {
				return true
			}
		}
		return false
	}
}

// Columns returns the columns tested anywhere in the expression.
func (e *Expr) Columns(into map[string]bool) {
	// iterative to survive very deep chains
	stack := []*Expr{e}
	for len(stack) > 0 {
		x := stack[len(stack)-1]
		stack = stack[:len(stack)-1]
		if x.Op == '=' {
			into[x.Col] = true
			continue
		}
		stack = append(stack, x.Kids...)
	}
}

func (e *Expr) Nodes() int {
	n := 0
	stack := []*Expr{e}
	for len(stack) > 0 {
		x := stack[len(stack)-1]
		stack = stack[:len(stack)-1]
		n++
		stack = append(stack, x.Kids...)
	}
	return n
}

func (e *Expr) Depth() int {
	type fr struct {
		e *Expr
		d int
	}
	max := 0
	stack := []fr{{e, 0}}
	for len(stack) > 0 {
		x := stack[len(stack)-1]
		stack = stack[:len(stack)-1]
		if x.d > max {
			max = x.d
		}
		for _, k := range x.e.Kids {
			stack = append(stack, fr{k, x.d + 1})
		}
	}
	return max
}

func (e *Expr) HasOperator() bool { return e.Op != '=' }

// Shape is a structural fingerprint that ignores columns and values.
func (e *Expr) Shape() string {
	var sb strings.Builder
	var rec func(x *Expr, d int)
	rec = func(x *Expr, d int) {
		if d > 64 {
			sb.WriteString("…")
			return
		}
		switch x.Op {
		case '=':
			sb.WriteByte('=')
		default:
			sb.WriteByte(x.Op)
			sb.WriteByte('(')
			for _, k := range x.Kids {
				rec(k, d+1)
			}
			sb.WriteByte(')')
		}
	}
	rec(e, 0)
	return sb.String()
}

// String renders the tree with Go-quoted strings (lossless for any bytes).
func (e *Expr) String() string {
	var sb strings.Builder
	var rec func(x *Expr, d int)
	rec = func(x *Expr, d int) {
		if d > 200 {
			sb.WriteString("…")
			return
		}
		switch x.Op {
		case '=':
			if x.Ph > 0 {
				fmt.Fprintf(&sb, "%q=$%d", x.Col, x.Ph)
			} else {
				fmt.Fprintf(&sb, "%q=%q", x.Col, x.Val)
			}
		case '^':
			sb.WriteString("^")
			rec(x.Kids[0], d+1)
		default:
			sb.WriteByte('(')
			for i, k := range x.Kids {
				if i > 0 {
					sb.WriteByte(' ')
					sb.WriteByte(x.Op)
					sb.WriteByte(' ')
				}
				rec(k, d+1)
			}
			if len(x.Kids) == 1 {
				sb.WriteByte(' ')
				sb.WriteByte(x.Op)
			}
			sb.WriteByte(')')
		}
	}
	rec(e, 0)
	s := sb.String()
	if len(s) > 4000 {
		s = s[:4000] + "…(truncated)"
	}
	return s
}

// ToUpdog converts to the library's expression types.
func (e *Expr) ToUpdog() updog.Expression {
	switch e.Op {
	case '=':
		return &updog.ExprEqual{Column: e.Col, Value: e.Val}
	case '^':
		return &updog.ExprNot{Expr: e.Kids[0].ToUpdog()}
	case '&':
		x := &updog.ExprAnd{}
		for _, k := range e.Kids {
			x.Exprs = append(x.Exprs, k.ToUpdog())
		}
		return x
	default:
		x := &updog.ExprOr{}
		for _, k := range e.Kids {
			x.Exprs = append(x.Exprs, k.ToUpdog())
		}
		return x
	}
}

// FromUpdog converts the library's expression back (for field snapshots).
func FromUpdog(x updog.Expression) *Expr {
	switch v := x.(type) {
	case *updog.ExprEqual:
		return Eq(v.Column, v.Value)
	case *updog.ExprNot:
		return Not(FromUpdog(v.Expr))
	case *updog.ExprAnd:
		e := &Expr{Op: '&'}
		for _, k := range v.Exprs {
			e.Kids = append(e.Kids, FromUpdog(k))
		}
		return e
	case *updog.ExprOr:
		e := &Expr{Op: '|'}
		for _, k := range v.Exprs {
			e.Kids = append(e.Kids, FromUpdog(k))
		}
		return e
	}
	return &Expr{Op: '?'}
}

func (e *Expr) ToProto() *pb.Query_Expression {
	switch e.Op {
	case '=':
		return &pb.Query_Expression{Value: &pb.Query_Expression_Eq{Eq: &pb.Query_Expression_Equal{Column: e.Col, Value: e.Val, Placeholder: e.Ph}}}
	case '^':
		return &pb.Query_Expression{Value: &pb.Query_Expression_Not_{Not: &pb.Query_Expression_Not{Expr: e.Kids[0].ToProto()}}}
	case '&':
		x := &pb.Query_Expression_And{}
		for _, k := range e.Kids {
			x.Exprs = append(x.Exprs, k.ToProto())
		}
		return &pb.Query_Expression{Value: &pb.Query_Expression_And_{And: x}}
	default:
		x := &pb.Query_Expression_Or{}
		for _, k := range e.Kids {
			x.Exprs = append(x.Exprs, k.ToProto())
		}
		return &pb.Query_Expression{Value: &pb.Query_Expression_Or_{Or: x}}
	}
}

// FromProto converts a complete protobuf tree; ok is false if any member is
// unset.
func FromProto(p *pb.Query_Expression) (e *Expr, ok bool) {
	if p == nil {
		return nil, false
	}
	switch v := p.Value.(type) {
	case *pb.Query_Expression_Eq:
		if v.Eq == nil {
			return nil, false
		}
		return &Expr{Op: '=', Col: v.Eq.Column, Val: v.Eq.Value, Ph: v.Eq.Placeholder}, true
	case *pb.Query_Expression_Not_:
		if v.Not == nil {
			return nil, false
		}
		k, ok := FromProto(v.Not.Expr)
		if !ok {
			return nil, false
		}
		return Not(k), true
	case *pb.Query_Expression_And_:
		if v.And == nil {
			return nil, false
		}
		e := &Expr{Op: '&'}
		for _, x := range v.And.Exprs {
			k, ok := FromProto(x)
			if !ok {
				return nil, false
			}
			e.Kids = append(e.Kids, k)
		}
		return e, true
	case *pb.Query_Expression_Or_:
		if v.Or == nil {
			return nil, false
		}
		e := &Expr{Op: '|'}
		for _, x := range v.Or.Exprs {
			k, ok := FromProto(x)
			if !ok {
				return nil, false
			}
			e.Kids = append(e.Kids, k)
		}
		return e, true
	}
	return nil, false
}

func Equal(a, b *Expr) bool {
	if a == nil || b == nil {
		return a == b
	}
	if a.Op != b.Op || len(a.Kids) != len(b.Kids) {
		return false
	}
	if a.Op == '=' {
		return a.Col == b.Col && a.Val == b.Val && a.Ph == b.Ph
	}
	for i := range a.Kids {
		if !Equal(a.Kids[i], b.Kids[i]) {
			return false
		}
	}
	return true
}

func (e *Expr) Clone() *Expr {
	c := &Expr{Op: e.Op, Col: e.Col, Val: e.Val, Ph: e.Ph}
	for _, k := range e.Kids {
		c.Kids = append(c.Kids, k.Clone())
	}
	return c
}

// Normalize flattens directly nested nodes of the same operator and unwraps
// single-operand AND/OR (the meaning-preserving normal form of C10).
func Normalize(e *Expr) *Expr {
	switch e.Op {
	case '=':
		return &Expr{Op: '=', Col: e.Col, Val: e.Val, Ph: e.Ph}
	case '^':
		return Not(Normalize(e.Kids[0]))
	}
	n := &Expr{Op: e.Op}
	for _, k := range e.Kids {
		nk := Normalize(k)
		if nk.Op == e.Op {
			n.Kids = append(n.Kids, nk.Kids...)
		} else {
			n.Kids = append(n.Kids, nk)
		}
	}
	if len(n.Kids) == 1 {
		return n.Kids[0]
	}
	return n
}

// Substitute replaces every placeholder $n by args[n-1]; ok is false when an
// argument is missing.
func Substitute(e *Expr, args []string) (*Expr, bool) {
	if e.Op == '=' {
		if e.Ph > 0 {
			if int(e.Ph) > len(args) {
				return nil, false
			}
			return Eq(e.Col, args[e.Ph-1]), true
		}
		return Eq(e.Col, e.Val), true
	}
	n := &Expr{Op: e.Op}
	for _, k := range e.Kids {
		s, ok := Substitute(k, args)
		if !ok {
			return nil, false
		}
		n.Kids = append(n.Kids, s)
	}
	return n, true
}

func MaxPlaceholder(e *Expr) int32 {
	if e.Op == '=' {
		return e.Ph
	}
	var m int32
	for _, k := range e.Kids {
		if p := MaxPlaceholder(k); p > m {
			m = p
		}
	}
	return m
}

// ---------------------------------------------------------------------------

type Group struct {
	Cols   []string
	Values []string
	Count  uint64
}

type Answer struct {
	Err    bool // expected: error and no result
	Count  uint64
	Groups []Group
}

// Columns of a dataset = columns occurring in at least one row.
func Columns(rows []Row) map[string]bool {
	m := map[string]bool{}
	for _, r := range rows {
		for c := range r {
			m[c] = true
		}
	}
	return m
}

// Schema returns, per column, the sorted distinct values.
func Schema(rows []Row) map[string][]string {
	seen := map[string]map[string]bool{}
	for _, r := range rows {
		for c, v := range r {
			if seen[c] == nil {
				seen[c] = map[string]bool{}
			}
			seen[c][v] = true
		}
	}
	out := map[string][]string{}
	for c, vs := range seen {
		l := make([]string, 0, len(vs))
		for v := range vs {
			l = append(l, v)
		}
		sort.Strings(l)
		out[c] = l
	}
	return out
}

// Eval is the row oracle: total count and SQL GROUP BY with COUNT(*)>0 sorted
// byte-wise by the value tuple in list order.
func Eval(rows []Row, cols map[string]bool, e *Expr, groupBy []string) Answer {
	used := map[string]bool{}
	e.Columns(used)
	for c := range used {
		if !cols[c] {
			return Answer{Err: true}
		}
	}
	for _, c := range groupBy {
		if !cols[c] {
			return Answer{Err: true}
		}
	}
	var a Answer
	type acc struct {
		vals []string
		n    uint64
	}
	m := map[string]*acc{}
	var keyBuf strings.Builder
	for _, r := range rows {
		if !e.Sat(r) {
			continue
		}
		a.Count++
		if len(groupBy) == 0 {
			continue
		}
		keyBuf.Reset()
		ok := true
		for _, c := range groupBy {
			v, has := r[c]
			if !has {
				ok = false
				break
			}
			fmt.Fprintf(&keyBuf, "%d:", len(v))
			keyBuf.WriteString(v)
		}
		if !ok {
			continue
		}
		k := keyBuf.String()
		g := m[k]
		if g == nil {
			vals := make([]string, len(groupBy))
			for i, c := range groupBy {
				vals[i] = r[c]
			}
			g = &acc{vals: vals}
			m[k] = g
		}
		g.n++
	}
	for _, g := range m {
		a.Groups = append(a.Groups, Group{Cols: groupBy, Values: g.vals, Count: g.n})
	}
	sort.Slice(a.Groups, func(i, j int) bool { return LessTuple(a.Groups[i].Values, a.Groups[j].Values) })
	return a
}

func LessTuple(a, b []string) bool {
	for k := range a {
		if a[k] != b[k] {
			return a[k] < b[k]
		}
	}
	return false
}

// CompareResult compares a library result with the oracle's answer and returns
// a description of the first difference ("" if equal). It also checks on its
// own that groups are strictly increasing and have no zero counts.
func CompareResult(res *updog.Result, err error, want Answer, groupBy []string) string {
	if want.Err {
		if err == nil {
			return fmt.Sprintf("expected an error (unknown column), got a result: count=%d groups=%d", res.Count, len(res.Groups))
		}
		if res != nil {
			return "error returned together with a result"
		}
		return ""
	}
	if err != nil {
		return "unexpected error: " + err.Error()
	}
	if res == nil {
		return "nil result without error"
	}
	if res.Count != want.Count {
		return fmt.Sprintf("count %d, want %d", res.Count, want.Count)
	}
	if len(res.Groups) != len(want.Groups) {
		return fmt.Sprintf("%d groups, want %d; got %s want %s", len(res.Groups), len(want.Groups), FmtGroups(res.Groups, 6), fmtWant(want.Groups, 6))
	}
	var prev []string
	var sum uint64
	for i, g := range res.Groups {
		w := want.Groups[i]
		if len(g.Fields) != len(groupBy) {
			return fmt.Sprintf("group %d has %d fields, want %d: %s", i, len(g.Fields), len(groupBy), FmtGroups(res.Groups[i:i+1], 1))
		}
		vals := make([]string, len(g.Fields))
		for k, f := range g.Fields {
			if f.Column != groupBy[k] {
				return fmt.Sprintf("group %d field %d names column %q, want %q", i, k, f.Column, groupBy[k])
			}
			vals[k] = f.Value
			if f.Value != w.Values[k] {
				return fmt.Sprintf("group %d field %d value %q, want %q (got %s want %s)", i, k, f.Value, w.Values[k], FmtGroups(res.Groups, 8), fmtWant(want.Groups, 8))
			}
		}
		if g.Count != w.Count {
			return fmt.Sprintf("group %d %q count %d, want %d", i, vals, g.Count, w.Count)
		}
		if g.Count == 0 {
			return fmt.Sprintf("group %d has count zero", i)
		}
		if prev != nil && !LessTuple(prev, vals) {
			return fmt.Sprintf("groups not strictly increasing at %d: %q then %q", i, prev, vals)
		}
		prev = vals
		sum += g.Count
	}
	if sum > res.Count {
		return fmt.Sprintf("sum of group counts %d exceeds total %d", sum, res.Count)
	}
	return ""
}

func FmtGroups(gs []updog.ResultGroup, max int) string {
	var sb strings.Builder
	sb.WriteByte('[')
	for i, g := range gs {
		if i >= max {
			sb.WriteString(" …")
			break
		}
		if i > 0 {
			sb.WriteByte(' ')
		}
		sb.WriteByte('{')
		for k, f := range g.Fields {
			if k > 0 {
				sb.WriteByte(',')
			}
			fmt.Fprintf(&sb, "%q=%q", f.Column, f.Value)
		}
		fmt.Fprintf(&sb, ":%d}", g.Count)
	}
	sb.WriteByte(']')
	return sb.String()
}

func fmtWant(gs []Group, max int) string {
	var sb strings.Builder
	sb.WriteByte('[')
	for i, g := range gs {
		if i >= max {
			sb.WriteString(" …")
			break
		}
		if i > 0 {
			sb.WriteByte(' ')
		}
		fmt.Fprintf(&sb, "{%q:%d}", g.Values, g.Count)
	}
	sb.WriteByte(']')
	return sb.String()
}

// CompareSchema compares the library's schema with the oracle's.
func CompareSchema(got *updog.Schema, rows []Row) string {
	want := Schema(rows)
	if got == nil {
		return "nil schema"
	}
	if len(got.Columns) != len(want) {
		return fmt.Sprintf("%d columns, want %d", len(got.Columns), len(want))
	}
	prev := ""
	for i, c := range got.Columns {
		if i > 0 && !(prev < c.Name) {
			return fmt.Sprintf("columns not sorted/unique: %q then %q", prev, c.Name)
		}
		prev = c.Name
		w, ok := want[c.Name]
		if !ok {
			return fmt.Sprintf("unexpected column %q", c.Name)
		}
		if len(c.Values) != len(w) {
			return fmt.Sprintf("column %q has %d values, want %d", c.Name, len(c.Values), len(w))
		}
		for k, v := range c.Values {
			if v.Value != w[k] {
				return fmt.Sprintf("column %q value %d is %q, want %q", c.Name, k, v.Value, w[k])
			}
		}
	}
	return ""
}
