package oracle

import (
	"math/big"
	"strings"
)

// Reference recogniser for the query grammar documented in the header of
// internal/queryparser/queryparser.go, written independently at byte level:
//
//	query ::= expr [ ';' field-list ]
//	expr ::= simple-expr | and-expr | or-expr
//	simple-expr ::= '(' expr ')' | '^' simple-expr | field '=' ( value | placeholder )
//	and-expr ::= simple-expr { '&' simple-expr }     (a chain is ONE n-ary node, in source order)
//	or-expr ::= simple-expr { '|' simple-expr }
//	field-list ::= field { ',' field }
//	value ::= '"' { non-quote | '""' } '"'
//	placeholder ::= '$' digit { digit }              (numeric value 1 .. 2^31-1)
//
// Lexical rules: blanks are SP, TAB, CR, LF; a field is [A-Za-z][0-9A-Za-z_]*;
// any other byte outside a value is an error.

type rtok struct {
	k byte // ( ) & | ^ , ; = f v p E
	s string
}

func rlex(in string) ([]rtok, bool) {
	out := make([]rtok, 0, len(in)/2+1)
	i := 0
	isL := func(c byte) bool { return c >= 'a' && c <= 'z' || c >= 'A' && c <= 'Z' }
	for i < len(in) {
		c := in[i]
		switch {
		case c == ' ' || c == '\t' || c == '\r' || c == '\n':
			i++
		case strings.IndexByte("()&|^,;=", c) >= 0:
			out = append(out, rtok{c, ""})
			i++
		case isL(c):
			j := i + 1
			for j < len(in) && (isL(in[j]) || in[j] >= '0' && in[j] <= '9' || in[j] == '_') {
				j++
			}
			out = append(out, rtok{'f', in[i:j]})
			i = j
		case c == '$':
			j := i + 1
			for j < len(in) && in[j] >= '0' && in[j] <= '9' {
				j++
			}
			out = append(out, rtok{'p', in[i+1 : j]})
			i = j
		case c == '"':
			j := i + 1
			var sb strings.Builder
			closed := false
			for j < len(in) {
				if in[j] == '"' {
					if j+1 < len(in) && in[j+1] == '"' {
						sb.WriteByte('"')
						j += 2
						continue
					}
					closed = true
					j++
					break
				}
				sb.WriteByte(in[j])
				j++
			}
			if !closed {
				return nil, false
			}
			out = append(out, rtok{'v', sb.String()})
			i = j
		default:
			return nil, false
		}
	}
	out = append(out, rtok{'E', ""})
	return out, true
}

type rparser struct {
	t  []rtok
	i  int
	ok bool
}

func (p *rparser) peek() byte { return p.t[p.i].k }

var maxPlaceholder = big.NewInt(1<<31 - 1)

// simple parses a simple-expr. NOT chains and parenthesis nesting are handled
// iteratively where possible so that the reference survives very deep inputs.
func (p *rparser) simple() *Expr {
	if !p.ok {
		return nil
	}
	// count leading '^'
	nots := 0
	for p.peek() == '^' {
		nots++
		p.i++
	}
	var e *Expr
	switch p.peek() {
	case '(':
		p.i++
		e = p.expr()
		if !p.ok || p.peek() != ')' {
			p.ok = false
			return nil
		}
		p.i++
	case 'f':
		col := p.t[p.i].s
		p.i++
		if p.peek() != '=' {
			p.ok = false
			return nil
		}
		p.i++
		switch p.peek() {
		case 'v':
			e = Eq(col, p.t[p.i].s)
			p.i++
		case 'p':
			d := p.t[p.i].s
			p.i++
			if d == "" {
				p.ok = false
				return nil
			}
			n, _ := new(big.Int).SetString(d, 10)
			if n == nil || n.Sign() <= 0 || n.Cmp(maxPlaceholder) > 0 {
				p.ok = false
				return nil
			}
			e = PhEq(col, int32(n.Int64()))
		default:
			p.ok = false
			return nil
		}
	default:
		p.ok = false
		return nil
	}
	for ; nots > 0; nots-- {
		e = Not(e)
	}
	return e
}

func (p *rparser) expr() *Expr {
	first := p.simple()
	if !p.ok {
		return nil
	}
	if k := p.peek(); k == '&' || k == '|' {
		n := &Expr{Op: k, Kids: []*Expr{first}}
		for p.ok && p.peek() == k {
			p.i++
			n.Kids = append(n.Kids, p.simple())
		}
		if !p.ok {
			return nil
		}
		return n
	}
	return first
}

// RefParse returns the tree the grammar prescribes for the input, or ok=false
// when the whole input is not a sentence of the grammar.
func RefParse(in string) (e *Expr, groupBy []string, ok bool) {
	t, lok := rlex(in)
	if !lok {
		return nil, nil, false
	}
	p := &rparser{t: t, ok: true}
	e = p.expr()
	if !p.ok {
		return nil, nil, false
	}
	if p.peek() == ';' {
		p.i++
		if p.peek() != 'f' {
			return nil, nil, false
		}
		groupBy = append(groupBy, p.t[p.i].s)
		p.i++
		for p.peek() == ',' {
			p.i++
			if p.peek() != 'f' {
				return nil, nil, false
			}
			groupBy = append(groupBy, p.t[p.i].s)
			p.i++
		}
	}
	if p.peek() != 'E' {
		return nil, nil, false
	}
	return e, groupBy, true
}

// IsIdent reports whether s is a field of the query language.
func IsIdent(s string) bool {
	if s == "" {
		return false
	}
	for i := 0; i < len(s); i++ {
		c := s[i]
		l := c >= 'a' && c <= 'z' || c >= 'A' && c <= 'Z'
		if i == 0 && !l {
			return false
		}
		if !l && !(c >= '0' && c <= '9') && c != '_' {
			return false
		}
	}
	return true
}

// QuoteValue renders a value token: quotes doubled, any other byte verbatim.
func QuoteValue(v string) string {
	return `"` + strings.ReplaceAll(v, `"`, `""`) + `"`
}
