// Package vf is the small framework shared by all property checks: deterministic
// per-case random streams, case filtering for replay, thread-safe coverage
// tallies, three-valued verdicts, known-finding handling, replay and evidence
// files.
package vf

import (
	"crypto/sha256"
	"encoding/binary"
	"encoding/hex"
	"encoding/json"
	"fmt"
	"math/rand"
	"os"
	"path/filepath"
	"regexp"
	"runtime"
	"runtime/debug"
	"sort"
	"strings"
	"sync"
	"sync/atomic"
	"time"
)

// Root is the directory holding MANIFEST.json, evidence/, replays/ and
// KNOWN_FINDINGS.txt. It is taken from VERIF_ROOT (set by ./check).
func Root() string {
	if r := os.Getenv("VERIF_ROOT"); r != "" {
		return r
	}
	return "/verif"
}

type Run struct {
	Prop  string
	Tier  string // quick | thorough
	Seed  int64
	Only  string // case id filter (replay); "" = all cases
	Level string

	Scratch string

	start time.Time

	mu           sync.Mutex
	evals        int64
	distinct     map[[16]byte]struct{}
	counts       map[string]int64
	sets         map[string]map[string]struct{}
	maxima       map[string]int64
	samples      []any
	sampleKinds  map[string]int
	extra        map[string]any
	violations   int
	violationIDs map[string]bool
	knownSeen    map[string]int
	inconclusive []string
	rule         string
	assumptions  []string
	exhaustive   bool

	known map[string]string // key -> text from KNOWN_FINDINGS.txt

	progress     *os.File
	stoppedEarly bool
	hangs        int
	casesRun     int64

	quiet     bool
	collected []map[string]any
}

// ScratchBase returns the directory under which run-time scratch directories are created.
func ScratchBase() string {
	base := os.Getenv("VERIF_SCRATCH_BASE")
	if base == "" {
		if st, err := os.Stat("/dev/shm"); err == nil && st.IsDir() {
			base = "/dev/shm"
		} else {
			base = filepath.Join(Root(), ".scratch")
			_ = os.MkdirAll(base, 0o755)
		}
	}
	return base
}

func NewRun(prop, tier string, seed int64, only, level string) *Run {
	r := &Run{
		Prop: prop, Tier: tier, Seed: seed, Only: only, Level: level,
		start:        time.Now(),
		distinct:     map[[16]byte]struct{}{},
		counts:       map[string]int64{},
		sets:         map[string]map[string]struct{}{},
		maxima:       map[string]int64{},
		sampleKinds:  map[string]int{},
		extra:        map[string]any{},
		violationIDs: map[string]bool{},
		knownSeen:    map[string]int{},
		known:        map[string]string{},
	}
	r.loadKnown()
	base := ScratchBase()
	if d := os.Getenv("VERIF_SCRATCH_DIR"); d != "" {
		// created (and finally removed) by the supervisor, so that nothing is left behind when this process dies
		r.Scratch = d
	} else {
		d, err := os.MkdirTemp(base, "verif-"+prop+"-")
		if err != nil {
			panic(err)
		}
		r.Scratch = d
	}
	if p := os.Getenv("VERIF_PROGRESS"); p != "" {
		r.progress, _ = os.OpenFile(p, os.O_CREATE|os.O_WRONLY|os.O_APPEND, 0o644)
	}
	return r
}

func (r *Run) Quick() bool    { return r.Tier != "thorough" }
func (r *Run) Thorough() bool { return r.Tier == "thorough" }
func (r *Run) Replay() bool   { return r.Only != "" }

// Pick returns q in the quick tier and t in the thorough tier.
func (r *Run) Pick(q, t int) int {
	if r.Thorough() {
		return t
	}
	return q
}

var knownRe = regexp.MustCompile(`^known:\s+property=(\S+)\s+key=(\S+)\s+(.*)$`)

func (r *Run) loadKnown() {
	b, err := os.ReadFile(filepath.Join(Root(), "KNOWN_FINDINGS.txt"))
	if err != nil {
		return
	}
	for _, line := range strings.Split(string(b), "\n") {
		m := knownRe.FindStringSubmatch(strings.TrimSpace(line))
		if m == nil || m[1] != r.Prop {
			continue
		}
		r.known[m[2]] = m[3]
	}
}

// RNG returns a deterministic random stream for (seed, property, name).
func (r *Run) RNG(name string) *rand.Rand {
	h := sha256.Sum256([]byte(fmt.Sprintf("%d|%s|%s", r.Seed, r.Prop, name)))
	return rand.New(rand.NewSource(int64(binary.LittleEndian.Uint64(h[:8]))))
}

// Want reports whether the case id is selected (always, unless replaying).
// A filter selects a case when either is a path-prefix of the other, so that
// replaying "ds3/q17" runs the dataset case "ds3" and inside it only "ds3/q17".
func (r *Run) Want(id string) bool {
	if r.enough() {
		return false
	}
	if r.Only == "" {
		return true
	}
	return id == r.Only || strings.HasPrefix(r.Only, id+"/") || strings.HasPrefix(id, r.Only+"/")
}

// Progress records the case that is about to run, so that a supervisor can
// name the culprit if the process dies.
func (r *Run) Progress(id string) {
	atomic.AddInt64(&r.casesRun, 1)
	if r.progress != nil {
		r.mu.Lock()
		fmt.Fprintf(r.progress, "%s\n", id)
		r.mu.Unlock()
	}
}

// ForEach runs f for every selected id with the given parallelism. Each call
// is guarded: a panic becomes a violation of the case.
func (r *Run) ForEach(ids []string, par int, f func(id string)) {
	if par < 1 {
		par = 1
	}
	if par > runtime.NumCPU() {
		par = runtime.NumCPU()
	}
	ch := make(chan string)
	var wg sync.WaitGroup
	for i := 0; i < par; i++ {
		wg.Add(1)
		go func() {
			defer wg.Done()
			for id := range ch {
				t0 := time.Now()
				r.Guard(id, func() { f(id) })
				if d := time.Since(t0); d > 5*time.Second && os.Getenv("VERIF_DEBUG") != "" {
					fmt.Fprintf(os.Stderr, "slow case %s: %.1fs\n", id, d.Seconds())
				}
			}
		}()
	}
	seen := map[string]bool{}
	for _, id := range ids {
		// a case id names one unit of work (and usually its scratch files): the same id twice would run two units on
		// the same files at the same time
		if r.Want(id) && !seen[id] {
			seen[id] = true
			ch <- id
		}
	}
	close(ch)
	wg.Wait()
}

// Guard runs f and converts a panic into a violation with the stack as witness.
func (r *Run) Guard(id string, f func()) {
	r.Progress(id)
	defer func() {
		if e := recover(); e != nil {
			r.Violation(id, "panic", map[string]any{"panic": fmt.Sprint(e), "stack": string(debug.Stack())})
		}
	}()
	f()
}

// Try runs f and returns a description of the panic, if any.
func Try(f func()) (panicked bool, msg string, stack string) {
	defer func() {
		if e := recover(); e != nil {
			panicked = true
			msg = fmt.Sprint(e)
			stack = string(debug.Stack())
		}
	}()
	f()
	return
}

func (r *Run) Eval(n int) {
	atomic.AddInt64(&r.evals, int64(n))
}

// Distinct records a non-trivial case by a key; only distinct keys count.
func (r *Run) Distinct(key string) {
	h := sha256.Sum256([]byte(key))
	var k [16]byte
	copy(k[:], h[:16])
	r.mu.Lock()
	r.distinct[k] = struct{}{}
	r.mu.Unlock()
}

func (r *Run) Count(name string, n int64) {
	r.mu.Lock()
	r.counts[name] += n
	r.mu.Unlock()
}

func (r *Run) GetCount(name string) int64 {
	r.mu.Lock()
	defer r.mu.Unlock()
	return r.counts[name]
}

func (r *Run) Max(name string, v int64) {
	r.mu.Lock()
	if v > r.maxima[name] {
		r.maxima[name] = v
	}
	r.mu.Unlock()
}

// Cover adds an element to a named coverage set (reported as the sorted set
// when small, as a count otherwise).
func (r *Run) Cover(set, elem string) {
	r.mu.Lock()
	m := r.sets[set]
	if m == nil {
		m = map[string]struct{}{}
		r.sets[set] = m
	}
	m[elem] = struct{}{}
	r.mu.Unlock()
}

func (r *Run) Covered(set string) int {
	r.mu.Lock()
	defer r.mu.Unlock()
	return len(r.sets[set])
}

func (r *Run) HasCover(set, elem string) bool {
	r.mu.Lock()
	defer r.mu.Unlock()
	_, ok := r.sets[set][elem]
	return ok
}

// Sample keeps up to perKind samples of each kind.
func (r *Run) Sample(kind string, v any) {
	r.mu.Lock()
	if r.sampleKinds[kind] < 2 {
		r.sampleKinds[kind]++
		r.samples = append(r.samples, map[string]any{"kind": kind, "case": v})
	}
	r.mu.Unlock()
}

func (r *Run) Extra(key string, v any) {
	r.mu.Lock()
	r.extra[key] = v
	r.mu.Unlock()
}

func (r *Run) Rule(s string)      { r.rule = s }
func (r *Run) Assume(s ...string) { r.assumptions = append(r.assumptions, s...) }
func (r *Run) Exhaustive(b bool)  { r.exhaustive = b }

var sanitize = regexp.MustCompile(`[^A-Za-z0-9_.-]+`)

// Violation records a refuting execution: writes the replay file and prints the
// VIOLATION line. Only the first violation per case id is reported.
func (r *Run) Violation(caseID, kind string, detail any) {
	r.mu.Lock()
	if r.violationIDs[caseID+"|"+kind] {
		r.mu.Unlock()
		return
	}
	r.violationIDs[caseID+"|"+kind] = true
	r.violations++
	if strings.Contains(kind, "hang") || strings.Contains(kind, "never-finishes") || strings.Contains(kind, "does-not-return") || strings.Contains(kind, "never-answered") || strings.Contains(kind, "stops-answering") {
		r.hangs++
	}
	n := r.violations
	if r.quiet {
		r.collected = append(r.collected, map[string]any{"case_id": caseID, "kind": kind, "detail": detail})
		r.mu.Unlock()
		return
	}
	r.mu.Unlock()
	if n > 200 {
		return // enough witnesses; keep counting only
	}
	dir := filepath.Join(Root(), "replays")
	_ = os.MkdirAll(dir, 0o755)
	name := fmt.Sprintf("%s-%s-s%d-%s.json", r.Prop, r.Tier, r.Seed, sanitize.ReplaceAllString(caseID+"-"+kind, "_"))
	if len(name) > 180 {
		h := sha256.Sum256([]byte(name))
		name = name[:150] + "-" + hex.EncodeToString(h[:6]) + ".json"
	}
	path := filepath.Join(dir, name)
	doc := map[string]any{
		"property": r.Prop, "tier": r.Tier, "seed": r.Seed, "case_id": caseID, "kind": kind, "detail": detail,
		"replay": fmt.Sprintf("./check %s --replay %s", r.Prop, path),
	}
	b, err := json.MarshalIndent(doc, "", " ")
	if err != nil {
		b, _ = json.MarshalIndent(map[string]any{"property": r.Prop, "tier": r.Tier, "seed": r.Seed, "case_id": caseID, "kind": kind, "detail": fmt.Sprintf("%+v", detail)}, "", " ")
	}
	_ = os.WriteFile(path, b, 0o644)
	fmt.Printf("VIOLATION property=%s replay=%s\n", r.Prop, path)
	fmt.Fprintf(os.Stderr, "violation %s case=%s kind=%s\n", r.Prop, caseID, kind)
	if p := os.Getenv("VERIF_PROGRESS"); p != "" {
		// the supervisor reads this when the check does not reach its end (watchdog, crash): violations that were
		// reported stay violations
		_ = os.WriteFile(p+".violations", []byte(fmt.Sprint(n)), 0o644)
	}
}

// MaxViolations is the number of violations after which the remaining cases of a run are skipped: a tree that breaks
// a property this often has been shown to break it, and changes that make the code under test slow or explosive
// would otherwise keep the run busy until its watchdog. Never reached on a tree where the property holds.
var MaxViolations = 60

func (r *Run) enough() bool {
	r.mu.Lock()
	defer r.mu.Unlock()
	// three calls that never returned are enough: every further one costs a whole watchdog period
	if (r.violations >= MaxViolations || r.hangs >= 3) && !r.quiet {
		if !r.stoppedEarly {
			r.stoppedEarly = true
			r.extra["stopped_early"] = fmt.Sprintf("remaining cases skipped after %d violations (%d of them calls that did not return)", r.violations, r.hangs)
		}
		return true
	}
	return false
}

// ForceViolations makes the run count n violations that another process reported (used by the supervisor when the
// check process printed VIOLATION lines and then did not reach its end).
func (r *Run) ForceViolations(n int) {
	r.mu.Lock()
	if n > r.violations {
		r.violations = n
	}
	r.mu.Unlock()
}

// KnownFinding handles a refuting execution that matches the recogniser of a
// finding. If KNOWN_FINDINGS.txt lists the key as known, a KNOWN-FINDING line is
// printed and the run is not failed; otherwise it is an ordinary violation.
func (r *Run) KnownFinding(key, caseID, kind string, detail any) {
	r.mu.Lock()
	text, listed := r.known[key]
	if listed {
		r.knownSeen[key]++
		first := r.knownSeen[key] == 1
		r.mu.Unlock()
		if first {
			fmt.Printf("KNOWN-FINDING: property=%s key=%s %s\n", r.Prop, key, text)
		}
		return
	}
	r.mu.Unlock()
	r.Violation(caseID, kind, detail)
}

func (r *Run) Inconclusive(reason string) {
	r.mu.Lock()
	r.inconclusive = append(r.inconclusive, reason)
	r.mu.Unlock()
}

// Floor declares a coverage floor; when not met (and not replaying), the run
// is inconclusive.
func (r *Run) Floor(name string, ok bool) {
	if r.Replay() || ok {
		return
	}
	r.Inconclusive("coverage floor not met: " + name)
}

func (r *Run) Violations() int {
	r.mu.Lock()
	defer r.mu.Unlock()
	return r.violations
}

// Finish writes the evidence file, removes the scratch directory and returns
// the exit code (0 held, 1 violated, 2 inconclusive).
func (r *Run) Finish() int {
	_ = os.RemoveAll(r.Scratch)
	r.mu.Lock()
	defer r.mu.Unlock()

	cov := map[string]any{}
	for k, v := range r.extra {
		cov[k] = v
	}
	for k, v := range r.counts {
		cov[k] = v
	}
	for k, v := range r.maxima {
		cov["max_"+k] = v
	}
	for k, m := range r.sets {
		if len(m) <= 40 {
			var l []string
			for e := range m {
				l = append(l, e)
			}
			sort.Strings(l)
			cov[k] = l
		} else {
			cov[k+"_distinct"] = len(m)
		}
	}
	cov["evaluations"] = r.evals
	cov["distinct_nontrivial"] = len(r.distinct)
	cov["rule"] = r.rule
	if len(r.samples) == 0 {
		r.samples = append(r.samples, "no sample recorded")
	}
	cov["samples"] = r.samples
	if r.exhaustive {
		cov["exhaustive"] = true
	}
	cov["known_findings_seen"] = r.knownSeen
	verdict := "held"
	code := 0
	if r.violations > 0 {
		verdict, code = "violated", 1
	} else if len(r.inconclusive) > 0 {
		verdict, code = "inconclusive", 2
	}
	cov["verdict"] = verdict
	if len(r.inconclusive) > 0 {
		cov["inconclusive_reasons"] = r.inconclusive
	}
	if r.Only != "" {
		cov["replay_filter"] = r.Only
	}
	ev := map[string]any{
		"property_id": r.Prop,
		"tier":        r.Tier,
		"seed":        r.Seed,
		"level":       r.Level,
		"coverage":    cov,
		"assumptions": r.assumptions,
		"wall_s":      time.Since(r.start).Seconds(),
		"violations":  r.violations,
	}
	if r.Only == "" && os.Getenv("VERIF_NO_EVIDENCE") == "" {
		dir := filepath.Join(Root(), "evidence")
		_ = os.MkdirAll(dir, 0o755)
		b, err := json.MarshalIndent(ev, "", " ")
		if err != nil {
			fmt.Fprintf(os.Stderr, "evidence marshal: %v\n", err)
		} else if err := os.WriteFile(filepath.Join(dir, r.Prop+".json"), append(b, '\n'), 0o644); err != nil {
			fmt.Fprintf(os.Stderr, "evidence write: %v\n", err)
		}
	}
	for _, why := range r.inconclusive {
		fmt.Printf("INCONCLUSIVE property=%s reason=%s\n", r.Prop, why)
	}
	if p := os.Getenv("VERIF_PROGRESS"); p != "" {
		// tells the supervisor that this exit code is a verdict (the Go runtime also exits with 2 on a fatal error)
		_ = os.WriteFile(p+".done", []byte(fmt.Sprint(code)), 0o644)
	}
	fmt.Printf("RESULT property=%s tier=%s seed=%d verdict=%s evaluations=%d distinct=%d violations=%d wall=%.1fs\n",
		r.Prop, r.Tier, r.Seed, verdict, r.evals, len(r.distinct), r.violations, time.Since(r.start).Seconds())
	return code
}

// Digest returns a short stable hash of anything JSON-marshallable or a string.
func Digest(v any) string {
	var b []byte
	switch x := v.(type) {
	case string:
		b = []byte(x)
	case []byte:
		b = x
	default:
		b, _ = json.Marshal(v)
	}
	h := sha256.Sum256(b)
	return hex.EncodeToString(h[:8])
}

// Q quotes arbitrary bytes for JSON-safe, readable witnesses.
func Q(s string) string { return fmt.Sprintf("%q", s) }

// NewDetachedRNG is RNG() without a Run (used by child workers that must reproduce the orchestrator's stream).
func NewDetachedRNG(seed int64, prop, name string) *rand.Rand {
	h := sha256.Sum256([]byte(fmt.Sprintf("%d|%s|%s", seed, prop, name)))
	return rand.New(rand.NewSource(int64(binary.LittleEndian.Uint64(h[:8]))))
}

// NewQuietRun returns a Run that collects violations instead of printing them (for child workers that report to
// their parent through their own output).
func NewQuietRun(prop string) *Run {
	return &Run{
		Prop: prop, Tier: "quick", Seed: 1, Level: "exploration", quiet: true, start: time.Now(),
		distinct: map[[16]byte]struct{}{}, counts: map[string]int64{}, sets: map[string]map[string]struct{}{}, maxima: map[string]int64{},
		sampleKinds: map[string]int{}, extra: map[string]any{}, violationIDs: map[string]bool{}, knownSeen: map[string]int{}, known: map[string]string{},
	}
}

// TakeViolations returns the violations collected by a quiet run.
func (r *Run) TakeViolations() []map[string]any {
	r.mu.Lock()
	defer r.mu.Unlock()
	return r.collected
}
