package gen

import (
	"math/rand"
	"strings"

	"github.com/akrennmair/updog/verifharness/oracle"
)

// Value tokens for query texts (already quoted).
var textValues = []string{`""`, `"a"`, `"1"`, `"a b"`, `""""`, `"x""y"`, "\"l1\nl2\"", `"ü€"`, "\"\xff\"", `"$1"`, `"a&b|c"`, `"("`, `")"`, `";"`, `"^"`, `","`, `"="`, "\"\x00\"", `" "`, `"""a"""`}
var textFields = []string{"a", "B9_z", "Zz", "x_", "count", "a1"}
var textPlaceholders = []string{"$1", "$2", "$3", "$007", "$2147483647", "$0", "$00", "$2147483648", "$4294967297", "$", "$99999999999999999999", "$18446744073709551617", "$0000000000000000000000000000000000000001"}

// Sentence appends the tokens of a random sentence of the grammar (expr only).
func Sentence(rng *rand.Rand, d int, toks *[]string, goodPlaceholders bool) {
	if d <= 0 || rng.Intn(3) == 0 {
		*toks = append(*toks, textFields[rng.Intn(len(textFields))], "=")
		if rng.Intn(4) == 0 {
			if goodPlaceholders {
				*toks = append(*toks, textPlaceholders[rng.Intn(5)])
			} else {
				*toks = append(*toks, textPlaceholders[rng.Intn(len(textPlaceholders))])
			}
		} else {
			*toks = append(*toks, textValues[rng.Intn(len(textValues))])
		}
		return
	}
	switch rng.Intn(4) {
	case 0:
		*toks = append(*toks, "^")
		simpleSentence(rng, d-1, toks, goodPlaceholders)
	case 1:
		*toks = append(*toks, "(")
		Sentence(rng, d-1, toks, goodPlaceholders)
		*toks = append(*toks, ")")
	default:
		op := []string{"&", "|"}[rng.Intn(2)]
		n := 2 + rng.Intn(4)
		for i := 0; i < n; i++ {
			if i > 0 {
				*toks = append(*toks, op)
			}
			simpleSentence(rng, d-1, toks, goodPlaceholders)
		}
	}
}

func simpleSentence(rng *rand.Rand, d int, toks *[]string, good bool) {
	if d <= 0 || rng.Intn(2) == 0 {
		Sentence(rng, 0, toks, good)
		return
	}
	if rng.Intn(3) == 0 {
		*toks = append(*toks, "^")
		simpleSentence(rng, d-1, toks, good)
		return
	}
	*toks = append(*toks, "(")
	Sentence(rng, d-1, toks, good)
	*toks = append(*toks, ")")
}

// FieldList appends "; f {, f}".
func FieldList(rng *rand.Rand, toks *[]string) {
	*toks = append(*toks, ";", textFields[rng.Intn(len(textFields))])
	for rng.Intn(2) == 0 {
		*toks = append(*toks, ",", textFields[rng.Intn(len(textFields))])
	}
}

var seps = []string{"", " ", " ", "\t", "\n", "\r\n", "  ", " \t "}

// Join concatenates tokens with random blanks (possibly none).
func Join(rng *rand.Rand, toks []string) string {
	var sb strings.Builder
	if rng.Intn(6) == 0 {
		sb.WriteString(seps[rng.Intn(len(seps))])
	}
	for i, t := range toks {
		if i > 0 {
			sb.WriteString(seps[rng.Intn(len(seps))])
		}
		sb.WriteString(t)
	}
	if rng.Intn(6) == 0 {
		sb.WriteString(seps[rng.Intn(len(seps))])
	}
	return sb.String()
}

// MutationKinds lists the token/byte level mutations of Mutate.
var MutationKinds = []string{"none", "drop-token", "dup-token", "swap-tokens", "insert-token", "trailing-token", "trailing-clause", "mixed-chain", "drop-paren", "extra-paren",
	"unterminated-string", "trailing-unterminated", "semicolon-no-list", "list-trailing-comma", "second-value", "second-placeholder", "byte-flip", "truncate", "insert-byte", "insert-rune", "rune-in-field"}

// multi-byte runes: letters, digits and symbols outside ASCII (complete, valid encodings)
var wideRunes = []string{"é", "ж", "ß", "Ω", "日", "٣", "９", "²", "ª", "\u00a0", "\u2028", "€", "İ", "\u212a", "\ufeff", "𝒳"}

var extraTokens = []string{")", "(", "&", "|", `"y"`, "$2", "b", ";", ",", "=", "^", "#", "-", "'a'", "1", "$"}

// Mutate applies the named mutation to the token list and returns the final
// text. Mutations that work on bytes join first.
func Mutate(rng *rand.Rand, kind string, toks []string) string {
	t := append([]string{}, toks...)
	pick := func() int { return rng.Intn(len(t)) }
	switch kind {
	case "drop-token":
		j := pick()
		t = append(t[:j:j], t[j+1:]...)
	case "dup-token":
		j := pick()
		t = append(t[:j+1:j+1], t[j:]...)
	case "swap-tokens":
		if len(t) > 1 {
			j := rng.Intn(len(t) - 1)
			t[j], t[j+1] = t[j+1], t[j]
		}
	case "insert-token":
		j := rng.Intn(len(t) + 1)
		x := extraTokens[rng.Intn(len(extraTokens))]
		t = append(t[:j:j], append([]string{x}, t[j:]...)...)
	case "trailing-token":
		t = append(t, extraTokens[rng.Intn(len(extraTokens))])
	case "trailing-clause":
		t = append(t, []string{"|", "&"}[rng.Intn(2)], "c", "=", `"3"`)
		if rng.Intn(2) == 0 {
			t = append(t, []string{"&", "|"}[rng.Intn(2)], "d", "=", "$1")
		}
	case "mixed-chain":
		var ops []int
		for i, x := range t {
			if x == "&" || x == "|" {
				ops = append(ops, i)
			}
		}
		if len(ops) > 0 {
			i := ops[rng.Intn(len(ops))]
			if t[i] == "&" {
				t[i] = "|"
			} else {
				t[i] = "&"
			}
		} else {
			t = append(t, "&", "a", "=", `"1"`, "|", "b", "=", `"2"`)
		}
	case "drop-paren":
		var ps []int
		for i, x := range t {
			if x == "(" || x == ")" {
				ps = append(ps, i)
			}
		}
		if len(ps) > 0 {
			j := ps[rng.Intn(len(ps))]
			t = append(t[:j:j], t[j+1:]...)
		} else {
			t = append(t, ")")
		}
	case "extra-paren":
		if rng.Intn(2) == 0 {
			t = append([]string{"("}, t...)
		} else {
			t = append(t, ")")
		}
	case "unterminated-string":
		var vs []int
		for i, x := range t {
			if len(x) >= 2 && x[0] == '"' {
				vs = append(vs, i)
			}
		}
		if len(vs) > 0 {
			j := vs[rng.Intn(len(vs))]
			t[j] = t[j][:len(t[j])-1]
		} else {
			t = append(t, `"abc`)
		}
	case "trailing-unterminated":
		t = append(t, []string{`"abc`, `"`, `"a""`, `"""`}[rng.Intn(4)])
	case "semicolon-no-list":
		t = append(t, ";")
	case "list-trailing-comma":
		t = append(t, ";", "a", ",")
	case "second-value":
		t = append(t, `"y"`)
	case "second-placeholder":
		t = append(t, "$2")
	case "rune-in-field":
		// a non-ASCII letter/digit inside, at the end or at the start of a field
		var fs []int
		for i, x := range t {
			if len(x) > 0 && (x[0] >= 'a' && x[0] <= 'z' || x[0] >= 'A' && x[0] <= 'Z') {
				fs = append(fs, i)
			}
		}
		if len(fs) > 0 {
			i := fs[rng.Intn(len(fs))]
			w := wideRunes[rng.Intn(len(wideRunes))]
			switch rng.Intn(3) {
			case 0:
				t[i] = t[i] + w
			case 1:
				t[i] = t[i][:1] + w + t[i][1:]
			default:
				t[i] = w + t[i]
			}
		}
	}
	s := Join(rng, t)
	switch kind {
	case "byte-flip":
		if len(s) > 0 {
			b := []byte(s)
			b[rng.Intn(len(b))] = byte(rng.Intn(256))
			s = string(b)
		}
	case "truncate":
		if len(s) > 0 {
			s = s[:rng.Intn(len(s))]
		}
	case "insert-byte":
		j := rng.Intn(len(s) + 1)
		s = s[:j] + string([]byte{byte(rng.Intn(256))}) + s[j:]
	case "insert-rune":
		j := rng.Intn(len(s) + 1)
		s = s[:j] + wideRunes[rng.Intn(len(wideRunes))] + s[j:]
	}
	return s
}

var byteAlphabet = []byte("ab=\"$1&|^();, \n\t\r\xff\x00\xc3\xa9Z_09")

// RandomBytes draws a short string over an alphabet rich in grammar symbols.
func RandomBytes(rng *rand.Rand, n int) string {
	b := make([]byte, n)
	for j := range b {
		if rng.Intn(20) == 0 {
			b[j] = byte(rng.Intn(256))
		} else {
			b[j] = byteAlphabet[rng.Intn(len(byteAlphabet))]
		}
	}
	return string(b)
}

// FormatExpr renders a reference tree as query text with full parenthesisation
// where needed; column names must be identifiers. It is the harness's own
// formatter (used to feed the driver and the server with generated queries).
func FormatExpr(e *oracle.Expr) string {
	var sb strings.Builder
	var rec func(x *oracle.Expr, top bool)
	rec = func(x *oracle.Expr, top bool) {
		switch x.Op {
		case '=':
			sb.WriteString(x.Col)
			sb.WriteString(" = ")
			if x.Ph > 0 {
				sb.WriteString("$")
				sb.WriteString(itoa(int(x.Ph)))
			} else {
				sb.WriteString(oracle.QuoteValue(x.Val))
			}
		case '^':
			sb.WriteString("^ ")
			rec(x.Kids[0], false)
		default:
			if !top || len(x.Kids) == 1 {
				sb.WriteString("( ")
			}
			for i, k := range x.Kids {
				if i > 0 {
					sb.WriteByte(' ')
					sb.WriteByte(x.Op)
					sb.WriteByte(' ')
				}
				rec(k, false)
			}
			if !top || len(x.Kids) == 1 {
				sb.WriteString(" )")
			}
		}
	}
	rec(e, true)
	return sb.String()
}

func itoa(n int) string {
	if n == 0 {
		return "0"
	}
	var b []byte
	for n > 0 {
		b = append([]byte{byte('0' + n%10)}, b...)
		n /= 10
	}
	return string(b)
}

// FormatQuery renders expression plus group-by list.
func FormatQuery(e *oracle.Expr, groupBy []string) string {
	s := FormatExpr(e)
	if len(groupBy) > 0 {
		s += " ; " + strings.Join(groupBy, ", ")
	}
	return s
}

// Keywordish are words that other query languages reserve; in this grammar they are ordinary fields.
var Keywordish = []string{"and", "or", "not", "xor", "nand", "nor", "in", "is", "as", "by", "on", "if", "null", "true", "false", "like", "select", "from", "where", "group", "order",
	"having", "limit", "between", "exists", "count", "sum", "distinct", "asc", "desc", "union", "all", "any", "eq", "ne", "lt", "gt"}

// ShortIdentifiers lists every field of one and two characters, every three-letter field in lower case (all = false) or
// in lower, upper and capitalised form (all = true), and the keyword-like words in three spellings.
func ShortIdentifiers(all bool) []string {
	const letters = "abcdefghijklmnopqrstuvwxyzABCDEFGHIJKLMNOPQRSTUVWXYZ"
	const rest = letters + "0123456789_"
	var out []string
	for i := 0; i < len(letters); i++ {
		out = append(out, letters[i:i+1])
		for j := 0; j < len(rest); j++ {
			out = append(out, letters[i:i+1]+rest[j:j+1])
		}
	}
	for i := 0; i < 26; i++ {
		for j := 0; j < 26; j++ {
			for k := 0; k < 26; k++ {
				w := string([]byte{letters[i], letters[j], letters[k]})
				out = append(out, w)
				if all {
					out = append(out, strings.ToUpper(w), strings.ToUpper(w[:1])+w[1:])
				}
			}
		}
	}
	for _, w := range Keywordish {
		out = append(out, w, strings.ToUpper(w), strings.ToUpper(w[:1])+w[1:])
		if len(w) > 1 {
			out = append(out, w[:1]+strings.ToUpper(w[1:]))
		}
	}
	return out
}
