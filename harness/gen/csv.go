package gen

import (
	"math/rand"
	"strings"
	"unicode"

	"github.com/akrennmair/updog/verifharness/oracle"
)

// NormalizeHeader is the harness's own statement of the header rule of C19:
// lower-case each character, then replace everything outside a-z by '_'.
func NormalizeHeader(h string) string {
	var sb strings.Builder
	for _, r := range h {
		lr := unicode.ToLower(r)
		if lr >= 'a' && lr <= 'z' {
			sb.WriteRune(lr)
		} else {
			sb.WriteByte('_')
		}
	}
	return sb.String()
}

// CSVQuote quotes one field (always quoted, so blank lines and bare fields
// cannot blur the expectation).
func CSVQuote(f string) string {
	return `"` + strings.ReplaceAll(f, `"`, `""`) + `"`
}

// CSVFile is a generated CSV with its expected rows.
type CSVFile struct {
	Header  []string // raw header fields
	Columns []string // normalised
	Records [][]string
	Text    string
}

func (c *CSVFile) Rows() []oracle.Row {
	rows := make([]oracle.Row, 0, len(c.Records))
	for _, rec := range c.Records {
		r := oracle.Row{}
		for i, f := range rec {
			r[c.Columns[i]] = f
		}
		rows = append(rows, r)
	}
	return rows
}

func (c *CSVFile) Render() { c.RenderStyle("quoted", "\n") }

// csvMinimal writes a field bare when RFC 4180 / encoding/csv read it back
// verbatim: no quote, comma, CR or LF inside, and not empty (an empty bare field
// in a one-column record would be a blank line, which readers skip).
func csvMinimal(f string) string {
	if f == "" || strings.ContainsAny(f, "\",\r\n") {
		return CSVQuote(f)
	}
	return f
}

// RenderStyle renders the file with all fields quoted ("quoted") or with
// minimal quoting ("minimal": bare fields keep leading/trailing blanks, which a
// reader must preserve), using the given record terminator ("\n" or "\r\n").
func (c *CSVFile) RenderStyle(style, eol string) {
	enc := CSVQuote
	if style == "minimal" {
		enc = csvMinimal
	}
	var sb strings.Builder
	q := make([]string, len(c.Header))
	for i, h := range c.Header {
		q[i] = enc(h)
	}
	sb.WriteString(strings.Join(q, ","))
	sb.WriteString(eol)
	for ri, rec := range c.Records {
		for i, f := range rec {
			if i > 0 {
				sb.WriteByte(',')
			}
			sb.WriteString(enc(f))
		}
		if ri == len(c.Records)-1 && style == "minimal" && eol == "\n" {
			break // last record without a trailing newline
		}
		sb.WriteString(eol)
	}
	c.Text = sb.String()
}

var headerPool = []string{"", "123", "\ufeffbom", "__", "a", "B", "Col C", "d-e", "F1", "über", "ÜBER2", "9lives", "x.y", "Name", "city name", "ZIP", "q?", "tab\there", "日本", "k", "İ", "Temp \u212a", "snake_case", "MiXeD", "  pad  ", "a\"b", "h,i"}

// csvFields are field contents: the hostile pool minus CR (encoding/csv normalises CRLF).
func csvField(rng *rand.Rand, hostile bool, card int) string {
	if hostile && rng.Intn(3) == 0 {
		for {
			s := Hostile[rng.Intn(len(Hostile))]
			if !strings.Contains(s, "\r") {
				return s
			}
		}
	}
	k := rng.Intn(card)
	if hostile && rng.Intn(400) == 0 {
		return strings.Repeat("long field ", 9000) + itoa(k) // ~100 KB in one field
	}
	switch rng.Intn(7) {
	case 0:
		return "v" + itoa(k)
	case 5:
		return " lead" + itoa(k)
	case 6:
		return "trail" + itoa(k) + " \t"
	case 1:
		return itoa(k)
	default:
		return "val " + itoa(k)
	}
}

// MakeCSV generates a well-formed CSV: distinct normalised headers, n records.
func MakeCSV(rng *rand.Rand, n, maxCols int, hostile bool) *CSVFile {
	c := &CSVFile{}
	nc := 1 + rng.Intn(maxCols)
	seen := map[string]bool{}
	for len(c.Header) < nc {
		h := headerPool[rng.Intn(len(headerPool))]
		if !hostile {
			h = IdentCols[rng.Intn(len(IdentCols))]
		}
		nh := NormalizeHeader(h)
		if seen[nh] {
			continue
		}
		seen[nh] = true
		c.Header = append(c.Header, h)
		c.Columns = append(c.Columns, nh)
	}
	cards := make([]int, nc)
	for i := range cards {
		cards[i] = []int{1, 2, 5, 40, 1200, n + 1}[rng.Intn(6)]
	}
	for i := 0; i < n; i++ {
		rec := make([]string, nc)
		for k := range rec {
			rec[k] = csvField(rng, hostile, cards[k])
		}
		c.Records = append(c.Records, rec)
	}
	c.Render()
	return c
}

// CSVWithValues builds a CSV of n records whose columns carry the given
// numbers of distinct values (for commit-boundary datasets).
func CSVWithValues(n int, cards []int) *CSVFile {
	c := &CSVFile{}
	for k := range cards {
		// letters only (the CLI's header normalisation leaves such names alone): ca..cz, then caa, cab, ...
		name := "c" + string(rune('a'+k%26))
		if k >= 26 {
			name = "c" + string(rune('a'+k/26-1)) + string(rune('a'+k%26))
		}
		c.Header = append(c.Header, name)
		c.Columns = append(c.Columns, name)
	}
	for i := 0; i < n; i++ {
		rec := make([]string, len(cards))
		for k, card := range cards {
			rec[k] = "v" + itoa(i%card)
		}
		c.Records = append(c.Records, rec)
	}
	c.Render()
	return c
}
