// Package gen holds the PRNG-driven generators of the checks: datasets,
// expression trees, group-by lists, hostile strings.
package gen

import (
	"fmt"
	"math/rand"
	"sort"
	"strings"

	"github.com/akrennmair/updog/verifharness/oracle"
)

// Hostile is the pool of awkward strings (values and, without NUL, column
// names).
var Hostile = []string{
	"", " ", "a", "A", "0", "00", "a b", "a\x00b", "\x00", `"`, `""`, `"x"`, `x"y`, `x""y`, "'", "\\", "\n", "l1\nl2", "\r\n", "\t",
	"ü", "€uro", "日本語", "\xff", "\xff\xfe", "\xc3", "a\xc3(", "$1", "$0", "&", "|", "^", "(", ")", ";", ",", "=", "a=b",
	"a&b|c", strings.Repeat("x", 300), strings.Repeat("é", 100), "NULL", "null", "true", "count", "%", "100%", "%d", "%%", "%!s(MISSING)", "%s%s", "a\r\nb", "\r", "\n\r", "\u2028", "\ufeff", "a\u0301",
	"''", "it''s", "'''", `\\`, `\n`, `C:\new\table`, `\"`, "``", "$$", "&&", "||", ";;", "  ", "a  b", "\x80", "\x80\x80\xbf",
}

// Identifier-safe column names (usable in the text query language).
var IdentCols = []string{"a", "b", "c", "d", "e", "f", "g", "Zz", "B9_z", "x_", "col_1", "count"}

func HostileNoNUL(rng *rand.Rand) string {
	for {
		s := Hostile[rng.Intn(len(Hostile))]
		if !strings.Contains(s, "\x00") {
			return s
		}
	}
}

func RandBytes(rng *rand.Rand, n int) string {
	b := make([]byte, n)
	for i := range b {
		b[i] = byte(rng.Intn(256))
	}
	return string(b)
}

// ValueShape describes how a column's values are distributed over rows.
type ValueShape int

const (
	ShapeConstant ValueShape = iota
	ShapeBinary
	ShapeCategorical
	ShapeManyDistinct // > 1000 distinct values
	ShapeUnique       // unique per row
	ShapeRun          // i / k
	ShapeSparse       // one special value in ~5000
	ShapeDense        // all but a few rows share a value
	numShapes
)

var shapeNames = []string{"constant", "binary", "categorical", "many-distinct", "unique", "run", "sparse", "dense"}

func (s ValueShape) String() string { return shapeNames[s] }

type ColSpec struct {
	Name    string
	Shape   ValueShape
	Missing float64 // probability that a row lacks the column
	Card    int
	Hostile bool     // values drawn from the hostile pool
	Pool    []string // if set, values are drawn from this pool
	Prefix  string   // non-hostile values are rendered as Prefix + number (long common prefixes, non-prefix-related tails)
}

type Dataset struct {
	ID    string
	Rows  []oracle.Row
	Specs []ColSpec
	Cols  map[string]bool     // columns occurring in at least one row
	Vals  map[string][]string // distinct values per column (sorted)
	// Unique is the name of a unique-per-row column carried by every row ("" if none).
	Unique string
}

type DatasetOpts struct {
	Rows          int
	MaxCols       int
	HostileCols   bool // column names from the hostile pool (NUL-free) instead of identifiers
	HostileVals   bool
	WithUnique    bool // add a unique-per-row column present in every non-empty row
	MaxCard       int  // cap on "many distinct" cardinality (0 = default 1500)
	NoMissing     bool
	EmptyRows     bool // sprinkle fully empty rows and a trailing block of them
	Shapes        []ValueShape
	TrailingEmpty int    // force that many fully empty rows at the end
	Crafted       string // "container-edges" | "wide-rows" | "dense" | "gb-product": a hand-built dataset instead of a generated one
	// Concat builds a dataset whose column names are prefixes of each other and whose values complete them, so that
	// different (column,value) pairs have equal concatenations ("a"+"bc" = "ab"+"c"): any key encoding that does not
	// keep column and value apart confuses them.
	Concat bool
}

var concatCols = []string{"a", "ab", "abc", "b", "", "ab c", "a\x00"}
var concatVals = []string{"", "a", "b", "c", "bc", "abc", "ab", " c", "b c", "\x00b", "\x00"}

func value(rng *rand.Rand, spec ColSpec, i, n int) string {
	if len(spec.Pool) > 0 {
		return spec.Pool[rng.Intn(len(spec.Pool))]
	}
	raw := func(k int) string {
		if spec.Hostile {
			// map small integers onto distinct hostile strings, then fall back to numbered ones
			if k < len(Hostile) {
				return Hostile[k]
			}
			return fmt.Sprintf("h\xff%d", k)
		}
		return spec.Prefix + fmt.Sprintf("%d", k)
	}
	switch spec.Shape {
	case ShapeConstant:
		return raw(0)
	case ShapeBinary:
		return raw(rng.Intn(2))
	case ShapeCategorical:
		return raw(rng.Intn(spec.Card))
	case ShapeManyDistinct:
		return raw(rng.Intn(spec.Card))
	case ShapeUnique:
		return fmt.Sprintf("u%07d", i)
	case ShapeRun:
		k := spec.Card
		if k < 1 {
			k = 1
		}
		return raw(i / k)
	case ShapeSparse:
		if rng.Intn(5000) == 0 || i == n/2 {
			return raw(1)
		}
		return raw(0)
	default: // dense
		if rng.Intn(3000) == 0 || i == n/3 {
			return raw(1 + rng.Intn(3))
		}
		return raw(0)
	}
}

// MakeDataset generates a dataset deterministically from rng.
func MakeDataset(rng *rand.Rand, id string, o DatasetOpts) *Dataset {
	switch o.Crafted {
	case "container-edges":
		d := ContainerEdges()
		d.ID = id
		return d
	case "wide-rows":
		d := WideRows(rng)
		d.ID = id
		return d
	case "dense":
		d := Dense(rng, o.Rows, 6, 64)
		d.ID = id
		return d
	case "rare-values":
		d := RareValues(o.Rows)
		d.ID = id
		return d
	case "gb-product":
		d := GroupProduct(rng, o.Rows)
		d.ID = id
		return d
	}
	if o.MaxCols < 1 {
		o.MaxCols = 5
	}
	if o.MaxCard == 0 {
		o.MaxCard = 1500
	}
	nc := 1 + rng.Intn(o.MaxCols)
	names := map[string]bool{}
	var specs []ColSpec
	if o.Concat {
		for _, c := range concatCols {
			if strings.Contains(c, "\x00") {
				continue // NUL in column names is excluded by the properties
			}
			specs = append(specs, ColSpec{Name: c, Shape: ShapeCategorical, Pool: concatVals, Missing: 0.3})
			names[c] = true
		}
		nc = len(specs)
	}
	for len(specs) < nc {
		var name string
		if o.HostileCols && rng.Intn(3) != 0 {
			name = HostileNoNUL(rng)
		} else {
			name = IdentCols[rng.Intn(len(IdentCols))]
		}
		if names[name] || name == "uniq" {
			continue
		}
		names[name] = true
		shapes := o.Shapes
		var sh ValueShape
		if len(shapes) > 0 {
			sh = shapes[rng.Intn(len(shapes))]
		} else {
			sh = ValueShape(rng.Intn(int(numShapes)))
			if sh == ShapeUnique && o.Rows > 20000 {
				sh = ShapeCategorical
			}
		}
		spec := ColSpec{Name: name, Shape: sh, Hostile: o.HostileVals && rng.Intn(2) == 0}
		if rng.Intn(4) == 0 {
			spec.Prefix = []string{"customer-", "2026-09-2", "aaaaaaaaaaaaaaaa", "\xff\xff\xff\xff\xff\xff\xff\xff\xff", "München-Süd/"}[rng.Intn(5)]
		}
		switch sh {
		case ShapeCategorical:
			spec.Card = 2 + rng.Intn(12)
		case ShapeManyDistinct:
			spec.Card = 1001 + rng.Intn(o.MaxCard-1000+1)
		case ShapeRun:
			spec.Card = []int{1, 7, 100, 1000, 4096, 30000, 65536}[rng.Intn(7)]
			if o.Rows/spec.Card > 3000 {
				spec.Card = o.Rows/3000 + 1
			}
		}
		if !o.NoMissing && rng.Intn(2) == 0 {
			spec.Missing = []float64{0.02, 0.2, 0.5, 0.95}[rng.Intn(4)]
		}
		specs = append(specs, spec)
	}
	ds := &Dataset{ID: id, Specs: specs}
	if o.WithUnique {
		ds.Unique = "uniq"
	}
	trailingEmpty := 0
	if o.EmptyRows && o.Rows > 3 && rng.Intn(2) == 0 {
		trailingEmpty = 1 + rng.Intn(3)
	}
	if o.TrailingEmpty > 0 && o.Rows > o.TrailingEmpty {
		trailingEmpty = o.TrailingEmpty
	}
	for i := 0; i < o.Rows; i++ {
		r := oracle.Row{}
		empty := o.EmptyRows && (rng.Intn(40) == 0 || i >= o.Rows-trailingEmpty)
		if !empty {
			for _, s := range specs {
				if s.Missing > 0 && rng.Float64() < s.Missing {
					continue
				}
				r[s.Name] = value(rng, s, i, o.Rows)
			}
			if o.WithUnique {
				r["uniq"] = fmt.Sprintf("u%07d", i)
			}
		}
		ds.Rows = append(ds.Rows, r)
	}
	ds.Index()
	return ds
}

// Index (re)computes Cols and Vals from Rows.
func (ds *Dataset) Index() {
	ds.Cols = oracle.Columns(ds.Rows)
	ds.Vals = oracle.Schema(ds.Rows)
}

func (ds *Dataset) ColNames() []string {
	var l []string
	for c := range ds.Cols {
		l = append(l, c)
	}
	sort.Strings(l)
	return l
}

// ExprOpts steers the expression generator.
type ExprOpts struct {
	MaxDepth   int
	MaxArity   int
	UnknownCol bool // allow a column that occurs in no row
	SkipCols   map[string]bool
}

// Leaf draws a comparison over the dataset's columns; now and then with a value
// absent from the data, a value of another column, or the empty string.
func Leaf(rng *rand.Rand, ds *Dataset, cols []string) *oracle.Expr {
	c := cols[rng.Intn(len(cols))]
	vs := ds.Vals[c]
	switch {
	case len(vs) == 0 || rng.Intn(10) == 0:
		return oracle.Eq(c, []string{"absent", "", "\x00", "0 "}[rng.Intn(4)])
	case rng.Intn(12) == 0 && len(cols) > 1:
		o := ds.Vals[cols[rng.Intn(len(cols))]]
		if len(o) > 0 {
			return oracle.Eq(c, o[rng.Intn(len(o))])
		}
	}
	return oracle.Eq(c, vs[rng.Intn(len(vs))])
}

// Expr generates a random expression tree.
func Expr(rng *rand.Rand, ds *Dataset, cols []string, depth, maxArity int) *oracle.Expr {
	if depth <= 0 || rng.Intn(4) == 0 {
		return Leaf(rng, ds, cols)
	}
	switch rng.Intn(5) {
	case 0, 1:
		return oracle.Not(Expr(rng, ds, cols, depth-1, maxArity))
	default:
		op := byte('&')
		if rng.Intn(2) == 0 {
			op = '|'
		}
		n := 1 + rng.Intn(maxArity)
		e := &oracle.Expr{Op: op}
		for i := 0; i < n; i++ {
			if i > 0 && rng.Intn(6) == 0 {
				// duplicate operand (same pointer and/or structurally equal)
				k := e.Kids[rng.Intn(len(e.Kids))]
				if rng.Intn(2) == 0 {
					k = k.Clone()
				}
				e.Kids = append(e.Kids, k)
				continue
			}
			e.Kids = append(e.Kids, Expr(rng, ds, cols, depth-1, maxArity))
		}
		return e
	}
}

// DeepChain builds an expression nested depth levels deep mixing NOT and
// single/binary operators around a leaf.
func DeepChain(rng *rand.Rand, ds *Dataset, cols []string, depth int) *oracle.Expr {
	e := Leaf(rng, ds, cols)
	for i := 0; i < depth; i++ {
		switch rng.Intn(4) {
		case 0, 1:
			e = oracle.Not(e)
		case 2:
			e = oracle.And(e, Leaf(rng, ds, cols))
		default:
			e = oracle.Or(Leaf(rng, ds, cols), e)
		}
	}
	return e
}

// Wide builds one AND or OR node with n leaf (or negated leaf) operands.
func Wide(rng *rand.Rand, ds *Dataset, cols []string, n int) *oracle.Expr {
	op := byte('|')
	if rng.Intn(3) == 0 {
		op = '&'
	}
	e := &oracle.Expr{Op: op}
	for i := 0; i < n; i++ {
		l := Leaf(rng, ds, cols)
		if op == '&' || rng.Intn(5) == 0 {
			l = oracle.Not(l)
		}
		e.Kids = append(e.Kids, l)
	}
	return e
}

// WithUnknown replaces one leaf's column by a column that occurs in no row.
func WithUnknown(rng *rand.Rand, e *oracle.Expr, ds *Dataset) *oracle.Expr {
	c := e.Clone()
	var leaves []*oracle.Expr
	var walk func(x *oracle.Expr)
	walk = func(x *oracle.Expr) {
		if x.Op == '=' {
			leaves = append(leaves, x)
		}
		for _, k := range x.Kids {
			walk(k)
		}
	}
	walk(c)
	l := leaves[rng.Intn(len(leaves))]
	l.Col = UnknownCol(rng, ds)
	return c
}

func UnknownCol(rng *rand.Rand, ds *Dataset) string {
	for _, cand := range []string{"nosuch", "", "Nosuch_1", "zz9", "ü", "a ", "uniQ"} {
		if rng.Intn(2) == 0 && !ds.Cols[cand] {
			return cand
		}
	}
	for i := 0; ; i++ {
		c := fmt.Sprintf("nosuch%d", i)
		if !ds.Cols[c] {
			return c
		}
	}
}

// GroupBy draws a group-by list of n columns (repeats allowed; fewer than n when
// even the cheapest extension would exceed four times the budget) whose
// evaluation work stays below budget. The library refines groups level by
// level, so the work of a list is estimated as the sum over levels of
// (groups so far) x (distinct values of the next column), with the number of
// groups bounded by the row count.
func GroupBy(rng *rand.Rand, ds *Dataset, n int, budget int) []string {
	cols := ds.ColNames()
	if len(cols) == 0 || n == 0 {
		return nil
	}
	card := func(c string) int {
		k := len(ds.Vals[c])
		if k < 1 {
			k = 1
		}
		return k
	}
	smallest := cols[0]
	for _, x := range cols {
		if card(x) < card(smallest) {
			smallest = x
		}
	}
	rows := len(ds.Rows)
	if rows < 1 {
		rows = 1
	}
	var out []string
	groups, work := 1, 0
	for len(out) < n {
		var pick string
		if len(out) > 0 && rng.Intn(5) == 0 {
			pick = out[rng.Intn(len(out))] // repeated column
		} else {
			pick = cols[rng.Intn(len(cols))]
		}
		for try := 0; try < 8 && work+groups*card(pick) > budget; try++ {
			pick = cols[rng.Intn(len(cols))]
		}
		if work+groups*card(pick) > budget {
			pick = smallest
		}
		if work+groups*card(pick) > 4*budget {
			break // even the smallest column is too expensive here: return a shorter list
		}
		work += groups * card(pick)
		groups *= card(pick)
		if groups > rows {
			groups = rows
		}
		out = append(out, pick)
	}
	return out
}

// ContainerEdges is a crafted dataset around roaring's container structure: 131072 rows (two full containers); column
// "full" = "y" on every row of the second container only (a full container), "c4096" = "x" on exactly 4096 rows of the
// first container and 4097 rows of the second (array/bitmap threshold), "all" on every row, "last" only on the very
// last row, "edge" on rows 65535 and 65536.
func ContainerEdges() *Dataset {
	ds := &Dataset{ID: "container-edges"}
	n := 131072
	c1 := 0
	for i := 0; i < n; i++ {
		r := oracle.Row{"all": "1"}
		if i >= 65536 {
			r["full"] = "y"
		}
		if i < 65536 && i%16 == 0 {
			r["c4096"] = "x"
		}
		if i >= 65536 && (i%16 == 0 || (i == 65537 && c1 == 0)) {
			r["c4096"] = "x"
			if i == 65537 {
				c1++
			}
		}
		if i == n-1 {
			r["last"] = "z"
		}
		if i == 65535 || i == 65536 {
			r["edge"] = "e"
		}
		if i%3 == 0 {
			r["m3"] = itoa(i % 9)
		}
		ds.Rows = append(ds.Rows, r)
	}
	ds.Index()
	return ds
}

// WideRows is a crafted dataset whose rows carry very many columns (300 columns, 60 rows).
func WideRows(rng *rand.Rand) *Dataset {
	ds := &Dataset{ID: "wide-rows", Unique: "uniq"}
	for i := 0; i < 60; i++ {
		r := oracle.Row{"uniq": fmt.Sprintf("u%07d", i)}
		for c := 0; c < 300; c++ {
			if rng.Intn(10) == 0 {
				continue
			}
			r[fmt.Sprintf("col%03d", c)] = itoa(rng.Intn(4))
		}
		ds.Rows = append(ds.Rows, r)
	}
	ds.Index()
	return ds
}

// Dense is a crafted dataset with few values and many rows: cols columns, each with card random values, no unique
// column, so that a few hundred bitmaps hold several MiB of serialised data.
func Dense(rng *rand.Rand, rows, cols, card int) *Dataset {
	ds := &Dataset{ID: "dense"}
	for i := 0; i < rows; i++ {
		r := oracle.Row{}
		for c := 0; c < cols; c++ {
			r["d"+itoa(c)] = itoa(rng.Intn(card))
		}
		ds.Rows = append(ds.Rows, r)
	}
	ds.Index()
	return ds
}

// GroupProduct builds a dataset for group-by lists whose refinement steps are LARGE products (groups so far x values
// of the next column >= 65536) although every group is tiny: a unique column u, columns t (40 values), s (220) and m
// (300), each with the empty string among its values and missing on part of the rows, and a three-valued column kind.
func GroupProduct(rng *rand.Rand, rows int) *Dataset {
	ds := &Dataset{Unique: "u"}
	val := func(prefix string, i, card int) string {
		if i%card == 0 {
			return "" // the empty string is a value like any other
		}
		return fmt.Sprintf("%s%03d", prefix, i%card)
	}
	for i := 0; i < rows; i++ {
		r := oracle.Row{"u": fmt.Sprintf("u%05d", i), "kind": []string{"x", "y", "z"}[i%3]}
		if i%5 != 1 {
			r["t"] = val("t", i*7+i/40, 40)
		}
		if i%4 != 2 {
			r["s"] = val("s", i*13+i/220, 220)
		}
		if i%6 != 3 {
			r["m"] = val("m", i*11+i/300, 300)
		}
		ds.Rows = append(ds.Rows, r)
	}
	ds.Index()
	return ds
}

// RareValues: every row position 0..rows-1 is the first (or only) row of some value that occurs on one to seven rows:
// a unique column, a column whose values sit on two rows half the dataset apart, and one whose values sit on seven
// consecutive rows. Whatever a writer or reader does differently for rare values meets every row id here.
func RareValues(rows int) *Dataset {
	ds := &Dataset{Unique: "id"}
	half := rows / 2
	for i := 0; i < rows; i++ {
		r := oracle.Row{"id": fmt.Sprintf("n%d", i), "pair": fmt.Sprintf("p%d", i%half), "k": []string{"x", "y", "z"}[i%3]}
		if i%2 == 0 {
			r["seven"] = fmt.Sprintf("s%d", i/14)
		}
		ds.Rows = append(ds.Rows, r)
	}
	ds.Index()
	return ds
}
